"""C08 - restricted reads equal full read + subset, for VCF and PGEN alike.

Relations
  read   : one content materialised as .vcf.gz+tbi or .bcf+csi - or, un-indexed, as .vcf / .vcf.gz /
           .bcf whose records need not be sorted - (pysam) and as .pgen/.pvar/.psam (pgenlib, plain
           text; the PVAR in the same, possibly unsorted, record order), one query (region / samples /
           ids / max_variants / chunk size); haptools' read(), read(restricted) and
           __iter__(restricted) observed for both formats (the VCF reader gets the query without its
           region when the file has no index - or, now and then, with it: htslib refuses).  The region
           is handed to the readers AND to the model as text; contig names are C08_Region.enc numbers,
           so the model parses the text itself (htslib's rules, GenotypesPLINK's re.split or the
           repaired parser - switch STRICT_REGION_CONTIG_NAMES); contig names with ':' and '-' occur.
           A width-boundary stream (read_boundary_cases) is part of every run.  The iterator is observed by three
           callers: one that converts each record to plain data before asking for the next, one that materialises
           all records first (list(it)) and one that converts a record only after the iterator moved past it
           (q["styles"]); and two read() calls are made on ONE object (restricted then everything, or the other way
           round: q["again"]), the caller keeping the arrays of the first - every view must show the same.
  subset : Genotypes.subset(samples, variants) on an in-memory object
  seq    : one file (VCF/BCF or PGEN), read(), read(restricted), full.subset(what the restricted read
           returned), then 1-4 subset() calls on the loaded object (in place / copy and continue with
           the copy / copy and stay), the object dumped before every call
  cmdfmt : one content as .vcf.gz+tbi and as .pgen, one command (transform, ld, ld --from-gts,
           simphenotype --seed, clump) run on each with the same options (--region, --sample, --id,
           --chunk-size, ...); the read() each run made on the genotypes file is recorded (arguments and
           the object it left: compared with the model) and the parsed outputs must be equal
"""
import logging
import os
import shutil
import tempfile

import numpy as np

from . import coqlit as L
from .core import Relation, err_kind
from .c07 import ALPH, Enc, build_obj, dump_obj, oerr

PROP = "C08"
CLAIMED = True
COQ_MODULES = ["C08_Region", "C08_Check", "C08_Proofs", "C08_Proofs2", "C08_Proofs3", "C08_Proofs4"]
PROPERTY_MODULE = "C08_Property"
ALLOWED_AXIOMS = []
RULE = (
    "read: contents of 1-5 samples x 0-8 variants on 1-3 contigs (equal positions and multi-base REF alleles occur); in "
    "30% of the contents the contig names hold ':' and '-' and other legal punctuation (HLA-DRB1, HLA-A*01:01:01:01, "
    "chrUn_KI270-1 beside chrUn_KI270, 6:7, 1-2, b-, :e, random ones), 3% repeat a variant ID (outside the domain: "
    "compared with the model only); "
    "file order of the records: coordinate-sorted (55%), positions in any order within a contig block, sorted runs "
    "re-arranged so that a contig occurs in several blocks, or fully shuffled - the PVAR always has that order, the "
    "VCF/BCF is indexed only when the order allows it (and left un-indexed now and then when it does; then the VCF "
    "reader gets the query without its region, or - 15% of those - with it); queries mixing region forms 'c', 'c:a-b', "
    "'c:a-' (as text, canonically printed) with a/b on, between "
    "(+-1) and outside variant positions and absent contigs, sample subsets with unknown names, ID subsets with unknown "
    "IDs / no match / the empty set, max_variants 0..p+2, PGEN chunk sizes None,1..p+1; in every run the width-boundary "
    "stream: 127|128|255|256 and 129|257|300 samples, 1000|1001 samples, 255|256|257 variants with chunk sizes and "
    "max_variants beside them, max_variants 255..65536 over a 5-variant file, positions 2^31-3 and 2^31-2 with region "
    "bounds on and beyond 2^31-1 (thorough: all of them); every iterator call is made three times - records converted "
    "one at a time, all records materialised first (list(it)) then converted, each record converted after the iterator was "
    "advanced past it (wide cases of the quick tier: one of the two holding styles) - and in 60% of the cases two read() "
    "calls are made on one object (restricted then everything / everything then restricted), the arrays the first call "
    "left being dumped again after the second. Non-trivial = the query "
    "restricts something (drops at least one row or column, or matches nothing). subset: objects of 1-5 x 0-6 with "
    "requested tuples that permute, repeat and contain unknown names; in every run objects of 129|257 samples resp. "
    "variants with requests on both sides of 127|128 and 255|256. seq: contents as for read (<= 6 variants, plain contig "
    "names), the "
    "read unrestricted (45%) or restricted by a query as above, then 1-4 subset() calls whose samples=/variants= are "
    "drawn from the names the object holds at that point: all of them re-ordered, a part in any order, with names "
    "that were dropped by an earlier call or never existed, a name twice, the empty tuple, None; each call in place "
    "(50%) or copying, the caller continuing with the copy or not. Non-trivial = at least two calls were made or the "
    "read was restricted. cmdfmt: 3-8 samples x 3-8 biallelic SNPs on 1-2 contigs (15% with ':'/'-' names), every "
    "non-missing call phased; 30% of the contents carry a flaw the commands refuse (a missing call, an unphased "
    "heterozygote, a third allele); 1-4 haplotypes over the variants; the five commands in turn with --region (60%), "
    "--sample (50%, an unknown name now and then), --chunk-size (60%), --id / --discard-missing / --maf / TARGET / "
    "effects / p-values as the command takes them. Non-trivial = the VCF run wrote at least one record. "
    "Distinct = distinct canonical JSON."
)
TRUSTED = [
    "htslib region queries return, in file order, the records whose [pos, pos+len(REF)-1] overlaps the region (model "
    "in_region_vcf), and read a region text by trying the whole string as a contig name of the header, else cutting at the "
    "LAST colon (model C08_Region.hts_region; only plain-decimal positions are modelled); pgenlib returns stored calls by "
    "variant index (C07 contracts); all exercised on every run",
    "the test files (.vcf.gz+.tbi or .bcf+.csi, .pgen/.pvar/.psam, .hap, .snplist, summary statistics) are written with "
    "pysam / pgenlib / plain text by the harness, not with haptools",
    "the harness converts a Record / the arrays of an object to plain Python data at the moment stated for the view "
    "(at once, after list(it), after the next record was asked for, after the second read())",
    "harness transposes haptools' sample-major array to variant-major rows; strings are interned per case, except contig "
    "names in read / cmdfmt, which are written as C08_Region.enc numbers (theorem C08_contig_enc_injective)",
    "cmdfmt: the harness wraps Genotypes.read / GenotypesPLINK.read to record the arguments a command hands to the reader "
    "and the object the read leaves; output files are compared as tab-separated tokens (the separator of a homozygous GT "
    "is immaterial); for the base class Genotypes (no alleles loaded) the alleles are taken from the content",
]
ASSUMPTIONS = [
    "domain: sample names and variant IDs are unique within a file (a file that repeats an ID is generated and compared "
    "with the model, not judged: both readers stop after len(IDs) matches, so {v1, v3} over v1, v2, v1, v3 returns v1, v1; "
    "htslib refuses a VCF header that repeats a sample name, a .psam may repeat one and GenotypesPLINK keeps both columns); "
    "the ID and sample restrictions are Python sets; max_variants >= 0; chunk sizes >= 1 or None",
    "contig names are VCF-legal (no white space, printable ASCII) and may contain ':' and '-'; a region text has ONE "
    "reading: the file holds no contig named like the other reading of the text (C08_Region.unambiguous: for 'c' the text "
    "before the last colon of c, for 'c:a-b' the whole text) - htslib refuses such a text as ambiguous, the repaired PGEN "
    "reader returns both readings; two contigs of a file, and the contig of the region, differ within their first 10 "
    "characters (haptools keeps 10 characters of a contig name in a loaded object: C07's domain; the model cuts likewise, "
    "theorem C08_contig_cut_to_10)",
    "open finding behind STRICT_REGION_CONTIG_NAMES (off = the tree as it is): GenotypesPLINK cuts the region text at every "
    "':' and '-'; while the switch is off a text which that parser does not read as the region that was meant is compared "
    "with the model of that parser and not held against the PGEN reader (theorems C08_misread_spec / _plain / _fixed say "
    "exactly what is excused)",
    "region bounds on a record whose REF allele is longer than one base: either reading (overlap / position) is accepted "
    "by holds; cross-format equality of region reads is checked only when every REF is one base long or the region is a "
    "whole contig",
    "a sample restriction that selects no sample at all is checked like every other empty match since fix 1b2885e "
    "(no sample, no call, a warning, no exception; switch STRICT_EMPTY_SAMPLE_SELECTION, on by default)",
    "a region is only given to the VCF reader when the file has an index (htslib needs one; an un-indexed or unsorted "
    "file is read with the sample / ID / max_variants restrictions only) - except in the class vcf-unindexed-region-given, "
    "where it is given all the same: an exception from both read() and the iterator is accepted (AssertionError 'error "
    "loading tabix/csi index'), a result would have to be the right one; the PGEN reader gets every query",
    "what a reader handed out belongs to the caller: a record of the iterator still shows its variant after the iterator "
    "was advanced or exhausted, the arrays a read() left are not changed by a later read() on the same object, and a "
    "read() on an object that was read before returns what it returns on a fresh object (an exception in one view of a "
    "call counts as the same only as an exception in the other)",
    "seq: a subset() call made on the object of a VCF read that matched nothing (array of shape (0, 0, 0) beside the "
    "samples found) is checked like every other subset() since fix 09a826e (switch "
    "STRICT_SUBSET_AFTER_EMPTY_READ, on by default); calls made on an object with duplicate names (left by a request that "
    "repeats a name) are outside the domain (ValueError, compared by agree)",
    "cmdfmt: 'the same content' spells a homozygous call as phased in the VCF (0|0): pgenlib reports every homozygous call "
    "as phased, so a VCF with 0/0 calls is refused by check_phase while its PGEN twin is accepted - outside the relation; "
    "the same result = the same exit code and exception kind and the same output records (messages name the input file and "
    "are not compared); open finding behind STRICT_CMD_EMPTY_LOAD (off = the tree as it is): when the command's read matches "
    "nothing the two loads differ in shape ((0, 0, 0) vs (n, 0, 3)) and simphenotype prints no sample for the VCF, n "
    "noise-only phenotypes for the PGEN; such runs are not held against the command while the switch is off "
    "(theorems C08_empty_excused_spec, C08_read_shapes_agree)",
]


# Switch for the integrator: a sample restriction that selects no sample at all (the empty set, or only unknown
# names) makes cyvcf2 raise AttributeError ('NoneType' object has no attribute 'array', at the first record) and
# pgenlib RuntimeError ("Empty sample_subset is not currently permitted."), from read() and from __iter__() of
# GenotypesVCF resp. GenotypesPLINK - although the property says "a restriction that matches nothing yields an
# empty result with a warning, never a crash".  False (default) = the tree as it is: the model raises the same
# kinds (agree compares them) and holds does not look at such queries.  True = after
# fixes/C08_empty_sample_selection.patch: the model is the repaired reader (C08_Model.vcf_read_x / pgen_read_x
# (now the default) with flag true: the selected variants, no sample, VCF array (0, 0, 0), PGEN array (0, p, 3); theorems
# C08_vcf_read_x_spec / C08_pgen_read_x_spec hold without the hypothesis selected_samples <> []) and holds
# demands "no sample, no call, a warning, no exception".  Flipping it on the unrepaired tree yields
#   VIOLATION property=C08 ...   signature "read: vcf read raised AttributeError; vcf iter raised AttributeError;
#   pgen read raised RuntimeError; pgen iter raised RuntimeError; ... no-sample-selected=True"
# (relation read) and "seq[vcf|pgen]: read raised ...; no-sample-selected=True ..." (relation seq): the specific
# signature a known-finding entry can match on.  Also settable with HV_C08_STRICT_EMPTY_SAMPLE_SELECTION=1.
STRICT_EMPTY_SAMPLE_SELECTION = os.environ.get("HV_C08_STRICT_EMPTY_SAMPLE_SELECTION", "1") == "1"

# Switch for the integrator: Genotypes.read leaves an array of shape (0, 0, 0) beside the samples it found when
# nothing matched (VCF/BCF; also a file without records); subset(samples=...) on that object raises
# "IndexError: index 0 is out of bounds for axis 0 with size 0" as soon as one requested sample is known (same
# for variants= once the object lists variants), e.g. g.read(variants={"nope"}); g.subset(samples=("a",)).
# False = the tree before fix 09a826e: the model (C08_Model.subset_impl false) raises IndexError there, agree
# compares the kind, holds skips subset() calls made on such an object.  True = after
# fixes/C08_subset_after_empty_read.patch: model subset_impl true (never raises, theorem C08_subset_impl_total),
# holds demands the requested samples/variants there too.  Flipping it on the unrepaired tree yields
#   VIOLATION property=C08 ...   signature "seq[vcf]: ... subset ... raised IndexError (object of a read that
#   matched nothing: array without cells); ... subset-on-array-without-cells=True".
# Also settable with HV_C08_STRICT_SUBSET_AFTER_EMPTY_READ=1.
STRICT_SUBSET_AFTER_EMPTY_READ = os.environ.get("HV_C08_STRICT_SUBSET_AFTER_EMPTY_READ", "1") == "1"

# Switch for the integrator: GenotypesPLINK._iterate_variants splits the region text with re.split(":|-", region):
# a contig name that contains '-' or ':' (HLA-DRB1, HLA-A*01:01:01:01, chrUn_KI270-1, 6:7 - all legal VCF/PVAR contig
# names, read correctly by htslib, i.e. by the VCF reader) is cut into pieces: ValueError from int('DRB1'), TypeError
# (three numbers splatted into _check_region), or silently the records of ANOTHER contig / no record
# (region 'chrUn_KI270-1' returns chrUn_KI270 from position 1 on; region '1-2' returns contig 1 from position 2 on).
# False (default) = the tree as it is: the model is that parser (C08_Region.parse_legacy; agree compares the kinds and
# the wrong records), holds does not hold a region text which that parser misreads against the PGEN reader.
# True = after fixes/C08_region_contig_names.patch: model C08_Region.parse_fixed (whole string, or the text before the
# LAST colon with the numbers after it), holds demands the records of the region for every contig name.  Flipping it
# on the unrepaired tree yields
#   VIOLATION property=C08 ...  signature "read: pgen read raised ValueError; pgen iter raised ValueError;
#   ... region-contig-has-colon-or-dash=True"
# Also settable with HV_C08_STRICT_REGION_CONTIG_NAMES=1.
STRICT_REGION_CONTIG_NAMES = os.environ.get("HV_C08_STRICT_REGION_CONTIG_NAMES", "1") == "1"

# Switch for the integrator: when the read a command makes matches nothing, Genotypes.read (VCF/BCF) leaves an array of
# shape (0, 0, 0) and GenotypesPLINK.read one of shape (n, 0, 3).  `haptools simphenotype` computes with the rows of that
# array: for the VCF it writes a phenotype table without any sample, for the PGEN twin n noise-only phenotypes
# (e.g. a .snplist none of whose IDs lie in --region).  False (default) = the tree as it is: cmdfmt does not hold a run
# whose two loads left arrays of different shapes against the command.  True = after fixes/C08_simphenotype_empty_load.patch:
# the outputs must be equal there too.  Flipping it on the unrepaired tree yields
#   VIOLATION property=C08 ...  signature "cmdfmt[simphenotype]: outputs differ; ... loads-differ-in-shape=True"
# Also settable with HV_C08_STRICT_CMD_EMPTY_LOAD=1.
STRICT_CMD_EMPTY_LOAD = os.environ.get("HV_C08_STRICT_CMD_EMPTY_LOAD", "1") == "1"

# ----------------------------------------------------------------------------
# content and queries

# contig names that are legal in VCF and PVAR files and contain the characters region texts are cut at
SPECIAL_CONTIGS = ["HLA-DRB1", "HLA-A*01:01:01:01", "HLA-B*07:02:01", "chrUn_KI270-1", "chrUn_KI270", "6:7", "6", "1-2",
                   "1", "GL000-1.1", "X:Y", "b-", "a:1", "c+5-+6", "d_1-1_0", ":e", "-f", "chr1_KI270706v1_random", "2:3-4"]
SPECIAL_ABSENT = ["HLA-C", "chrUn_KI270-2", "6:8", "9-9", "zz:1-2", "HLA-A*01:01:01:02"]
NAME_ALPHABET = "0123456789ABCXYabcxyz" + "-:-:_.*+"


def rand_contig(rng):
    if rng.random() < 0.7:
        return str(rng.choice(SPECIAL_CONTIGS))
    k = int(rng.integers(1, 7))
    s = "".join(NAME_ALPHABET[int(i)] for i in rng.integers(0, len(NAME_ALPHABET), size=k))
    return ("c" + s[1:]) if s[0] == "*" else s


def enc_name(name):
    """C08_Region.enc: a contig name as one integer (little-endian base 256 with a final 1)"""
    out = 1
    for ch in reversed(name):
        assert 0 <= ord(ch) < 256
        out = ord(ch) + 256 * out
    return out


def _is_int(t):
    try:
        int(t)
        return True
    except ValueError:
        return False


def unambiguous(contigs, r):
    """C08_Region.unambiguousb: the file holds no contig named like the other reading of the printed region"""
    ctg, a, b = r
    if a is None:
        return ":" not in ctg or ctg.rpartition(":")[0] not in contigs
    return region_str(r) not in contigs


def has_sep(name):
    return ":" in name or "-" in name


def gen_content(rng, pmax=8, nmax=5, allow_unsorted=True, special=0.0, dup_ids=0.0):
    n = int(rng.integers(1, nmax + 1))
    p = int(rng.integers(1, pmax + 1))
    if rng.random() < 0.04:
        p = 0      # a file without variants
    samples = [f"s{j}" for j in rng.permutation(9)[:n].tolist()]
    contigs = sorted(rng.choice([1, 2, 3, 7, 10], size=int(rng.integers(1, 4)), replace=False).tolist())
    contigs = [("chr" if rng.random() < 0.2 else "") + str(c) for c in contigs]
    if len(set(contigs)) < len(contigs):
        contigs = sorted(set(contigs))
    if rng.random() < special:
        # names with ':' and '-' (and other legal punctuation) beside or instead of the plain ones, in any order
        k = int(rng.integers(1, 4))
        contigs = list(dict.fromkeys([rand_contig(rng) for _ in range(k)] + contigs[: int(rng.integers(0, 2))]))
        # haptools keeps 10 characters of a contig name: two contigs of one file differ within them (ASSUMPTIONS)
        contigs = list({x[:10]: x for x in contigs}.values())
        contigs = [contigs[i] for i in rng.permutation(len(contigs)).tolist()]
    cidx = sorted(rng.integers(0, len(contigs), size=p).tolist())
    ids = [f"v{j}" for j in rng.permutation(20)[:p].tolist()]
    multibase = rng.random() < 0.3
    variants, rows = [], []
    pos = 0
    for j in range(p):
        if j and cidx[j] != cidx[j - 1]:
            pos = 0
        step = int(rng.choice([0, 1, 1, 2, 3, 5, 10, 20])) if pos else int(rng.integers(1, 30))
        pos = max(1, pos + step)
        na = int(rng.choice([2, 2, 2, 3, 4]))
        alleles = []
        for a in rng.permutation(len(ALPH))[:na].tolist():
            s = ALPH[a]
            while s in alleles:
                s += "T"
            alleles.append(s)
        if not multibase:
            alleles[0] = next(x for x in "ACGT" if x not in alleles[1:])
        row = []
        for s in range(n):
            a, b = int(rng.integers(0, na)), int(rng.integers(0, na))
            ph = int(rng.integers(0, 2))
            if rng.random() < 0.1:
                a = b = 255
            if a != b and not ph:
                a, b = min(a, b), max(a, b)   # PGEN stores an unphased heterozygote unordered
            row.append([a, b, ph])
        variants.append([ids[j], contigs[cidx[j]], pos, alleles])
        rows.append(row)
    # file order: PLINK2 and un-indexed VCF/BCF files need not be coordinate-sorted
    r = rng.random()
    layout = "sorted"
    if allow_unsorted and p > 1 and r < 0.45:
        layout = ["unsorted-pos", "multi-block", "shuffled"][int(rng.integers(0, 3))]
        if layout == "shuffled":
            order = rng.permutation(p).tolist()
        elif layout == "unsorted-pos":     # contigs stay in one block each, positions within a block in any order
            order = []
            for ci in sorted(set(cidx)):
                blk = [j for j in range(p) if cidx[j] == ci]
                order += [blk[i] for i in rng.permutation(len(blk)).tolist()]
        else:                              # sorted runs, cut at random points and re-arranged: a contig occurs in several blocks
            cuts = sorted(set(rng.integers(1, p, size=int(rng.integers(1, 4))).tolist()))
            runs = [list(range(a, b)) for a, b in zip([0] + cuts, cuts + [p])]
            order = [j for i in rng.permutation(len(runs)).tolist() for j in runs[i]]
        variants = [variants[j] for j in order]
        rows = [rows[j] for j in order]
    if p > 1 and rng.random() < dup_ids:
        # outside the property's domain (ASSUMPTIONS): an ID twice in the file; compared with the model only
        i, j = sorted(rng.choice(p, size=2, replace=False).tolist())
        variants[j] = [variants[i][0]] + variants[j][1:]
    c = {"samples": samples, "variants": variants, "rows": rows, "planes": 3}
    # tabix/csi need contiguous contigs and non-decreasing positions; a sorted file is left un-indexed now and then
    c["indexed"] = bool(indexable(c) and rng.random() < 0.88)
    return c


def indexable(c):
    """contigs in one block each and positions non-decreasing within a block (what tabix / csi indexing needs)"""
    seen, last = [], None
    for v in c["variants"]:
        if not seen or v[1] != seen[-1]:
            if v[1] in seen:
                return False
            seen.append(v[1])
            last = None
        if last is not None and v[2] < last:
            return False
        last = v[2]
    return True


def is_indexed(c):
    return bool(c.get("indexed", True)) and indexable(c)


def vcf_has_index(c, q):
    """the VCF/BCF file of this case gets a .tbi/.csi (else the VCF reader is given the query without its region)"""
    return is_indexed(c) and q.get("vfmt", "vcf.gz") != "vcf"


def vcf_forced(c, q):
    """the file has no index and the region is handed to the VCF reader all the same (htslib refuses)"""
    return bool(q.get("vcf_force_region")) and not vcf_has_index(c, q) and q["region"] is not None


def vcf_query(c, q):
    return q if vcf_has_index(c, q) or vcf_forced(c, q) else dict(q, region=None)


def noncontiguous(c, r):
    """the records of region r (position semantics) do not form one run in file order"""
    if r is None:
        return False
    ctg, a, b = r
    hit = [v[1] == ctg and (a is None or v[2] >= a) and (b is None or v[2] <= b) for v in c["variants"]]
    if True not in hit:
        return False
    first, last = hit.index(True), len(hit) - 1 - hit[::-1].index(True)
    return not all(hit[first:last + 1])


def gen_query(rng, c, special=False):
    p = len(c["variants"])
    q = {"region": None, "samples": None, "ids": None, "max": None, "chunk": None}
    if rng.random() < 0.6:
        contigs = sorted({v[1] for v in c["variants"]})
        absent = ["4", "chr9", "1x"] + (SPECIAL_ABSENT if special and any(has_sep(x) for x in contigs) else [])
        ctg = str(rng.choice(contigs)) if contigs and rng.random() < 0.88 else str(rng.choice(absent))
        if ctg not in contigs and ctg[:10] in {x[:10] for x in contigs}:
            ctg = "4"      # an absent contig that a loaded object could not tell from one of the file
        pos = [v[2] for v in c["variants"] if v[1] == ctg] or [5]
        pts = sorted({max(1, x + d) for x in pos for d in (-1, 0, 1)} | {1, max(pos) + 7})
        form = rng.choice(["c", "c:a-b", "c:a-b", "c:a-"])
        a = int(rng.choice(pts))
        b = int(rng.choice(pts))
        if form == "c:a-b" and b < a and rng.random() < 0.85:
            a, b = b, a
        q["region"] = {"c": [ctg, None, None], "c:a-b": [ctg, a, b], "c:a-": [ctg, a, None]}[form]
        if not unambiguous(contigs, q["region"]):
            # the text has two readings that both name contigs of the file (ASSUMPTIONS): ask for the whole contig
            # with a start instead, or for nothing
            q["region"] = [ctg, 1, None] if unambiguous(contigs, [ctg, 1, None]) else None
    if rng.random() < 0.5:
        r = rng.random()
        k = int(rng.integers(1, len(c["samples"]) + 1))
        s = [c["samples"][i] for i in rng.permutation(len(c["samples"]))[:k].tolist()]
        if r < 0.3:
            s += ["zz", "s99"][: int(rng.integers(1, 3))]
        elif r < 0.36:
            s = ["zz"]
        elif r < 0.4:
            s = []
        q["samples"] = s
    if rng.random() < 0.5:
        r = rng.random()
        k = int(rng.integers(1, p + 1)) if p else 0
        s = [c["variants"][i][0] for i in rng.permutation(p)[:k].tolist()]
        if r < 0.3:
            s += ["nope", "v99"][: int(rng.integers(1, 3))]
        elif r < 0.4:
            s = ["nope"]
        elif r < 0.48:
            s = []
        q["ids"] = list(dict.fromkeys(s))     # a set (a file may hold an ID twice: dup_ids)
    if rng.random() < 0.4:
        q["max"] = int(rng.integers(0, p + 3))
    if rng.random() < 0.7:
        q["chunk"] = int(rng.integers(1, p + 2))
    q["vfmt"] = "bcf" if rng.random() < 0.3 else "vcf.gz"     # .bcf + .csi or .vcf.gz + .tbi
    if not is_indexed(c) and rng.random() < 0.3:
        q["vfmt"] = "vcf"                                      # plain text (only without an index)
    if special and q["region"] is not None and not vcf_has_index(c, q) and rng.random() < 0.15:
        q["vcf_force_region"] = True                           # the region is given although there is no index
    return q


def region_str(r):
    if r is None:
        return None
    c, a, b = r
    if a is None:
        return str(c)
    return f"{c}:{a}-{'' if b is None else b}"


def write_vcf(c, path):
    import pysam

    h = pysam.VariantHeader()
    seen = []
    for v in c["variants"]:
        if v[1] not in seen:
            seen.append(v[1])
            h.contigs.add(v[1])
    h.add_meta("FORMAT", items=[("ID", "GT"), ("Number", 1), ("Type", "String"), ("Description", "Genotype")])
    h.add_samples(c["samples"])
    mode = "wb" if path.endswith(".bcf") else "wz" if path.endswith(".gz") else "w"
    with pysam.VariantFile(path, mode, header=h) as vf:
        for v, row in zip(c["variants"], c["rows"]):
            rec = vf.new_record(contig=v[1], start=v[2] - 1, stop=v[2] - 1 + len(v[3][0]), alleles=tuple(v[3]), id=v[0])
            for s, call in zip(c["samples"], row):
                rec.samples[s]["GT"] = tuple(None if x == 255 else x for x in call[:2])
                rec.samples[s].phased = bool(call[2])
            vf.write(rec)
    if is_indexed(c) and mode != "w":     # == vcf_has_index
        pysam.tabix_index(path, preset="bcf" if path.endswith(".bcf") else "vcf", force=True)


def write_pgen(c, path):
    import pgenlib

    base = path[: -len(".pgen")]
    with open(base + ".psam", "w") as f:
        f.write("#IID\n" + "".join(s + "\n" for s in c["samples"]))
    with open(base + ".pvar", "w") as f:
        f.write("##fileformat=VCFv4.2\n")
        seen = []
        for v in c["variants"]:
            if v[1] not in seen:
                seen.append(v[1])
                f.write(f"##contig=<ID={v[1]}>\n")
        f.write("#CHROM\tPOS\tID\tREF\tALT\tQUAL\tFILTER\tINFO\n")
        for v in c["variants"]:
            f.write(f"{v[1]}\t{v[2]}\t{v[0]}\t{v[3][0]}\t{','.join(v[3][1:])}\t.\t.\t.\n")
    n, p = len(c["samples"]), len(c["variants"])
    if p == 0:
        open(path, "wb").close()     # what plink2 / haptools leave for a file without variants
        return
    limit = max(len(v[3]) for v in c["variants"])
    with pgenlib.PgenWriter(filename=path.encode(), sample_ct=n, variant_ct=p, allele_ct_limit=limit,
                            nonref_flags=False, hardcall_phase_present=True) as w:
        for v, row in zip(c["variants"], c["rows"]):
            codes = np.array([[(-9 if x == 255 else x) for call in row for x in call[:2]]], dtype=np.int32)
            phase = np.array([[call[2] for call in row]], dtype=np.uint8)
            w.append_partially_phased_batch(codes, phase, allele_cts=np.array([len(v[3])], dtype=np.uint32))


class CountWarnings(logging.Handler):
    def __init__(self):
        super().__init__(level=logging.WARNING)
        self.n = 0

    def emit(self, record):
        self.n += 1


def observe(cls, path, q, kw):
    from pathlib import Path
    from haptools.logging import getLogger

    quiet = getLogger("hv", "CRITICAL")
    out = {}
    args = dict(region=region_str(q["region"]),
                samples=None if q["samples"] is None else set(q["samples"]),
                variants=None if q["ids"] is None else set(q["ids"]))
    try:
        r = cls(Path(path), log=quiet, **kw)
        r.read()
        out["full"] = {"ok": dump_obj(r)}
    except Exception as e:  # noqa
        out["full"] = {"err": err_kind(e), "cls": type(e).__name__, "msg": str(e)[:160]}
    lg = logging.Logger("hv_capture")
    h = CountWarnings()
    lg.addHandler(h)
    try:
        r = cls(Path(path), log=lg, **kw)
        r.read(max_variants=q["max"], **args)
        out["read"] = {"ok": dump_obj(r)}
    except Exception as e:  # noqa
        out["read"] = {"err": err_kind(e), "cls": type(e).__name__, "msg": str(e)[:160]}
    out["warned"] = h.n > 0
    # the iterator, as three callers see it: (0) every record converted to plain data before the next one is asked
    # for; (1) all records materialised first (list(it)), converted afterwards; (2) a record converted only after the
    # iterator was advanced past it.  A record that points into a buffer the iterator fills again shows in (1) and (2).
    def conv(rec):
        v = rec.variants
        return [[str(v["id"]), str(v["chrom"]), int(v["pos"]), [str(a) for a in v["alleles"].item()]],
                np.asarray(rec.data).astype(np.int64).tolist()]

    def iterate(style):
        try:
            r = cls(Path(path), log=quiet, **kw)
            it = r.__iter__(**args)
            if style == 0:
                recs = [conv(rec) for rec in it]
            elif style == 1:
                kept = list(it)
                recs = [conv(rec) for rec in kept]
            else:
                recs, prev = [], None
                for rec in it:
                    if prev is not None:
                        recs.append(conv(prev))
                    prev = rec
                if prev is not None:
                    recs.append(conv(prev))
            return {"ok": {"samples": [str(s) for s in r.samples], "recs": recs}}
        except Exception as e:  # noqa
            return {"err": err_kind(e), "cls": type(e).__name__, "msg": str(e)[:160]}

    out["iter"] = iterate(0)
    out["held"] = [iterate(int(st)) for st in iter_styles(q)]
    # two read() calls on ONE object, the caller keeping what the first one left: "rf" = restricted, then everything;
    # "fr" = everything, then restricted
    order = read_again(q)
    if order is not None:
        import types

        calls = [dict(max_variants=q["max"], **args), {}]
        if order == "fr":
            calls.reverse()
        ag = {"order": order}
        r = cls(Path(path), log=quiet, **kw)
        kept = None
        try:
            r.read(**calls[0])
            ag["first"] = {"ok": dump_obj(r)}
            kept = types.SimpleNamespace(data=r.data, variants=r.variants, samples=r.samples)
        except Exception as e:  # noqa
            ag["first"] = {"err": err_kind(e), "cls": type(e).__name__, "msg": str(e)[:160]}
        try:
            r.read(**calls[1])
            ag["second"] = {"ok": dump_obj(r)}
        except Exception as e:  # noqa
            ag["second"] = {"err": err_kind(e), "cls": type(e).__name__, "msg": str(e)[:160]}
        ag["kept"] = ag["first"] if kept is None else {"ok": dump_obj(kept)}
        out["again"] = ag
    return out


def iter_styles(q):
    """the consumption styles, beside convert-at-once, in which the iterator of this case is observed
    (1 = materialise first, 2 = convert after advancing); inputs written before the key existed: both"""
    return [int(x) for x in q.get("styles", [1, 2])]


def read_again(q):
    """order of the two read() calls made on one object ('rf' restricted then full, 'fr' full then restricted, None)"""
    return q.get("again", "rf")


def selects(c, q):
    """python-side description of what the query does (classes / nontrivial only)"""
    out = []
    vs = c["variants"]
    keep = list(range(len(vs)))
    if q["region"] is not None:
        ctg, a, b = q["region"]
        out.append("region=" + ("c" if a is None else "c:a-b" if b is not None else "c:a-"))
        if ctg not in {v[1] for v in vs}:
            out.append("absent-contig")
        if ":" in ctg:
            out.append("region-contig-has-colon")
        if "-" in ctg:
            out.append("region-contig-has-dash")
        pos = [v[2] for v in vs if v[1] == ctg]
        for nm, x in (("a", a), ("b", b)):
            if x is not None and pos:
                out.append(f"{nm}-" + ("on" if x in pos else "outside" if x < min(pos) or x > max(pos) else "between"))
        keep = [j for j in keep if vs[j][1] == ctg and (a is None or vs[j][2] >= a) and (b is None or vs[j][2] <= b)]
        if any(len(vs[j][3][0]) > 1 and vs[j][1] == ctg and a is not None and vs[j][2] < a <= vs[j][2] + len(vs[j][3][0]) - 1
               for j in range(len(vs))):
            out.append("multibase-REF-straddles-start")
    if q["ids"] is not None:
        ids = {v[0] for v in vs}
        out.append("ids=" + ("empty" if not q["ids"] else "none-match" if not (set(q["ids"]) & ids)
                              else "with-unknown" if set(q["ids"]) - ids else "known"))
        keep = [j for j in keep if vs[j][0] in q["ids"]]
    if q["samples"] is not None:
        ss = set(c["samples"])
        out.append("samples=" + ("empty" if not q["samples"] else "none-match" if not (set(q["samples"]) & ss)
                                  else "with-unknown" if set(q["samples"]) - ss else "known"))
    if q["max"] is not None:
        out.append("max=" + ("0" if q["max"] == 0 else "<matches" if q["max"] < len(keep) else ">=matches"))
    if q["chunk"] is not None:
        out.append("chunk=" + ("1" if q["chunk"] == 1 else ">p" if q["chunk"] > len(vs) else "mid"))
    out.append("vfmt=" + q.get("vfmt", "vcf.gz"))
    out.append("file-order=" + ("sorted" if indexable(c) else "multi-block-contig" if len({v[1] for v in vs}) <
                                 sum(1 for j, v in enumerate(vs) if not j or vs[j - 1][1] != v[1]) else "unsorted-positions"))
    if not vcf_has_index(c, q):
        out.append("vcf-unindexed-region-given" if vcf_forced(c, q) else "vcf-unindexed")
    if any(has_sep(v[1]) for v in vs):
        out.append("file-contig-has-colon-or-dash")
    if len({v[0] for v in vs}) < len(vs):
        out.append("dup-id-in-file")
    n = len(c["samples"])
    if n >= 127 or len(vs) >= 127:
        out.append("wide: n=%d p=%d" % (n, len(vs)))
    if any(v[2] >= 2 ** 31 - 4 for v in vs):
        out.append("pos-near-2^31")
    if q["max"] is not None and q["max"] >= 255:
        out.append("max>=255")
    if noncontiguous(c, q["region"]):
        out.append("region-matches-not-contiguous")
    if not vs:
        out.append("p=0")
    if not keep:
        out.append("empty-match")
    restricts = len(keep) < len(vs) or (q["samples"] is not None and set(c["samples"]) - set(q["samples"])) \
        or (q["max"] is not None and q["max"] < len(keep))
    return out, bool(restricts)


class ChromEnc:
    """Interner whose ('chrom', name) keys become C08_Region.enc numbers (everything else as coqlit.Interner)"""

    def __init__(self, inner):
        self.inner = inner

    def __call__(self, key):
        if isinstance(key, tuple) and key and key[0] == "chrom":
            return enc_name(key[1])
        return self.inner(key)


def read_boundary_cases(rng, tier):
    """The width-boundary stream of the read relation, present in every run whatever the seed: numbers of samples on
    both sides of 127|128, 255|256 (np.uint8 / np.int8 widths) and 1000|1001 (numpy's print summarisation), numbers of
    variants around the chunk size and 255|256, max_variants beside and far beyond the number of matches (the
    preallocation np.empty((max_variants, ...))), positions next to 2^31 - 1 with region bounds on, beside and beyond
    them (BCF + csi: a .tbi ends at 2^29)."""
    from .c07 import rand_calls

    out = []
    thorough = tier == "thorough"
    mode = lambda: str(rng.choice(["phased", "mixed"]))

    def fix_het(rows):
        # PGEN stores an unphased heterozygote unordered
        return [[[min(a, b), max(a, b), ph] if (a != b and not ph and a != 255 and b != 255) else [a, b, ph] for a, b, ph in r]
                for r in rows]

    def content(n, p, contig="1", pos0=10, step=5):
        vs = [[f"v{j}", contig, pos0 + step * j, ["A", "C"]] for j in range(p)]
        rows = fix_het([rand_calls(rng, n, 2, mode(), runs=n > 40) for _ in range(p)])
        return {"samples": [f"s{j}" for j in range(n)], "variants": vs, "rows": rows, "planes": 3, "indexed": True}

    base_q = {"region": None, "samples": None, "ids": None, "max": None, "chunk": None, "vfmt": "vcf.gz"}
    # many samples: a block of samples that crosses the boundary is selected, a region cuts the variants
    # (an index stored in 8 bits wraps from n = 129 resp. 257 on: one such size in every run)
    ns = [127, 128, 129, 255, 256, 257, 300] if thorough else [int(rng.choice([127, 128, 255, 256])), int(rng.choice([129, 257, 300]))]
    for n in ns:
        c = content(n, 3)
        lo = int(rng.integers(0, 3))
        sel = [f"s{j}" for j in range(lo, n - int(rng.integers(0, 2)))]
        out.append({"content": c, "q": dict(base_q, samples=sel, region=["1", 15, None], chunk=int(rng.integers(1, 4)),
                                            vfmt=str(rng.choice(["vcf.gz", "bcf"])))})
    for n in ([1000, 1001] if thorough else [int(rng.choice([1000, 1001]))]):
        c = content(n, 2)
        out.append({"content": c, "q": dict(base_q, samples=[f"s{j}" for j in range(1, n)], ids=["v1"])})
    # many variants: chunk sizes beside the number of matches, max_variants beside and beyond it
    ps = [255, 256, 257] if thorough else [257, int(rng.choice([255, 256]))]     # index 256 needs p >= 257
    for p in ps:
        c = content(2, p, step=3)
        k = int(rng.choice([p - 1, p, p + 1, 128, 255, 256]))
        out.append({"content": c, "q": dict(base_q, chunk=k, max=int(rng.choice([p - 1, p, p + 1, 255, 256])))})
        out.append({"content": c, "q": dict(base_q, chunk=int(rng.choice([127, 128])), region=["1", 10 + 3 * 2, 10 + 3 * (p - 2)])})
    c = content(2, 5)
    for mx in ([255, 256, 65535, 65536, 2 ** 20] if thorough else [int(rng.choice([255, 256, 65535, 65536]))]):
        out.append({"content": c, "q": dict(base_q, max=mx, region=["1", 15, None], chunk=2)})
    for ch in ([4, 5, 6] if thorough else [int(rng.choice([4, 5, 6]))]):
        out.append({"content": c, "q": dict(base_q, chunk=ch)})
    # positions next to 2^31 - 1 (pgenlib's PvarReader refuses 2^31 - 1 itself)
    top = 2 ** 31 - 2
    c = content(2, 3)
    c["variants"][1][2], c["variants"][2][2] = top - 1, top
    bounds = [(top - 1, top), (top, None), (top, top + 1), (top, 2 ** 31), (6, 2 ** 32), (top + 1, None), (top + 1, 2 ** 31)]
    for a, b in (bounds if thorough else [bounds[int(i)] for i in rng.choice(len(bounds), size=2, replace=False)]):
        out.append({"content": c, "q": dict(base_q, region=["1", a, b], vfmt="bcf")})
    return out


class Read(Relation):
    name = "read"
    coq_module = "C08_Check"
    coq_check = "check_read"
    coq_case_type = "rcase"
    coq_model = "model_read"
    coq_imports = ["C07_Model", "C08_Model"]
    budget = {"quick": 500, "thorough": 9000}
    max_cases_per_shard = 120
    anchors = [
        ("haptools/data/genotypes.py", "Genotypes.read"),
        ("haptools/data/genotypes.py", "Genotypes._iterate"),
        ("haptools/data/genotypes.py", "Genotypes._vcf_iter"),
        ("haptools/data/genotypes.py", "Genotypes.__iter__"),
        ("haptools/data/genotypes.py", "GenotypesPLINK.read"),
        ("haptools/data/genotypes.py", "GenotypesPLINK.read_samples"),
        ("haptools/data/genotypes.py", "GenotypesPLINK.read_variants"),
        ("haptools/data/genotypes.py", "GenotypesPLINK._iterate_variants"),
        ("haptools/data/genotypes.py", "GenotypesPLINK._check_region"),
        ("haptools/data/genotypes.py", "GenotypesPLINK._iterate"),
        ("haptools/data/genotypes.py", "GenotypesPLINK.__iter__"),
    ]

    def generate(self, rng, n, tier):
        out = read_boundary_cases(rng, tier)
        # callers that hold on to records / arrays (iter_styles, read_again): the wide cases of the quick tier are
        # observed in one further consumption style and, half of them, with a second read on the same object
        for case in out:
            c, q = case["content"], case["q"]
            cells = len(c["samples"]) * len(c["variants"])
            if tier == "thorough":
                q["styles"], q["again"] = [1, 2], str(rng.choice(["rf", "fr"]))
            else:
                q["styles"] = [int(rng.integers(1, 3))]
                q["again"] = str(rng.choice(["rf", "fr"])) if cells <= 1200 and rng.random() < 0.5 else None
        for i in range(n):
            sp = rng.random() < 0.3
            c = gen_content(rng, special=1.0 if sp else 0.0, dup_ids=0.03)
            q = gen_query(rng, c, special=True)
            q["styles"] = [1, 2]
            r = rng.random()
            q["again"] = "rf" if r < 0.3 else "fr" if r < 0.6 else None
            out.append({"content": c, "q": q})
        return out

    def exhaustive(self, tier):
        # one small content, all region forms over a grid x id subsets x max_variants
        c = {"samples": ["a", "b"], "planes": 3,
             "variants": [["v1", "1", 10, ["A", "T"]], ["v2", "1", 20, ["AC", "T"]], ["v3", "1", 20, ["G", "T", "C"]],
                          ["v4", "2", 5, ["A", "G"]]],
             "rows": [[[0, 1, 1], [1, 1, 0]], [[0, 1, 0], [255, 255, 0]], [[2, 1, 1], [0, 0, 1]], [[1, 0, 1], [0, 1, 0]]]}
        regions = [None, ["1", None, None], ["3", None, None]]
        grid = [9, 10, 11, 19, 20, 21, 22]
        for a in grid:
            regions.append(["1", a, None])
            for b in grid:
                if a <= b:
                    regions.append(["1", a, b])
        out = []
        for r in regions:
            for ids in (None, ["v2"], ["v3", "v1", "zz"], ["zz"], []):
                for mx in (None, 0, 1):
                    for ch in (None, 1):
                        out.append({"content": c, "q": {"region": r, "samples": None, "ids": ids, "max": mx, "chunk": ch}})
        # contig names with ':' and '-': every name x every form, the contig present / absent, beside a plain contig
        for name in SPECIAL_CONTIGS:
            for other in ("1", "chrUn_KI270", "6"):
                if other == name:
                    continue
                cs = {"samples": ["a", "b"], "planes": 3, "indexed": True,
                      "variants": [["v1", other, 3, ["A", "T"]], ["v2", name, 5, ["C", "T"]], ["v3", name, 9, ["G", "T"]]],
                      "rows": [[[0, 1, 1], [1, 1, 1]], [[1, 0, 1], [0, 0, 1]], [[1, 1, 1], [0, 1, 0]]]}
                ctgs = [other, name]
                for r in ([name, None, None], [name, 5, 5], [name, 6, None], [name, 1, 20], [other, None, None],
                          [other, 2, None], [name + "x", None, None], [name + "x", 1, 9]):
                    if unambiguous(ctgs, r) and (r[0] in ctgs or r[0][:10] not in {x[:10] for x in ctgs}):
                        out.append({"content": cs, "q": {"region": r, "samples": None, "ids": None, "max": None, "chunk": None,
                                                         "vfmt": "bcf" if len(name) % 2 else "vcf.gz"}})
        # the same records in every file order of a 4-record file (un-indexed VCF; the PVAR need not be sorted)
        import itertools
        for perm in itertools.permutations(range(4)):
            cu = dict(c, variants=[c["variants"][j] for j in perm], rows=[c["rows"][j] for j in perm], indexed=False)
            for r in (["1", None, None], ["2", None, None], ["1", 10, 20], ["1", 20, None], ["1", 11, 19]):
                for ids in (None, ["v3", "v1"]):
                    out.append({"content": cu, "q": {"region": r, "samples": None, "ids": ids, "max": None, "chunk": None}})
        return out

    def run_impl(self, inp):
        from haptools.data import GenotypesVCF, GenotypesPLINK

        d = tempfile.mkdtemp(prefix="hv_c08_")
        try:
            c, q = inp["content"], inp["q"]
            vp, pp = os.path.join(d, "x." + q.get("vfmt", "vcf.gz")), os.path.join(d, "x.pgen")
            write_vcf(c, vp)
            write_pgen(c, pp)
            return {"vcf": observe(GenotypesVCF, vp, vcf_query(c, q), {}),
                    "pgen": observe(GenotypesPLINK, pp, q, {"chunk_size": q["chunk"]})}
        finally:
            shutil.rmtree(d, ignore_errors=True)

    def encode(self, inp, obs):
        E = Enc()
        E.i = ChromEnc(E.i)      # contig names as C08_Region.enc numbers: the model parses the region text itself
        c, q = inp["content"], inp["q"]
        g = E.geno_in(c)
        ids = lambda l: L.lst(l, lambda x: L.z(E.i(("id", x))))
        reg, regstr = "None", "None"
        if q["region"] is not None:
            ctg, a, b = q["region"]
            reg = f"(Some ({L.z(E.i(('chrom', ctg)))}, {L.opt(a, L.z)}, {L.opt(b, L.z)}))"
            regstr = f"(Some {L.chars(region_str(q['region']))})"
        sam = lambda l: E.samples(l)
        qt = (f"(mkq {reg} {L.opt(q['samples'], sam)} {L.opt(q['ids'], ids)} "
              f"{L.opt(q['max'], L.z)})")

        def fobs(o):
            if o is None:
                e = f"(Err {oerr(obs)})"
                return f"(mkfo {e} {e} false {e} [] None)"
            from .c07 import seq_compact
            rec = lambda r: f"({E.variant(r[0])}, {seq_compact([E.call(x) for x in r[1]])})"
            itobs = lambda i: L.res(i, lambda x: f"({E.samples(x['samples'])}, {L.lst(x['recs'], rec)})")
            held = "[" + "; ".join(itobs(i) for i in o.get("held", [])) + "]"
            ag = o.get("again")
            again = "None" if ag is None else (f"(Some (mkrr {L.b(ag['order'] == 'fr')} {E.rgeno(ag['first'])} "
                                               f"{E.rgeno(ag['kept'])} {E.rgeno(ag['second'])}))")
            return f"(mkfo {E.rgeno(o['full'])} {E.rgeno(o['read'])} {L.b(o['warned'])} {itobs(o['iter'])} {held} {again})"

        ok = isinstance(obs, dict) and "vcf" in obs
        forced = vcf_forced(c, q)
        return (f"(mkrc {g} {qt} {L.opt(q['chunk'], L.z)} {L.b(STRICT_EMPTY_SAMPLE_SELECTION)} "
                f"{L.b(not vcf_has_index(c, q) and not forced)} {regstr} {L.b(STRICT_REGION_CONTIG_NAMES)} {L.b(forced)} "
                f"{fobs(obs['vcf'] if ok else None)} {fobs(obs['pgen'] if ok else None)})")

    def nontrivial(self, inp, obs):
        return selects(inp["content"], inp["q"])[1]

    def classes(self, inp, obs):
        out = selects(inp["content"], inp["q"])[0]
        out.append("iter-held-styles=" + ",".join({1: "materialised-first", 2: "converted-after-advancing"}.get(x, str(x))
                                                   for x in iter_styles(inp["q"])))
        out.append("read-again=" + {"rf": "restricted-then-everything", "fr": "everything-then-restricted",
                                    None: "no"}[read_again(inp["q"])])
        if isinstance(obs, dict) and "vcf" in obs:
            for fmt in ("vcf", "pgen"):
                for k in ("read", "iter"):
                    if "err" in obs[fmt][k]:
                        out.append(f"{fmt}-{k}-err{obs[fmt][k]['err']}")
        return out

    def shrink(self, inp):
        c, q = inp["content"], inp["q"]
        for key in ("chunk", "max", "samples", "ids", "region"):
            if q[key] is not None:
                yield {"content": c, "q": dict(q, **{key: None})}
        if q["region"] is not None and q["region"][1] is not None:
            yield {"content": c, "q": dict(q, region=[q["region"][0], None, None])}
        if read_again(q) is not None:
            yield {"content": c, "q": dict(q, again=None)}
        st = iter_styles(q)
        for j in range(len(st)):
            yield {"content": c, "q": dict(q, styles=st[:j] + st[j + 1:])}
        p, n = len(c["variants"]), len(c["samples"])
        if p > 1:
            for j in range(p):
                yield {"content": dict(c, variants=c["variants"][:j] + c["variants"][j + 1:],
                                       rows=c["rows"][:j] + c["rows"][j + 1:]), "q": q}
        if n > 1:
            for s in range(n):
                yield {"content": dict(c, samples=c["samples"][:s] + c["samples"][s + 1:],
                                       rows=[r[:s] + r[s + 1:] for r in c["rows"]]), "q": q}
        for key in ("samples", "ids"):
            if q[key]:
                for j in range(len(q[key])):
                    yield {"content": c, "q": dict(q, **{key: q[key][:j] + q[key][j + 1:]})}

    def mutate(self, inp, rng):
        c, q = inp["content"], inp["q"]
        for order in ("rf", "fr"):
            yield {"content": c, "q": dict(q, styles=[1, 2], again=order)}
            yield {"content": c, "q": dict(q, styles=[1, 2], again=order, region=None, samples=None, ids=None, max=None)}
        for ids in ([], ["nope"]):
            yield {"content": c, "q": dict(q, ids=ids)}
        for ctg in sorted({v[1] for v in c["variants"]}) + ["4"]:
            yield {"content": c, "q": dict(q, region=[ctg, None, None])}
            pos = [v[2] for v in c["variants"] if v[1] == ctg] or [3]
            for a in pos:
                for d in (-1, 0, 1):
                    yield {"content": c, "q": dict(q, region=[ctg, max(1, a + d), None])}
                    yield {"content": c, "q": dict(q, region=[ctg, 1, max(1, a + d)])}
        for m in (0, 1, len(c["variants"])):
            yield {"content": c, "q": dict(q, max=m, ids=None)}
        # the same content under contig names with ':' / '-'
        names = sorted({v[1] for v in c["variants"]})
        for _ in range(4):
            ren = {x: rand_contig(rng) for x in names}
            if len({y[:10] for y in ren.values()}) < len(names):
                continue
            cr = dict(c, variants=[[v[0], ren[v[1]], v[2], v[3]] for v in c["variants"]])
            for x in names:
                for r in ([ren[x], None, None], [ren[x], 1, None]):
                    if unambiguous(list(ren.values()), r):
                        yield {"content": cr, "q": dict(q, region=r)}
        p = len(c["variants"])
        for _ in range(6):          # other file orders of the same records
            perm = rng.permutation(p).tolist()
            cu = dict(c, variants=[c["variants"][j] for j in perm], rows=[c["rows"][j] for j in perm], indexed=False)
            for ctg in sorted({v[1] for v in c["variants"]}):
                yield {"content": cu, "q": dict(q, region=[ctg, None, None])}

    def signature(self, inp, obs):
        tags, _ = selects(inp["content"], inp["q"])
        empty = "empty-match" in tags
        if not isinstance(obs, dict) or "vcf" not in obs:
            return "read: interpreter crash/timeout"
        parts = []
        for fmt in ("vcf", "pgen"):
            o = obs[fmt]
            for k in ("full", "read", "iter"):
                if "err" in o[k]:
                    parts.append(f"{fmt} {k} raised {o[k].get('cls')}")
        # what a caller sees that holds on to records / arrays
        strip = lambda o: o.get("ok", "raised") if isinstance(o, dict) else o
        for fmt in ("vcf", "pgen"):
            o = obs[fmt]
            names = {1: "materialised first (list(it))", 2: "converted after the iterator was advanced"}
            for st, h in zip(iter_styles(inp["q"]), o.get("held", [])):
                if strip(h) != strip(o["iter"]):
                    parts.append(f"{fmt} iterator: records {names.get(st, st)} differ from records converted one at a time")
            ag = o.get("again")
            if ag:
                a, b = ("full", "read") if ag["order"] == "fr" else ("read", "full")
                if strip(ag["kept"]) != strip(ag["first"]):
                    parts.append(f"{fmt}: the arrays left by a read() changed when read() was called again on the object")
                if strip(ag["first"]) != strip(o[a]) or strip(ag["second"]) != strip(o[b]):
                    parts.append(f"{fmt}: a second read() on the same object differs from the read on a fresh object")
        what = "; ".join(parts) if parts else "restricted read / iterator / other format differs from full read + subset"
        nosamp = inp["q"]["samples"] is not None and not (set(inp["q"]["samples"]) & set(inp["content"]["samples"]))
        sep = inp["q"]["region"] is not None and has_sep(inp["q"]["region"][0])
        return (f"read: {what}; empty-match={empty} no-sample-selected={nosamp}"
                + (" region-contig-has-colon-or-dash=True" if sep else ""))


# ----------------------------------------------------------------------------


class Subset(Relation):
    name = "subset"
    coq_module = "C08_Check"
    coq_check = "check_subset"
    coq_case_type = "scase"
    coq_model = "model_subset"
    coq_imports = ["C07_Model", "C08_Model"]
    budget = {"quick": 500, "thorough": 8000}
    anchors = [
        ("haptools/data/genotypes.py", "Genotypes.subset"),
        ("haptools/data/genotypes.py", "Genotypes.index"),
    ]

    def generate(self, rng, n, tier):
        from .c07 import gen_matrix, rand_calls

        out = []
        # width boundaries, in every run: names whose positions lie on both sides of 127|128 and 255|256
        widths = [129, 257, 300] if tier == "thorough" else [129, 257]     # an 8-bit index wraps at 128 resp. 256
        for w in widths:
            pick = [w - 1, 0, w - 2, 128, 127] + ([256, 255] if w > 256 else [])
            vs = [[f"v{j}", "1", 10 + 3 * j, ["A", "C"]] for j in range(2)]
            out.append({"samples": [f"s{j}" for j in range(w)], "variants": vs, "planes": 3,
                        "rows": [rand_calls(rng, w, 2, "mixed", runs=True) for _ in vs],
                        "S": [f"s{j}" for j in pick], "V": None if rng.random() < 0.5 else ["v1", "v0"],
                        "inplace": bool(rng.random() < 0.5), "kind": "wellformed"})
            vs = [[f"v{j}", "1", 10 + 3 * j, ["A", "C"]] for j in range(w)]
            out.append({"samples": ["s0", "s1"], "variants": vs, "planes": 3,
                        "rows": [rand_calls(rng, 2, 2, "mixed") for _ in vs],
                        "S": None if rng.random() < 0.5 else ["s1", "s0"], "V": [f"v{j}" for j in pick],
                        "inplace": bool(rng.random() < 0.5), "kind": "wellformed"})
        for i in range(n):
            m = gen_matrix(rng, half_ok=True, pmax=6, nmax=5)
            m["planes"] = int(rng.choice([2, 3, 3]))
            kind = "wellformed"
            r = rng.random()
            if r < 0.05 and len(m["samples"]) > 1:
                m["samples"][-1] = m["samples"][0]
                kind = "dup-sample"
            elif r < 0.1 and len(m["variants"]) > 1:
                m["variants"][-1] = [m["variants"][0][0]] + m["variants"][-1][1:]
                kind = "dup-id"

            def req(names, unknown):
                if rng.random() < 0.3:
                    return None
                k = int(rng.integers(0, len(names) + 2))
                pool = list(names) + unknown
                pick = [pool[int(j)] for j in rng.integers(0, len(pool), size=k)] if pool else []
                if rng.random() < 0.6:
                    pick = list(dict.fromkeys(pick))
                return pick

            m["S"] = req(m["samples"], ["zz"])
            m["V"] = req([v[0] for v in m["variants"]], ["nope", "v77"])
            m["inplace"] = bool(rng.random() < 0.3)
            m["kind"] = kind
            out.append(m)
        return out

    def run_impl(self, inp):
        from haptools.data import GenotypesVCF

        g = build_obj(GenotypesVCF, "/nonexistent/x.vcf", inp)
        try:
            S = None if inp["S"] is None else tuple(inp["S"])
            V = None if inp["V"] is None else tuple(inp["V"])
            r = g.subset(samples=S, variants=V, inplace=inp["inplace"])
            if inp["inplace"]:
                r = g
            return {"ok": dump_obj(r)}
        except Exception as e:  # noqa
            return {"err": err_kind(e), "cls": type(e).__name__, "msg": str(e)[:160]}

    def encode(self, inp, obs):
        E = Enc()
        g = E.geno_in(inp)
        ids = lambda l: L.lst(l, lambda x: L.z(E.i(("id", x))))
        if "ok" not in obs and "err" not in obs:
            o = f"(Err {oerr(obs)})"
        else:
            o = E.rgeno(obs)
        return f"(mksc {g} {L.opt(inp['S'], lambda l: L.lst(l, E.s))} {L.opt(inp['V'], ids)} {o})"

    def nontrivial(self, inp, obs):
        return bool(inp["variants"]) and (inp["S"] is not None or inp["V"] is not None)

    def classes(self, inp, obs):
        out = [inp["kind"], "inplace" if inp["inplace"] else "copy"]
        if len(inp["samples"]) >= 127 or len(inp["variants"]) >= 127:
            out.append("wide: n=%d p=%d" % (len(inp["samples"]), len(inp["variants"])))
        for key, names in (("S", inp["samples"]), ("V", [v[0] for v in inp["variants"]])):
            r = inp[key]
            if r is None:
                out.append(f"{key}=None")
                continue
            known = [x for x in r if x in names]
            out.append(f"{key}=" + ("empty" if not r else "none-known" if not known else
                                    "permuted" if known != [x for x in names if x in known] else "file-order"))
            if len(known) < len(r):
                out.append(f"{key}-unknown")
            if len(set(r)) < len(r):
                out.append(f"{key}-repeats")
        if isinstance(obs, dict) and "err" in obs:
            out.append(f"err{obs['err']}")
        return out

    def shrink(self, inp):
        from .c07 import shrink_matrix

        for key in ("S", "V"):
            if inp[key] is not None:
                yield dict(inp, **{key: None})
                for j in range(len(inp[key])):
                    yield dict(inp, **{key: inp[key][:j] + inp[key][j + 1:]})
        yield from shrink_matrix(inp)

    def signature(self, inp, obs):
        if isinstance(obs, dict) and "err" in obs:
            return f"subset raised {obs.get('cls')} ({inp['kind']})"
        return f"subset result is not the requested samples/variants in the requested order ({inp['kind']})"


# ----------------------------------------------------------------------------
# read(), read(restricted), read()+subset(), then a sequence of subset() calls


def gen_request(rng, names, gone, unknown):
    """one samples= / variants= argument of subset(): a tuple over the object's current names"""
    r = rng.random()
    names = list(dict.fromkeys(names))
    if r < 0.22:
        return None, "None"
    if r < 0.47 and names:               # every name, in another order: nothing is dropped
        return [names[i] for i in rng.permutation(len(names)).tolist()], "reorder-all"
    if r < 0.75 and names:               # a proper part, in any order
        k = int(rng.integers(1, len(names) + 1))
        return [names[i] for i in rng.permutation(len(names))[:k].tolist()], "part"
    if r < 0.87:                         # with names the object does not have (never had / had before an earlier subset)
        k = int(rng.integers(0, len(names) + 1))
        pick = [names[i] for i in rng.permutation(len(names))[:k].tolist()]
        pool = list(gone) + list(unknown)
        extra = [pool[int(i)] for i in rng.integers(0, len(pool), size=int(rng.integers(1, 3)))]
        pick += extra
        return [pick[i] for i in rng.permutation(len(pick)).tolist()], "with-unknown"
    if r < 0.94 and names:               # a name twice
        k = int(rng.integers(1, len(names) + 1))
        pick = [names[i] for i in rng.permutation(len(names))[:k].tolist()]
        pick.insert(int(rng.integers(0, len(pick) + 1)), pick[int(rng.integers(0, len(pick)))])
        return pick, "repeats"
    return [], "empty"


def gen_ops(rng, c, q):
    """1-4 subset() calls; the names are drawn from what the object holds at that point (simulated on names only)"""
    cur_s = [x for x in c["samples"] if q["samples"] is None or x in q["samples"]]
    cur_v = []
    for v in c["variants"]:
        if q["region"] is not None:
            ctg, a, b = q["region"]
            if not (v[1] == ctg and (a is None or v[2] >= a) and (b is None or v[2] <= b)):
                continue
        if q["ids"] is not None and v[0] not in q["ids"]:
            continue
        cur_v.append(v[0])
    if q["ids"] is None and q["max"] is not None:
        cur_v = cur_v[: q["max"]]
    all_s, all_v = list(c["samples"]), [v[0] for v in c["variants"]]
    ops = []
    for _ in range(int(rng.choice([1, 2, 2, 3, 3, 4]))):
        S, ks = gen_request(rng, cur_s, [x for x in all_s if x not in cur_s], ["zz"])
        V, kv = gen_request(rng, cur_v, [x for x in all_v if x not in cur_v], ["nope", "v77"])
        if S is None and V is None and rng.random() < 0.8:
            if rng.random() < 0.5:
                S, ks = gen_request(rng, cur_s, [x for x in all_s if x not in cur_s], ["zz"])
            else:
                V, kv = gen_request(rng, cur_v, [x for x in all_v if x not in cur_v], ["nope", "v77"])
        inplace = bool(rng.random() < 0.5)
        follow = bool(rng.random() < 0.5)
        ops.append({"S": S, "V": V, "inplace": inplace, "follow": follow})
        if inplace or follow:
            if S is not None:
                cur_s = [x for x in S if x in cur_s]
            if V is not None:
                cur_v = [x for x in V if x in cur_v]
    return ops


def req_kind(req, names):
    if req is None:
        return "None"
    known = [x for x in req if x in names]
    out = ("empty" if not req else "none-known" if not known else
           "reorder-all" if sorted(known) == sorted(names) and known != list(names) and len(known) == len(names) else
           "all-same-order" if known == list(names) else
           "part-file-order" if known == [x for x in names if x in known] else "part-permuted")
    if len(known) < len(req):
        out += "+unknown"
    if len(set(req)) < len(req):
        out += "+repeats"
    return out


class Seq(Relation):
    name = "seq"
    coq_module = "C08_Check"
    coq_check = "check_seq"
    coq_case_type = "qcase"
    coq_model = "model_seq"
    coq_imports = ["C07_Model", "C08_Model"]
    budget = {"quick": 450, "thorough": 5000}
    max_cases_per_shard = 100
    anchors = [
        ("haptools/data/genotypes.py", "Genotypes.subset"),
        ("haptools/data/genotypes.py", "Genotypes.index"),
        ("haptools/data/genotypes.py", "Genotypes.read"),
        ("haptools/data/genotypes.py", "GenotypesPLINK.read"),
    ]

    def generate(self, rng, n, tier):
        out = []
        for i in range(n):
            c = gen_content(rng, pmax=6)
            if rng.random() < 0.45:
                q = {"region": None, "samples": None, "ids": None, "max": None, "chunk": None, "vfmt": "vcf.gz"}
            else:
                q = gen_query(rng, c)
            q["chunk"] = None if rng.random() < 0.6 else q["chunk"]
            fmt = "pgen" if rng.random() < 0.5 else "vcf"
            out.append({"content": c, "q": q, "fmt": fmt, "ops": gen_ops(rng, c, q)})
        return out

    def exhaustive(self, tier):
        # a 3 x 3 object: every pair of requests out of a small set, in place / copy-and-follow / copy-and-stay
        c = {"samples": ["a", "b", "c"], "planes": 3, "indexed": True,
             "variants": [["v1", "1", 10, ["A", "T"]], ["v2", "1", 20, ["C", "T"]], ["v3", "2", 5, ["G", "T"]]],
             "rows": [[[0, 1, 1], [1, 1, 0], [0, 0, 1]], [[1, 0, 1], [0, 0, 1], [1, 1, 1]], [[1, 1, 1], [0, 1, 0], [255, 255, 0]]]}
        q = {"region": None, "samples": None, "ids": None, "max": None, "chunk": None, "vfmt": "vcf.gz"}
        reqS = [None, ["c", "a", "b"], ["b", "a"], ["c"], ["a", "zz"], ["a", "a"], []]
        reqV = [None, ["v3", "v1", "v2"], ["v2", "v1"], ["v3"], ["v1", "nope"], []]
        first = [(S, V) for S in reqS[:4] for V in reqV[:4] if S is not None or V is not None]
        second = [(S, V) for S in reqS for V in reqV if (S is None) != (V is None)]
        out = []
        for fmt in ("vcf", "pgen"):
            for (S1, V1) in first:
                for mode in ((True, False), (False, True), (False, False)):
                    for (S2, V2) in second:
                        out.append({"content": c, "q": q, "fmt": fmt, "ops": [
                            {"S": S1, "V": V1, "inplace": mode[0], "follow": mode[1]},
                            {"S": S2, "V": V2, "inplace": False, "follow": False}]})
        return out

    def run_impl(self, inp):
        from pathlib import Path
        from haptools.data import GenotypesVCF, GenotypesPLINK
        from haptools.logging import getLogger

        d = tempfile.mkdtemp(prefix="hv_c08s_")
        try:
            c, fmt = inp["content"], inp["fmt"]
            q = inp["q"] if fmt == "pgen" else vcf_query(c, inp["q"])
            if fmt == "pgen":
                path = os.path.join(d, "x.pgen")
                write_pgen(c, path)
                cls, kw = GenotypesPLINK, {"chunk_size": q["chunk"]}
            else:
                path = os.path.join(d, "x." + q.get("vfmt", "vcf.gz"))
                write_vcf(c, path)
                cls, kw = GenotypesVCF, {}
            quiet = getLogger("hv", "CRITICAL")
            out = {"comp": None, "steps": []}
            full = None
            try:
                full = cls(Path(path), log=quiet, **kw)
                full.read()
                out["full"] = {"ok": dump_obj(full)}
            except Exception as e:  # noqa
                out["full"] = {"err": err_kind(e), "cls": type(e).__name__, "msg": str(e)[:160]}
                full = None
            lg = logging.Logger("hv_capture")
            h = CountWarnings()
            lg.addHandler(h)
            cur = None
            try:
                cur = cls(Path(path), log=lg, **kw)
                cur.read(region=region_str(q["region"]), max_variants=q["max"],
                         samples=None if q["samples"] is None else set(q["samples"]),
                         variants=None if q["ids"] is None else set(q["ids"]))
                out["read"] = {"ok": dump_obj(cur)}
            except Exception as e:  # noqa
                out["read"] = {"err": err_kind(e), "cls": type(e).__name__, "msg": str(e)[:160]}
                cur = None
            out["warned"] = h.n > 0
            if cur is not None:
                cur.log = quiet
            if full is not None and cur is not None:
                # read everything, then subset to what the restricted read returned
                try:
                    r = full.subset(samples=tuple(cur.samples), variants=tuple(str(x) for x in cur.variants["id"]))
                    out["comp"] = {"ok": dump_obj(r)}
                except Exception as e:  # noqa
                    out["comp"] = {"err": err_kind(e), "cls": type(e).__name__, "msg": str(e)[:160]}
            if cur is not None:
                for op in inp["ops"]:
                    st = {"before": {"ok": dump_obj(cur)}}
                    out["steps"].append(st)
                    try:
                        r = cur.subset(samples=None if op["S"] is None else tuple(op["S"]),
                                       variants=None if op["V"] is None else tuple(op["V"]),
                                       inplace=op["inplace"])
                        if op["inplace"]:
                            r = cur
                        st["obs"] = {"ok": dump_obj(r)}
                        if op["follow"]:
                            cur = r
                    except Exception as e:  # noqa
                        st["obs"] = {"err": err_kind(e), "cls": type(e).__name__, "msg": str(e)[:160]}
                        break
            return out
        finally:
            shutil.rmtree(d, ignore_errors=True)

    def encode(self, inp, obs):
        E = Enc()
        c, fmt = inp["content"], inp["fmt"]
        q = inp["q"] if fmt == "pgen" else vcf_query(c, inp["q"])
        g = E.geno_in(c)
        ids = lambda l: L.lst(l, lambda x: L.z(E.i(("id", x))))
        sam = lambda l: L.lst(l, E.s)
        reg = "None"
        if q["region"] is not None:
            ctg, a, b = q["region"]
            reg = f"(Some ({L.z(E.i(('chrom', ctg)))}, {L.opt(a, L.z)}, {L.opt(b, L.z)}))"
        qt = f"(mkq {reg} {L.opt(q['samples'], sam)} {L.opt(q['ids'], ids)} {L.opt(q['max'], L.z)})"
        head = (f"(mkqc {g} {qt} {L.b(fmt == 'pgen')} {L.opt(q['chunk'] if fmt == 'pgen' else None, L.z)} "
                f"{L.b(STRICT_EMPTY_SAMPLE_SELECTION)} {L.b(STRICT_SUBSET_AFTER_EMPTY_READ)}")
        if not (isinstance(obs, dict) and "full" in obs):
            e = f"(Err {oerr(obs)})"
            return f"{head} {e} {e} false None [])"
        steps = []
        for op, st in zip(inp["ops"], obs["steps"]):
            steps.append(f"(mkss {L.opt(op['S'], sam)} {L.opt(op['V'], ids)} {L.b(op['inplace'] or op['follow'])} "
                         f"{E.rgeno(st['before'])} {E.rgeno(st['obs'])})")
        comp = "None" if obs["comp"] is None else f"(Some {E.rgeno(obs['comp'])})"
        return (f"{head} {E.rgeno(obs['full'])} {E.rgeno(obs['read'])} {L.b(obs['warned'])} {comp} "
                f"[{'; '.join(steps)}])")

    def nontrivial(self, inp, obs):
        # at least two subset() calls were made, or the read was restricted
        n = len(obs["steps"]) if isinstance(obs, dict) and "steps" in obs else 0
        return bool(inp["content"]["variants"]) and (n >= 2 or selects(inp["content"], inp["q"])[1])

    def classes(self, inp, obs):
        c, q = inp["content"], inp["q"]
        out = [inp["fmt"], "ops=%d" % len(inp["ops"])]
        out += [t for t in selects(c, q)[0] if t.startswith(("file-order", "vcf-unindexed", "empty-match", "p=0", "samples="))]
        out.append("read=" + ("restricted" if selects(c, q)[1] else "everything"))
        if isinstance(obs, dict) and "steps" in obs:
            kept_reorder = False
            for op, st in zip(inp["ops"], obs["steps"]):
                b = st["before"]["ok"]
                mode = "inplace" if op["inplace"] else "copy-follow" if op["follow"] else "copy-stay"
                kS, kV = req_kind(op["S"], b["samples"]), req_kind(op["V"], [v[0] for v in b["variants"]])
                out += [mode, "S=" + kS, "V=" + kV]
                if kept_reorder:
                    out.append("subset-after-kept-reorder")
                if (op["inplace"] or op["follow"]) and ("reorder-all" in kS or "reorder-all" in kV):
                    kept_reorder = True
                if "err" in st.get("obs", {}):
                    out.append("step-err%d" % st["obs"]["err"])
            for k in ("full", "read"):
                if "err" in obs[k]:
                    out.append(f"{k}-err{obs[k]['err']}")
        return out

    def shrink(self, inp):
        c, q, ops = inp["content"], inp["q"], inp["ops"]
        for j in range(len(ops) - 1, -1, -1):
            yield dict(inp, ops=ops[:j] + ops[j + 1:])
        for key in ("chunk", "max", "samples", "ids", "region"):
            if q[key] is not None:
                yield dict(inp, q=dict(q, **{key: None}))
        for j, op in enumerate(ops):
            for key in ("S", "V"):
                if op[key] is not None:
                    yield dict(inp, ops=ops[:j] + [dict(op, **{key: None})] + ops[j + 1:])
            if op["follow"] and not op["inplace"]:
                yield dict(inp, ops=ops[:j] + [dict(op, follow=False)] + ops[j + 1:])
        p, n = len(c["variants"]), len(c["samples"])
        if p > 1:
            for j in range(p):
                yield dict(inp, content=dict(c, variants=c["variants"][:j] + c["variants"][j + 1:],
                                             rows=c["rows"][:j] + c["rows"][j + 1:]))
        if n > 1:
            for k in range(n):
                yield dict(inp, content=dict(c, samples=c["samples"][:k] + c["samples"][k + 1:],
                                             rows=[r[:k] + r[k + 1:] for r in c["rows"]]))
        for j, op in enumerate(ops):
            for key in ("S", "V"):
                if op[key]:
                    for i in range(len(op[key])):
                        yield dict(inp, ops=ops[:j] + [dict(op, **{key: op[key][:i] + op[key][i + 1:]})] + ops[j + 1:])

    def mutate(self, inp, rng):
        c, q = inp["content"], inp["q"]
        for _ in range(40):
            yield dict(inp, ops=gen_ops(rng, c, q))
        yield dict(inp, fmt="pgen" if inp["fmt"] == "vcf" else "vcf")

    def signature(self, inp, obs):
        if not isinstance(obs, dict) or "full" not in obs:
            return "seq: interpreter crash/timeout"
        c = inp["content"]
        q = inp["q"] if inp["fmt"] == "pgen" else vcf_query(c, inp["q"])
        nosamp = q["samples"] is not None and not (set(q["samples"]) & set(c["samples"]))
        parts, hollow_hit = [], False
        for k in ("full", "read", "comp"):
            if obs.get(k) and "err" in obs[k]:
                parts.append(f"{k} raised {obs[k].get('cls')}")
        if "ok" in obs["full"] and obs.get("comp") and "err" in obs["comp"]:
            f = obs["full"]["ok"]
            hollow_hit = f["shape"][:2] == [0, 0] and bool(f["samples"] or f["variants"])
        # the first subset() call that did not do what was asked, described by what preceded it
        kept = []
        for j, (op, st) in enumerate(zip(inp["ops"], obs["steps"])):
            b = st["before"]["ok"]
            bs, bv = b["samples"], [v[0] for v in b["variants"]]
            mode = "in-place" if op["inplace"] else "copying"
            if (op["S"] is not None and len(set(bs)) < len(bs)) or (op["V"] is not None and len(set(bv)) < len(bv)):
                break       # duplicate names: outside the domain from here on
            hollow = b["shape"][:2] == [0, 0] and bool(bs or bv)
            after = ("after " + ", then ".join(kept)) if kept else "as the first call"
            o = st.get("obs", {})
            if "err" in o:
                parts.append(f"{mode} subset {after} raised {o.get('cls')}"
                             + (" (object of a read that matched nothing: array without cells)" if hollow else ""))
                hollow_hit = hollow_hit or hollow
                break
            r = o["ok"]
            wantS = bs if op["S"] is None else [x for x in op["S"] if x in bs]
            wantV = bv if op["V"] is None else [x for x in op["V"] if x in bv]
            if r["samples"] != wantS or [v[0] for v in r["variants"]] != wantV:
                parts.append(f"{mode} subset {after} returned other samples/variants than requested")
                break
            if not hollow:
                cell = {(bv[i], bs[k]): b["rows"][i][k] for i in range(len(bv)) for k in range(len(bs))}
                if any(r["rows"][i][k] != cell[(wantV[i], wantS[k])] for i in range(len(wantV)) for k in range(len(wantS))):
                    parts.append(f"{mode} subset {after} returned the calls of other samples/variants under the requested names")
                    break
            if op["inplace"] or op["follow"]:
                kS, kV = req_kind(op["S"], bs), req_kind(op["V"], bv)
                what = "re-ordering" if ("reorder-all" in kS or "reorder-all" in kV) and len(wantS) == len(bs) \
                    and len(wantV) == len(bv) else "shrinking" if len(wantS) < len(bs) or len(wantV) < len(bv) else "identity"
                kept.append(f"a kept {what} {mode} subset")
        if not parts:
            parts.append("restricted read differs from the full read filtered in file order, or from read()+subset()")
        return (f"seq[{inp['fmt']}]: {'; '.join(parts)}; no-sample-selected={nosamp} "
                f"subset-on-array-without-cells={bool(hollow_hit)}")


# ----------------------------------------------------------------------------
# one command, the same content once as VCF and once as PGEN


def gen_cmd_content(rng, special=False):
    """SNP-like contents every command accepts: 3-8 samples x 3-8 variants on 1-2 contigs, every non-missing call phased
    (pgenlib reports a homozygous call as phased, so the VCF twin spells it 0|0), now and then a missing call, an
    unphased heterozygote or a third allele (the commands refuse them - in both formats alike)"""
    n, p = int(rng.integers(3, 9)), int(rng.integers(3, 9))
    samples = [f"s{j}" for j in rng.permutation(12)[:n].tolist()]
    contigs = [str(x) for x in sorted(rng.choice([1, 2, 7, 10], size=int(rng.integers(1, 3)), replace=False).tolist())]
    if rng.random() < 0.2:
        contigs = ["chr" + x for x in contigs]
    if special:
        contigs = list({x[:10]: x for x in [rand_contig(rng) for _ in range(len(contigs))]}.values())
    cidx = sorted(rng.integers(0, len(contigs), size=p).tolist())
    ids = [f"v{j}" for j in rng.permutation(30)[:p].tolist()]
    flaw = rng.choice(["none"] * 9 + ["missing", "missing", "unphased-het", "multiallelic"])
    variants, rows, pos = [], [], 0
    for j in range(p):
        if j and cidx[j] != cidx[j - 1]:
            pos = 0
        pos += int(rng.integers(1, 30))
        ref, alt = [str(x) for x in rng.choice(list("ACGT"), size=2, replace=False)]
        alleles = [ref, alt]
        if flaw == "multiallelic" and rng.random() < 0.4:
            alleles.append(next(x for x in "ACGT" if x not in alleles))
        row = []
        for k in range(n):
            a, b = int(rng.integers(0, len(alleles))), int(rng.integers(0, len(alleles)))
            ph = 1
            if flaw == "missing" and rng.random() < 0.12:
                a, b, ph = 255, 255, 0
            elif flaw == "unphased-het" and a != b and rng.random() < 0.3:
                a, b, ph = min(a, b), max(a, b), 0
            row.append([a, b, ph])
        variants.append([ids[j], contigs[cidx[j]], pos, alleles])
        rows.append(row)
    return {"samples": samples, "variants": variants, "rows": rows, "planes": 3, "indexed": True, "flaw": str(flaw)}


def gen_haps(rng, c):
    """1-4 haplotypes, each over 1-3 variants of one contig with one of their alleles"""
    by = {}
    for v in c["variants"]:
        by.setdefault(v[1], []).append(v)
    haps = []
    for h in range(int(rng.integers(1, 5))):
        ctg = str(rng.choice(sorted(by)))
        vs = by[ctg]
        pick = sorted(rng.choice(len(vs), size=min(len(vs), int(rng.integers(1, 4))), replace=False).tolist())
        hv = [[vs[i][0], vs[i][2], str(rng.choice(vs[i][3]))] for i in pick]
        haps.append({"id": f"H{h + 1}", "chrom": ctg, "start": min(x[1] for x in hv), "end": max(x[1] for x in hv) + 1,
                     "beta": round(float(rng.uniform(-1, 1)), 2), "vars": hv})
    return haps


def hap_text(haps):
    out = ["#\torderH\tbeta", "#\tversion\t0.2.0", "#H\tbeta\t.2f\tEffect size in linear model"]
    for h in haps:
        out.append(f"H\t{h['chrom']}\t{h['start']}\t{h['end']}\t{h['id']}\t{h['beta']:.2f}")
    for h in haps:
        for vid, pos, al in h["vars"]:
            out.append(f"V\t{h['id']}\t{pos}\t{pos + 1}\t{vid}\t{al}")
    return "\n".join(out) + "\n"


CMDS = ["transform", "ld", "ld-from-gts", "simphenotype", "clump"]


def gen_cmd_case(rng, cmd=None, special=False):
    c = gen_cmd_content(rng, special=special)
    cmd = cmd or str(rng.choice(CMDS))
    haps = gen_haps(rng, c)
    contigs = sorted({v[1] for v in c["variants"]})
    region = None
    if cmd != "clump" and rng.random() < 0.6:
        ctg = str(rng.choice(contigs))
        pos = [v[2] for v in c["variants"] if v[1] == ctg]
        a, b = sorted(int(x) for x in rng.choice(sorted({max(1, x + d) for x in pos for d in (-1, 0, 1)}), size=2))
        region = [[ctg, None, None], [ctg, a, b], [ctg, a, None]][int(rng.integers(0, 3))]
        if not unambiguous(contigs, region):
            region = None
    samples = None
    if cmd != "clump" and rng.random() < 0.5:
        k = int(rng.integers(2, len(c["samples"]) + 1))
        samples = [c["samples"][i] for i in rng.permutation(len(c["samples"]))[:k].tolist()]
        if rng.random() < 0.3:
            samples.append("zz")
    opts = {"chunk": None if rng.random() < 0.4 else int(rng.integers(1, len(c["variants"]) + 2)),
            "discard_missing": bool(rng.random() < 0.5), "ids": None, "target": None, "seed": int(rng.integers(0, 100)),
            "replications": int(rng.integers(1, 3)), "maf": None}
    vids = [v[0] for v in c["variants"]]
    if cmd == "transform":
        if rng.random() < 0.3:
            opts["ids"] = [h["id"] for h in haps if rng.random() < 0.7] or [haps[0]["id"]]
        if rng.random() < 0.2:
            opts["maf"] = float(rng.choice([0.1, 0.25]))
    elif cmd == "ld":
        opts["target"] = str(rng.choice([h["id"] for h in haps] + vids[:1]))
    elif cmd == "ld-from-gts":
        opts["target"] = str(rng.choice(vids + [haps[0]["id"]]))
        if rng.random() < 0.4:
            opts["ids"] = [vids[i] for i in rng.permutation(len(vids))[: int(rng.integers(1, len(vids) + 1))].tolist()]
    elif cmd == "simphenotype":
        k = int(rng.integers(1, min(3, len(vids)) + 1))
        opts["effects"] = [[vids[i], round(float(rng.uniform(-1, 1)), 2)] for i in rng.permutation(len(vids))[:k].tolist()]
    elif cmd == "clump":
        opts["pvals"] = [float(x) for x in rng.choice([1e-8, 1e-5, 2e-5, 0.001, 0.002, 0.03, 0.2], size=len(vids))]
        opts["kb"] = float(rng.choice([0.01, 0.02, 250]))
        opts["r2"] = float(rng.choice([0.1, 0.5, 0.9]))
    return {"content": c, "cmd": cmd, "haps": haps, "region": region, "samples": samples, "opts": opts}


def cmd_args(inp, gt, d, tag):
    """the argument vector of the command (the same for both formats but for the genotypes path)"""
    cmd, o = inp["cmd"], inp["opts"]
    hap = os.path.join(d, "x.hap")
    args, out = [], None
    common = []
    if inp["region"] is not None:
        common += ["--region", region_str(inp["region"])]
    for s in inp["samples"] or []:
        common += ["-s", s]
    if o["chunk"] is not None:
        common += ["-c", str(o["chunk"])]
    if cmd == "transform":
        out = os.path.join(d, f"out_{tag}.vcf")
        args = ["transform", gt, hap, "-o", out] + common
        for i in o["ids"] or []:
            args += ["-i", i]
        if o["discard_missing"]:
            args.append("--discard-missing")
        if o["maf"] is not None:
            args += ["--maf", str(o["maf"])]
    elif cmd in ("ld", "ld-from-gts"):
        out = os.path.join(d, f"out_{tag}." + ("ld" if cmd == "ld-from-gts" else "hap"))
        args = ["ld", o["target"], gt, hap, "-o", out] + common
        if cmd == "ld-from-gts":
            args.append("--from-gts")
        for i in o["ids"] or []:
            args += ["-i", i]
        if o["discard_missing"]:
            args.append("--discard-missing")
    elif cmd == "simphenotype":
        out = os.path.join(d, f"out_{tag}.pheno")
        args = ["simphenotype", gt, os.path.join(d, "x.snplist"), "-o", out, "--seed", str(o["seed"]),
                "-r", str(o["replications"])] + common
    elif cmd == "clump":
        out = os.path.join(d, f"out_{tag}.clump")
        args = ["clump", "--summstats-snps", os.path.join(d, "ss.txt"), "--gts-snps", gt, "--clump-id-field", "SNP",
                "--clump-chrom-field", "CHR", "--clump-pos-field", "POS", "--clump-p1", "0.01", "--clump-p2", "0.05",
                "--clump-kb", str(o["kb"]), "--clump-r2", str(o["r2"]), "--out", out]
    return args + ["-v", "CRITICAL"] if cmd != "clump" else args + ["--verbosity", "CRITICAL"], out


def parse_output(path):
    """the records of an output file: tab-separated tokens, stripped; in a VCF body the separator of a homozygous
    GT is immaterial"""
    if path is None or not os.path.exists(path):
        return None
    rows = []
    with open(path) as f:
        lines = f.read().split("\n")
    body = False
    for ln in lines:
        toks = [t.strip() for t in ln.split("\t")]
        if body and path.endswith(".vcf") and len(toks) > 9:
            for i in range(9, len(toks)):
                t = toks[i].replace("/", "|")
                a = t.split("|")
                toks[i] = t if len(a) == 2 and a[0] == a[1] else toks[i]
        if ln.startswith("#CHROM"):
            body = True
        rows.append(toks)
    while rows and rows[-1] == [""]:
        rows.pop()
    return rows


class ReadRecorder:
    """wraps Genotypes.read / GenotypesPLINK.read: the arguments of the first read of the genotypes file and the object
    it left"""

    def __init__(self, path):
        self.path, self.seen = str(path), None
        self.saved = []

    def __enter__(self):
        from haptools.data import genotypes as G

        rec = self
        for cls in (G.Genotypes, G.GenotypesPLINK):
            orig = cls.__dict__["read"]
            self.saved.append((cls, orig))

            def wrapped(obj, region=None, samples=None, variants=None, max_variants=None, _orig=orig):
                mine = rec.seen is None and str(obj.fname) == rec.path and type(obj).__name__ in (
                    "Genotypes", "GenotypesVCF", "GenotypesPLINK")
                if mine:
                    rec.seen = {"region": region, "samples": None if samples is None else sorted(samples),
                                "ids": None if variants is None else sorted(variants), "max": max_variants,
                                "chunk": getattr(obj, "chunk_size", None), "cls": type(obj).__name__, "load": None}
                try:
                    r = _orig(obj, region=region, samples=samples, variants=variants, max_variants=max_variants)
                except Exception as e:  # noqa
                    if mine:
                        rec.seen["load"] = {"err": err_kind(e), "cls": type(e).__name__, "msg": str(e)[:160]}
                    raise
                if mine:
                    rec.seen["load"] = {"ok": dump_obj(obj)}
                return r

            cls.read = wrapped
        return self

    def __exit__(self, *a):
        for cls, orig in self.saved:
            cls.read = orig


class CmdFmt(Relation):
    name = "cmdfmt"
    coq_module = "C08_Check"
    coq_check = "check_cmdfmt"
    coq_case_type = "ccase"
    coq_model = "model_cmdfmt"
    coq_imports = ["C07_Model", "C08_Model"]
    budget = {"quick": 48, "thorough": 1500}
    max_cases_per_shard = 120
    anchors = [
        ("haptools/transform.py", "transform_haps"),
        ("haptools/ld.py", "calc_ld"),
        ("haptools/sim_phenotype.py", "simulate_pt"),
        ("haptools/clump.py", "clumpstr"),
        ("haptools/data/genotypes.py", "Genotypes.load"),
        ("haptools/data/genotypes.py", "Genotypes.read"),
        ("haptools/data/genotypes.py", "GenotypesPLINK.read"),
        ("haptools/data/genotypes.py", "GenotypesPLINK._iterate_variants"),
    ]

    def generate(self, rng, n, tier):
        out = []
        for i in range(n):
            out.append(gen_cmd_case(rng, cmd=CMDS[i % len(CMDS)], special=bool(rng.random() < 0.15)))
        return out

    def run_impl(self, inp):
        from click.testing import CliRunner
        from haptools.__main__ import main

        d = tempfile.mkdtemp(prefix="hv_c08c_")
        try:
            c, o = inp["content"], inp["opts"]
            vp, pp = os.path.join(d, "x.vcf.gz"), os.path.join(d, "x.pgen")
            write_vcf(c, vp)
            write_pgen(c, pp)
            with open(os.path.join(d, "x.hap"), "w") as f:
                f.write(hap_text(inp["haps"]))
            if inp["cmd"] == "simphenotype":
                with open(os.path.join(d, "x.snplist"), "w") as f:
                    f.write("".join(f"{i}\t{b}\n" for i, b in o["effects"]))
            if inp["cmd"] == "clump":
                with open(os.path.join(d, "ss.txt"), "w") as f:
                    f.write("CHR\tPOS\tSNP\tP\n")
                    for v, pv in zip(c["variants"], o["pvals"]):
                        f.write(f"{v[1]}\t{v[2]}\t{v[0]}\t{pv!r}\n")
            res = {}
            for tag, gt in (("v", vp), ("p", pp)):
                args, out = cmd_args(inp, gt, d, tag)
                with ReadRecorder(gt) as rec:
                    r = CliRunner().invoke(main, args, catch_exceptions=True)
                exc = r.exception
                res[tag] = {"exit": int(r.exit_code),
                            "exc": None if exc is None or isinstance(exc, SystemExit) else
                            {"err": err_kind(exc), "cls": type(exc).__name__, "msg": str(exc)[:160]},
                            "out": parse_output(out) if r.exit_code == 0 else None, "read": rec.seen}
            return res
        finally:
            shutil.rmtree(d, ignore_errors=True)

    @staticmethod
    def _query(inp, seen):
        """the query the command handed to the reader (recorded), as the read relation writes it"""
        return {"region": inp["region"], "samples": seen["samples"], "ids": seen["ids"], "max": seen["max"],
                "chunk": seen["chunk"], "vfmt": "vcf.gz"}

    def encode(self, inp, obs):
        E = Enc()
        E.i = ChromEnc(E.i)
        T = L.Interner()          # the tokens of the outputs
        c = inp["content"]
        g = E.geno_in(c)
        ids = lambda l: L.lst(l, lambda x: L.z(E.i(("id", x))))
        ok = isinstance(obs, dict) and "v" in obs and "p" in obs
        alle = {(v[0], v[1][:10], v[2]): v[3] for v in c["variants"]}

        def cout(o):
            if o is None:
                return f"(mkco 97 {oerr(obs)} None)"
            out = "None" if o["out"] is None else "(Some " + L.lst(o["out"], lambda r: L.zl([T(t) for t in r])) + ")"
            return f"(mkco {L.z(o['exit'])} {L.z(0 if o['exc'] is None else o['exc']['err'])} {out})"

        def load(o):
            if o is None or o["read"] is None or o["read"]["load"] is None:
                return "None"
            ld = o["read"]["load"]
            if "ok" in ld:
                # the base class Genotypes (simphenotype on a VCF) does not load alleles: taken from the content
                ld = {"ok": dict(ld["ok"], variants=[[v[0], v[1], v[2], v[3] or alle.get((v[0], v[1], v[2]), [])]
                                                      for v in ld["ok"]["variants"]])}
            return f"(Some {E.rgeno(ld)})"

        seen_v = obs["v"]["read"] if ok else None
        seen_p = obs["p"]["read"] if ok else None
        seen = seen_v or seen_p
        reg, regstr, sam, idl, mx, chunk = "None", "None", "None", "None", "None", "None"
        same = True
        if seen is not None:
            same = seen_v is not None and seen_p is not None and all(
                seen_v[k] == seen_p[k] for k in ("region", "samples", "ids", "max"))
            same = same and seen["region"] == region_str(inp["region"])
            sam, idl = L.opt(seen["samples"], lambda l: E.samples(l)), L.opt(seen["ids"], ids)
            mx = L.opt(seen["max"], L.z)
            chunk = L.opt(seen_p["chunk"] if seen_p else None, L.z)
            if inp["region"] is not None:
                ctg, a, b = inp["region"]
                reg = f"(Some ({L.z(E.i(('chrom', ctg)))}, {L.opt(a, L.z)}, {L.opt(b, L.z)}))"
                regstr = f"(Some {L.chars(region_str(inp['region']))})"
        qt = f"(mkq {reg} {sam} {idl} {mx})"
        return (f"(mkcc {g} {qt} {chunk} {regstr} {L.b(STRICT_REGION_CONTIG_NAMES)} {L.b(STRICT_EMPTY_SAMPLE_SELECTION)} "
                f"{L.b(STRICT_CMD_EMPTY_LOAD)} {L.b(same)} {load(obs['v'] if ok else None)} {load(obs['p'] if ok else None)} "
                f"{cout(obs['v'] if ok else None)} {cout(obs['p'] if ok else None)})")

    def nontrivial(self, inp, obs):
        # both runs produced an output with at least one record beyond the header
        if not (isinstance(obs, dict) and "v" in obs):
            return False
        o = obs["v"]["out"]
        return bool(o) and len([r for r in o if r and not r[0].startswith("#")]) > (1 if inp["cmd"] in ("clump", "ld-from-gts") else 0)

    def classes(self, inp, obs):
        out = [inp["cmd"], "flaw=" + inp["content"].get("flaw", "none")]
        if inp["region"] is not None:
            out.append("region=" + ("c" if inp["region"][1] is None else "c:a-b" if inp["region"][2] is not None else "c:a-"))
            if has_sep(inp["region"][0]):
                out.append("region-contig-has-colon-or-dash")
        if inp["samples"] is not None:
            out.append("samples")
        if inp["opts"]["chunk"] is not None:
            out.append("chunk")
        if inp["opts"].get("ids"):
            out.append("ids")
        if isinstance(obs, dict) and "v" in obs:
            for tag in ("v", "p"):
                rd = obs[tag]["read"]
                if rd and rd["load"] and "ok" in rd["load"] and 0 in rd["load"]["ok"]["shape"]:
                    out.append(f"{tag}-load-empty")
                out.append(f"{tag}-exit{obs[tag]['exit']}" + (f"-{obs[tag]['exc']['cls']}" if obs[tag]["exc"] else ""))
        return out

    def shrink(self, inp):
        if inp["region"] is not None:
            yield dict(inp, region=None)
            if inp["region"][1] is not None:
                yield dict(inp, region=[inp["region"][0], None, None])
        if inp["samples"] is not None:
            yield dict(inp, samples=None)
        o = inp["opts"]
        for key in ("chunk", "ids", "maf"):
            if o.get(key) is not None:
                yield dict(inp, opts=dict(o, **{key: None}))
        if o.get("discard_missing"):
            yield dict(inp, opts=dict(o, discard_missing=False))
        if len(inp["haps"]) > 1:
            for j in range(len(inp["haps"])):
                if inp["haps"][j]["id"] != o.get("target"):
                    yield dict(inp, haps=inp["haps"][:j] + inp["haps"][j + 1:])
        c = inp["content"]
        used = {x[0] for h in inp["haps"] for x in h["vars"]} | set(o.get("ids") or []) | {o.get("target")} \
            | {e[0] for e in o.get("effects", [])}
        if inp["cmd"] != "clump":
            for j in range(len(c["variants"])):
                if c["variants"][j][0] not in used and len(c["variants"]) > 1:
                    yield dict(inp, content=dict(c, variants=c["variants"][:j] + c["variants"][j + 1:],
                                                 rows=c["rows"][:j] + c["rows"][j + 1:]))
        if len(c["samples"]) > 2:
            for k in range(len(c["samples"])):
                yield dict(inp, content=dict(c, samples=c["samples"][:k] + c["samples"][k + 1:],
                                             rows=[r[:k] + r[k + 1:] for r in c["rows"]]))

    def mutate(self, inp, rng):
        for _ in range(30):
            yield gen_cmd_case(rng, cmd=inp["cmd"], special=bool(rng.random() < 0.3))

    def signature(self, inp, obs):
        if not (isinstance(obs, dict) and "v" in obs):
            return "cmdfmt: interpreter crash/timeout"
        v, p = obs["v"], obs["p"]
        what = []
        for tag, o in (("VCF", v), ("PGEN", p)):
            if o["exit"] != 0:
                what.append(f"{tag} run failed ({o['exc']['cls'] if o['exc'] else 'exit %d' % o['exit']})")
        if not what:
            what.append("outputs differ" if v["out"] != p["out"] else "the readers loaded what the model does not predict")
        sep = inp["region"] is not None and has_sep(inp["region"][0])
        shp = [o["read"]["load"]["ok"]["shape"] if o["read"] and o["read"]["load"] and "ok" in o["read"]["load"] else None
               for o in (v, p)]
        return (f"cmdfmt[{inp['cmd']}]: {'; '.join(what)}; flaw={inp['content'].get('flaw', 'none')}"
                + (" region-contig-has-colon-or-dash=True" if sep else "")
                + (" loads-differ-in-shape=True" if None not in shp and shp[0] != shp[1] else ""))


RELATIONS = [Read(), Subset(), Seq(), CmdFmt()]

LEVEL_TEXT = (
    "Coq theorems, for every file content with unique IDs - in any record order, sorted or not - and every query (region, "
    "sample set, ID set, max_variants, chunk size), about a Gallina model of Genotypes.read/_iterate/__iter__/subset/index "
    "and GenotypesPLINK.read/read_variants/_iterate_variants/__iter__: the restricted read equals the full read filtered in "
    "file order and IS the model's subset() of the full read by the selected samples and IDs in file order "
    "(C08_read_eq_full_then_subset_vcf/_pgen), an empty match is an empty result and never an error, the iterator yields "
    "the records of the bulk read, max_variants returns a prefix, both formats are the same function of the content "
    "(C08_vcf_pgen_same_content; the model's iterator is a list of values, so a caller that holds on to records sees what a "
    "caller sees that converts each at once: C08_iter_styles_coincide / _list, C08_iter_shared_cell_refuted for an iterator "
    "over one shared cell) and therefore every command that looks at nothing but what was loaded returns the same "
    "result for either format (C08_command_same_result), subset returns the requested order, and any sequence of subset() "
    "calls equals one subset() of the original object by the names the sequence leaves (C08_subset_seq_one; a repeated name "
    "makes the next call raise, C08_subset_after_repeats). The region is modelled as the TEXT the readers get, at character "
    "level (C08_Region): htslib's parser and the repaired GenotypesPLINK parser invert the canonical printing of "
    "(contig, start?, end?) for EVERY contig name - ':' and '-' included - as long as the text has one reading in the file "
    "(C08_region_string_vcf / _pgen, C08_vcf_read_by_string / C08_pgen_read_by_string), the parser of the tree as it is "
    "only for names without ':' and '-' (C08_region_parse_legacy_plain; C08_legacy_region_refuted). The model is tied to "
    "/repo on every run: each generated content is written as VCF/BCF (indexed when its order allows) and as .pgen with "
    "pysam/pgenlib directly; haptools' full, restricted and streaming reads of both files (the iterator consumed in three "
    "styles, two reads on one object), read()+subset(), sequences of "
    "in-place and copying subset() calls on the loaded object, and runs of transform / ld / simphenotype / clump on both "
    "files are compared with the model and checked against the property inside Coq."
)
LEVEL_NOTE = (
    "Partial: htslib's region query and text parsing and pgenlib's by-index reads are contracts exercised on every run, not "
    "theorems. Cross-format equality is a theorem (C08_vcf_pgen_same_content: same samples, variants, allele indices, "
    "missing calls and phase of heterozygous calls for every pgenlib meeting the C07 contract) under the hypothesis that "
    "the region has no start or every REF allele is one base long (htslib selects by REF overlap, the PGEN reader by "
    "position); the run compares region reads across formats under the same condition and only when the VCF has an index. "
    "'Every command gives the same result' is a theorem for commands that are functions of the loaded content "
    "(C08_command_same_result); that haptools' commands are such functions is what the cmdfmt relation tests, it is not "
    "proved. Two findings of this check are OPEN, each behind a switch that defaults to the tree as it is: (1) "
    "GenotypesPLINK cuts a region text at every ':' and '-' - a contig such as HLA-DRB1, HLA-A*01:01:01:01 or chrUn_KI270-1 "
    "raises ValueError / TypeError or silently returns the variants of another contig, while the VCF reader answers "
    "correctly (STRICT_REGION_CONTIG_NAMES, fixes/C08_region_contig_names.patch); (2) simphenotype on a read that matched "
    "nothing prints no sample for a VCF and n noise-only phenotypes for the PGEN twin (STRICT_CMD_EMPTY_LOAD, "
    "fixes/C08_simphenotype_empty_load.patch). Two earlier findings were repaired (a sample restriction that selects nobody "
    "raised inside pgenlib: fix 1b2885e; subset() on the object of a VCF read that matched nothing raised IndexError: fix "
    "09a826e); the model is the repaired reader (switches STRICT_EMPTY_SAMPLE_SELECTION / STRICT_SUBSET_AFTER_EMPTY_READ "
    "on) and holds demands the empty result with a warning there too (C08_vcf_read_x_spec / C08_pgen_read_x_spec state the "
    "repaired readers without the hypothesis selected_samples <> [] that the theorems about the unrepaired readers carry)."
)
TECHNIQUE = "Coq proof by induction on record lists + vm_compute-evaluated correspondence against haptools on pysam/pgenlib-written files"
