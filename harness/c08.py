"""C08 - restricted reads equal full read + subset, for VCF and PGEN alike.

Relations
  read   : one content materialised as .vcf.gz+tbi or .bcf+csi (pysam) and .pgen/.pvar/.psam
           (pgenlib, plain text), one query (region / samples / ids / max_variants /
           chunk size); haptools' read(), read(restricted) and __iter__(restricted)
           observed for both formats
  subset : Genotypes.subset(samples, variants) on an in-memory object
"""
import logging
import os
import shutil
import tempfile

import numpy as np

from . import coqlit as L
from .core import Relation, err_kind
from .c07 import ALPH, Enc, build_obj, dump_obj, oerr

PROP = "C08"
CLAIMED = True
COQ_MODULES = ["C08_Check", "C08_Proofs"]
PROPERTY_MODULE = "C08_Property"
ALLOWED_AXIOMS = []
RULE = (
    "read: contents of 1-5 samples x 0-8 variants on 1-3 contigs (sorted, equal positions and multi-base REF alleles "
    "occur), queries mixing region forms 'c', 'c:a-b', 'c:a-' with a/b on, between (+-1) and outside variant positions "
    "and absent contigs, sample subsets with unknown names, ID subsets with unknown IDs / no match / the empty set, "
    "max_variants 0..p+2, PGEN chunk sizes None,1..p+1. Non-trivial = the query restricts something (drops at least one "
    "row or column, or matches nothing). subset: objects of 1-5 x 0-6 with requested tuples that permute, repeat and "
    "contain unknown names. Distinct = distinct canonical JSON."
)
TRUSTED = [
    "htslib region queries return, in file order, the records whose [pos, pos+len(REF)-1] overlaps the region (model "
    "in_region_vcf); pgenlib returns stored calls by variant index (C07 contracts); both exercised on every run",
    "the test files (.vcf.gz+.tbi or .bcf+.csi, .pgen/.pvar/.psam) are written with pysam / pgenlib / plain text by the "
    "harness, not with haptools",
    "harness transposes haptools' sample-major array to variant-major rows; strings are interned per case",
]
ASSUMPTIONS = [
    "domain: sample names and variant IDs are unique within a file; contig names are alphanumeric; the ID and sample "
    "restrictions are Python sets; max_variants >= 0; chunk sizes >= 1 or None",
    "region bounds on a record whose REF allele is longer than one base: either reading (overlap / position) is accepted "
    "by holds; cross-format equality of region reads is checked only when every REF is one base long or the region is a "
    "whole contig",
    "a sample restriction that selects no sample at all is not checked by holds (cyvcf2 -> AttributeError, pgenlib -> "
    "RuntimeError; compared by agree only)",
]


# Switch for the integrator: a sample restriction that selects no sample at all makes cyvcf2 raise
# AttributeError ('NoneType' object has no attribute 'array') and pgenlib RuntimeError ("Empty sample_subset
# is not currently permitted"). False = holds does not check such queries (agree compares the exception
# kinds); True = holds demands "empty result + warning, no exception"; the failures then carry
# "no-sample-selected=True" in their signature (candidate known finding).
STRICT_EMPTY_SAMPLE_SELECTION = False

# ----------------------------------------------------------------------------
# content and queries


def gen_content(rng, pmax=8, nmax=5):
    n = int(rng.integers(1, nmax + 1))
    p = int(rng.integers(1, pmax + 1))
    if rng.random() < 0.04:
        p = 0      # a file without variants
    samples = [f"s{j}" for j in rng.permutation(9)[:n].tolist()]
    contigs = sorted(rng.choice([1, 2, 3, 7, 10], size=int(rng.integers(1, 4)), replace=False).tolist())
    contigs = [("chr" if rng.random() < 0.2 else "") + str(c) for c in contigs]
    if len(set(contigs)) < len(contigs):
        contigs = sorted(set(contigs))
    cidx = sorted(rng.integers(0, len(contigs), size=p).tolist())
    ids = [f"v{j}" for j in rng.permutation(20)[:p].tolist()]
    multibase = rng.random() < 0.3
    variants, rows = [], []
    pos = 0
    for j in range(p):
        if j and cidx[j] != cidx[j - 1]:
            pos = 0
        step = int(rng.choice([0, 1, 1, 2, 3, 5, 10, 20])) if pos else int(rng.integers(1, 30))
        pos = max(1, pos + step)
        na = int(rng.choice([2, 2, 2, 3, 4]))
        alleles = []
        for a in rng.permutation(len(ALPH))[:na].tolist():
            s = ALPH[a]
            while s in alleles:
                s += "T"
            alleles.append(s)
        if not multibase:
            alleles[0] = next(x for x in "ACGT" if x not in alleles[1:])
        row = []
        for s in range(n):
            a, b = int(rng.integers(0, na)), int(rng.integers(0, na))
            ph = int(rng.integers(0, 2))
            if rng.random() < 0.1:
                a = b = 255
            if a != b and not ph:
                a, b = min(a, b), max(a, b)   # PGEN stores an unphased heterozygote unordered
            row.append([a, b, ph])
        variants.append([ids[j], contigs[cidx[j]], pos, alleles])
        rows.append(row)
    return {"samples": samples, "variants": variants, "rows": rows, "planes": 3}


def gen_query(rng, c):
    p = len(c["variants"])
    q = {"region": None, "samples": None, "ids": None, "max": None, "chunk": None}
    if rng.random() < 0.6:
        contigs = sorted({v[1] for v in c["variants"]})
        ctg = str(rng.choice(contigs)) if contigs and rng.random() < 0.88 else str(rng.choice(["4", "chr9", "1x"]))
        pos = [v[2] for v in c["variants"] if v[1] == ctg] or [5]
        pts = sorted({max(1, x + d) for x in pos for d in (-1, 0, 1)} | {1, max(pos) + 7})
        form = rng.choice(["c", "c:a-b", "c:a-b", "c:a-"])
        a = int(rng.choice(pts))
        b = int(rng.choice(pts))
        if form == "c:a-b" and b < a and rng.random() < 0.85:
            a, b = b, a
        q["region"] = {"c": [ctg, None, None], "c:a-b": [ctg, a, b], "c:a-": [ctg, a, None]}[form]
    if rng.random() < 0.5:
        r = rng.random()
        k = int(rng.integers(1, len(c["samples"]) + 1))
        s = [c["samples"][i] for i in rng.permutation(len(c["samples"]))[:k].tolist()]
        if r < 0.3:
            s += ["zz", "s99"][: int(rng.integers(1, 3))]
        elif r < 0.36:
            s = ["zz"]
        elif r < 0.4:
            s = []
        q["samples"] = s
    if rng.random() < 0.5:
        r = rng.random()
        k = int(rng.integers(1, p + 1)) if p else 0
        s = [c["variants"][i][0] for i in rng.permutation(p)[:k].tolist()]
        if r < 0.3:
            s += ["nope", "v99"][: int(rng.integers(1, 3))]
        elif r < 0.4:
            s = ["nope"]
        elif r < 0.48:
            s = []
        q["ids"] = s
    if rng.random() < 0.4:
        q["max"] = int(rng.integers(0, p + 3))
    if rng.random() < 0.7:
        q["chunk"] = int(rng.integers(1, p + 2))
    q["vfmt"] = "bcf" if rng.random() < 0.3 else "vcf.gz"     # .bcf + .csi or .vcf.gz + .tbi
    return q


def region_str(r):
    if r is None:
        return None
    c, a, b = r
    if a is None:
        return str(c)
    return f"{c}:{a}-{'' if b is None else b}"


def write_vcf(c, path):
    import pysam

    h = pysam.VariantHeader()
    seen = []
    for v in c["variants"]:
        if v[1] not in seen:
            seen.append(v[1])
            h.contigs.add(v[1])
    h.add_meta("FORMAT", items=[("ID", "GT"), ("Number", 1), ("Type", "String"), ("Description", "Genotype")])
    h.add_samples(c["samples"])
    with pysam.VariantFile(path, "wb" if path.endswith(".bcf") else "wz", header=h) as vf:
        for v, row in zip(c["variants"], c["rows"]):
            rec = vf.new_record(contig=v[1], start=v[2] - 1, stop=v[2] - 1 + len(v[3][0]), alleles=tuple(v[3]), id=v[0])
            for s, call in zip(c["samples"], row):
                rec.samples[s]["GT"] = tuple(None if x == 255 else x for x in call[:2])
                rec.samples[s].phased = bool(call[2])
            vf.write(rec)
    pysam.tabix_index(path, preset="bcf" if path.endswith(".bcf") else "vcf", force=True)


def write_pgen(c, path):
    import pgenlib

    base = path[: -len(".pgen")]
    with open(base + ".psam", "w") as f:
        f.write("#IID\n" + "".join(s + "\n" for s in c["samples"]))
    with open(base + ".pvar", "w") as f:
        f.write("##fileformat=VCFv4.2\n")
        seen = []
        for v in c["variants"]:
            if v[1] not in seen:
                seen.append(v[1])
                f.write(f"##contig=<ID={v[1]}>\n")
        f.write("#CHROM\tPOS\tID\tREF\tALT\tQUAL\tFILTER\tINFO\n")
        for v in c["variants"]:
            f.write(f"{v[1]}\t{v[2]}\t{v[0]}\t{v[3][0]}\t{','.join(v[3][1:])}\t.\t.\t.\n")
    n, p = len(c["samples"]), len(c["variants"])
    if p == 0:
        open(path, "wb").close()     # what plink2 / haptools leave for a file without variants
        return
    limit = max(len(v[3]) for v in c["variants"])
    with pgenlib.PgenWriter(filename=path.encode(), sample_ct=n, variant_ct=p, allele_ct_limit=limit,
                            nonref_flags=False, hardcall_phase_present=True) as w:
        for v, row in zip(c["variants"], c["rows"]):
            codes = np.array([[(-9 if x == 255 else x) for call in row for x in call[:2]]], dtype=np.int32)
            phase = np.array([[call[2] for call in row]], dtype=np.uint8)
            w.append_partially_phased_batch(codes, phase, allele_cts=np.array([len(v[3])], dtype=np.uint32))


class CountWarnings(logging.Handler):
    def __init__(self):
        super().__init__(level=logging.WARNING)
        self.n = 0

    def emit(self, record):
        self.n += 1


def observe(cls, path, q, kw):
    from pathlib import Path
    from haptools.logging import getLogger

    quiet = getLogger("hv", "CRITICAL")
    out = {}
    args = dict(region=region_str(q["region"]),
                samples=None if q["samples"] is None else set(q["samples"]),
                variants=None if q["ids"] is None else set(q["ids"]))
    try:
        r = cls(Path(path), log=quiet, **kw)
        r.read()
        out["full"] = {"ok": dump_obj(r)}
    except Exception as e:  # noqa
        out["full"] = {"err": err_kind(e), "cls": type(e).__name__, "msg": str(e)[:160]}
    lg = logging.Logger("hv_capture")
    h = CountWarnings()
    lg.addHandler(h)
    try:
        r = cls(Path(path), log=lg, **kw)
        r.read(max_variants=q["max"], **args)
        out["read"] = {"ok": dump_obj(r)}
    except Exception as e:  # noqa
        out["read"] = {"err": err_kind(e), "cls": type(e).__name__, "msg": str(e)[:160]}
    out["warned"] = h.n > 0
    try:
        r = cls(Path(path), log=quiet, **kw)
        recs = []
        for rec in r.__iter__(**args):
            v = rec.variants
            recs.append([[str(v["id"]), str(v["chrom"]), int(v["pos"]), [str(a) for a in v["alleles"].item()]],
                         np.asarray(rec.data).astype(np.int64).tolist()])
        out["iter"] = {"ok": {"samples": [str(s) for s in r.samples], "recs": recs}}
    except Exception as e:  # noqa
        out["iter"] = {"err": err_kind(e), "cls": type(e).__name__, "msg": str(e)[:160]}
    return out


def selects(c, q):
    """python-side description of what the query does (classes / nontrivial only)"""
    out = []
    vs = c["variants"]
    keep = list(range(len(vs)))
    if q["region"] is not None:
        ctg, a, b = q["region"]
        out.append("region=" + ("c" if a is None else "c:a-b" if b is not None else "c:a-"))
        if ctg not in {v[1] for v in vs}:
            out.append("absent-contig")
        pos = [v[2] for v in vs if v[1] == ctg]
        for nm, x in (("a", a), ("b", b)):
            if x is not None and pos:
                out.append(f"{nm}-" + ("on" if x in pos else "outside" if x < min(pos) or x > max(pos) else "between"))
        keep = [j for j in keep if vs[j][1] == ctg and (a is None or vs[j][2] >= a) and (b is None or vs[j][2] <= b)]
        if any(len(vs[j][3][0]) > 1 and vs[j][1] == ctg and a is not None and vs[j][2] < a <= vs[j][2] + len(vs[j][3][0]) - 1
               for j in range(len(vs))):
            out.append("multibase-REF-straddles-start")
    if q["ids"] is not None:
        ids = {v[0] for v in vs}
        out.append("ids=" + ("empty" if not q["ids"] else "none-match" if not (set(q["ids"]) & ids)
                              else "with-unknown" if set(q["ids"]) - ids else "known"))
        keep = [j for j in keep if vs[j][0] in q["ids"]]
    if q["samples"] is not None:
        ss = set(c["samples"])
        out.append("samples=" + ("empty" if not q["samples"] else "none-match" if not (set(q["samples"]) & ss)
                                  else "with-unknown" if set(q["samples"]) - ss else "known"))
    if q["max"] is not None:
        out.append("max=" + ("0" if q["max"] == 0 else "<matches" if q["max"] < len(keep) else ">=matches"))
    if q["chunk"] is not None:
        out.append("chunk=" + ("1" if q["chunk"] == 1 else ">p" if q["chunk"] > len(vs) else "mid"))
    out.append("vfmt=" + q.get("vfmt", "vcf.gz"))
    if not vs:
        out.append("p=0")
    if not keep:
        out.append("empty-match")
    restricts = len(keep) < len(vs) or (q["samples"] is not None and set(c["samples"]) - set(q["samples"])) \
        or (q["max"] is not None and q["max"] < len(keep))
    return out, bool(restricts)


class Read(Relation):
    name = "read"
    coq_module = "C08_Check"
    coq_check = "check_read"
    coq_case_type = "rcase"
    coq_model = "model_read"
    coq_imports = ["C07_Model", "C08_Model"]
    budget = {"quick": 500, "thorough": 9000}
    max_cases_per_shard = 120
    anchors = [
        ("haptools/data/genotypes.py", "Genotypes.read"),
        ("haptools/data/genotypes.py", "Genotypes._iterate"),
        ("haptools/data/genotypes.py", "Genotypes._vcf_iter"),
        ("haptools/data/genotypes.py", "Genotypes.__iter__"),
        ("haptools/data/genotypes.py", "GenotypesPLINK.read"),
        ("haptools/data/genotypes.py", "GenotypesPLINK.read_samples"),
        ("haptools/data/genotypes.py", "GenotypesPLINK.read_variants"),
        ("haptools/data/genotypes.py", "GenotypesPLINK._iterate_variants"),
        ("haptools/data/genotypes.py", "GenotypesPLINK._check_region"),
        ("haptools/data/genotypes.py", "GenotypesPLINK._iterate"),
        ("haptools/data/genotypes.py", "GenotypesPLINK.__iter__"),
    ]

    def generate(self, rng, n, tier):
        out = []
        for i in range(n):
            c = gen_content(rng)
            out.append({"content": c, "q": gen_query(rng, c)})
        return out

    def exhaustive(self, tier):
        # one small content, all region forms over a grid x id subsets x max_variants
        c = {"samples": ["a", "b"], "planes": 3,
             "variants": [["v1", "1", 10, ["A", "T"]], ["v2", "1", 20, ["AC", "T"]], ["v3", "1", 20, ["G", "T", "C"]],
                          ["v4", "2", 5, ["A", "G"]]],
             "rows": [[[0, 1, 1], [1, 1, 0]], [[0, 1, 0], [255, 255, 0]], [[2, 1, 1], [0, 0, 1]], [[1, 0, 1], [0, 1, 0]]]}
        regions = [None, ["1", None, None], ["3", None, None]]
        grid = [9, 10, 11, 19, 20, 21, 22]
        for a in grid:
            regions.append(["1", a, None])
            for b in grid:
                if a <= b:
                    regions.append(["1", a, b])
        out = []
        for r in regions:
            for ids in (None, ["v2"], ["v3", "v1", "zz"], ["zz"], []):
                for mx in (None, 0, 1):
                    for ch in (None, 1):
                        out.append({"content": c, "q": {"region": r, "samples": None, "ids": ids, "max": mx, "chunk": ch}})
        return out

    def run_impl(self, inp):
        from haptools.data import GenotypesVCF, GenotypesPLINK

        d = tempfile.mkdtemp(prefix="hv_c08_")
        try:
            c, q = inp["content"], inp["q"]
            vp, pp = os.path.join(d, "x." + q.get("vfmt", "vcf.gz")), os.path.join(d, "x.pgen")
            write_vcf(c, vp)
            write_pgen(c, pp)
            return {"vcf": observe(GenotypesVCF, vp, q, {}),
                    "pgen": observe(GenotypesPLINK, pp, q, {"chunk_size": q["chunk"]})}
        finally:
            shutil.rmtree(d, ignore_errors=True)

    def encode(self, inp, obs):
        E = Enc()
        c, q = inp["content"], inp["q"]
        g = E.geno_in(c)
        ids = lambda l: L.lst(l, lambda x: L.z(E.i(("id", x))))
        reg = "None"
        if q["region"] is not None:
            ctg, a, b = q["region"]
            reg = f"(Some ({L.z(E.i(('chrom', ctg)))}, {L.opt(a, L.z)}, {L.opt(b, L.z)}))"
        qt = (f"(mkq {reg} {L.opt(q['samples'], lambda l: L.lst(l, E.s))} {L.opt(q['ids'], ids)} "
              f"{L.opt(q['max'], L.z)})")

        def fobs(o):
            if o is None:
                e = f"(Err {oerr(obs)})"
                return f"(mkfo {e} {e} false {e})"
            rec = lambda r: f"({E.variant(r[0])}, {L.lst(r[1], E.call)})"
            it = L.res(o["iter"], lambda x: f"({L.lst(x['samples'], E.s)}, {L.lst(x['recs'], rec)})")
            return f"(mkfo {E.rgeno(o['full'])} {E.rgeno(o['read'])} {L.b(o['warned'])} {it})"

        ok = isinstance(obs, dict) and "vcf" in obs
        return (f"(mkrc {g} {qt} {L.opt(q['chunk'], L.z)} {L.b(STRICT_EMPTY_SAMPLE_SELECTION)} "
                f"{fobs(obs['vcf'] if ok else None)} {fobs(obs['pgen'] if ok else None)})")

    def nontrivial(self, inp, obs):
        return selects(inp["content"], inp["q"])[1]

    def classes(self, inp, obs):
        out = selects(inp["content"], inp["q"])[0]
        if isinstance(obs, dict) and "vcf" in obs:
            for fmt in ("vcf", "pgen"):
                for k in ("read", "iter"):
                    if "err" in obs[fmt][k]:
                        out.append(f"{fmt}-{k}-err{obs[fmt][k]['err']}")
        return out

    def shrink(self, inp):
        c, q = inp["content"], inp["q"]
        for key in ("chunk", "max", "samples", "ids", "region"):
            if q[key] is not None:
                yield {"content": c, "q": dict(q, **{key: None})}
        if q["region"] is not None and q["region"][1] is not None:
            yield {"content": c, "q": dict(q, region=[q["region"][0], None, None])}
        p, n = len(c["variants"]), len(c["samples"])
        if p > 1:
            for j in range(p):
                yield {"content": dict(c, variants=c["variants"][:j] + c["variants"][j + 1:],
                                       rows=c["rows"][:j] + c["rows"][j + 1:]), "q": q}
        if n > 1:
            for s in range(n):
                yield {"content": dict(c, samples=c["samples"][:s] + c["samples"][s + 1:],
                                       rows=[r[:s] + r[s + 1:] for r in c["rows"]]), "q": q}
        for key in ("samples", "ids"):
            if q[key]:
                for j in range(len(q[key])):
                    yield {"content": c, "q": dict(q, **{key: q[key][:j] + q[key][j + 1:]})}

    def mutate(self, inp, rng):
        c, q = inp["content"], inp["q"]
        for ids in ([], ["nope"]):
            yield {"content": c, "q": dict(q, ids=ids)}
        for ctg in sorted({v[1] for v in c["variants"]}) + ["4"]:
            yield {"content": c, "q": dict(q, region=[ctg, None, None])}
            pos = [v[2] for v in c["variants"] if v[1] == ctg] or [3]
            for a in pos:
                for d in (-1, 0, 1):
                    yield {"content": c, "q": dict(q, region=[ctg, max(1, a + d), None])}
                    yield {"content": c, "q": dict(q, region=[ctg, 1, max(1, a + d)])}
        for m in (0, 1, len(c["variants"])):
            yield {"content": c, "q": dict(q, max=m, ids=None)}

    def signature(self, inp, obs):
        tags, _ = selects(inp["content"], inp["q"])
        empty = "empty-match" in tags
        if not isinstance(obs, dict) or "vcf" not in obs:
            return "read: interpreter crash/timeout"
        parts = []
        for fmt in ("vcf", "pgen"):
            o = obs[fmt]
            for k in ("full", "read", "iter"):
                if "err" in o[k]:
                    parts.append(f"{fmt} {k} raised {o[k].get('cls')}")
        what = "; ".join(parts) if parts else "restricted read / iterator / other format differs from full read + subset"
        nosamp = inp["q"]["samples"] is not None and not (set(inp["q"]["samples"]) & set(inp["content"]["samples"]))
        return f"read: {what}; empty-match={empty} no-sample-selected={nosamp}"


# ----------------------------------------------------------------------------


class Subset(Relation):
    name = "subset"
    coq_module = "C08_Check"
    coq_check = "check_subset"
    coq_case_type = "scase"
    coq_model = "model_subset"
    coq_imports = ["C07_Model", "C08_Model"]
    budget = {"quick": 500, "thorough": 8000}
    anchors = [
        ("haptools/data/genotypes.py", "Genotypes.subset"),
        ("haptools/data/genotypes.py", "Genotypes.index"),
    ]

    def generate(self, rng, n, tier):
        from .c07 import gen_matrix

        out = []
        for i in range(n):
            m = gen_matrix(rng, half_ok=True, pmax=6, nmax=5)
            m["planes"] = int(rng.choice([2, 3, 3]))
            kind = "wellformed"
            r = rng.random()
            if r < 0.05 and len(m["samples"]) > 1:
                m["samples"][-1] = m["samples"][0]
                kind = "dup-sample"
            elif r < 0.1 and len(m["variants"]) > 1:
                m["variants"][-1] = [m["variants"][0][0]] + m["variants"][-1][1:]
                kind = "dup-id"

            def req(names, unknown):
                if rng.random() < 0.3:
                    return None
                k = int(rng.integers(0, len(names) + 2))
                pool = list(names) + unknown
                pick = [pool[int(j)] for j in rng.integers(0, len(pool), size=k)] if pool else []
                if rng.random() < 0.6:
                    pick = list(dict.fromkeys(pick))
                return pick

            m["S"] = req(m["samples"], ["zz"])
            m["V"] = req([v[0] for v in m["variants"]], ["nope", "v77"])
            m["inplace"] = bool(rng.random() < 0.3)
            m["kind"] = kind
            out.append(m)
        return out

    def run_impl(self, inp):
        from haptools.data import GenotypesVCF

        g = build_obj(GenotypesVCF, "/nonexistent/x.vcf", inp)
        try:
            S = None if inp["S"] is None else tuple(inp["S"])
            V = None if inp["V"] is None else tuple(inp["V"])
            r = g.subset(samples=S, variants=V, inplace=inp["inplace"])
            if inp["inplace"]:
                r = g
            return {"ok": dump_obj(r)}
        except Exception as e:  # noqa
            return {"err": err_kind(e), "cls": type(e).__name__, "msg": str(e)[:160]}

    def encode(self, inp, obs):
        E = Enc()
        g = E.geno_in(inp)
        ids = lambda l: L.lst(l, lambda x: L.z(E.i(("id", x))))
        if "ok" not in obs and "err" not in obs:
            o = f"(Err {oerr(obs)})"
        else:
            o = E.rgeno(obs)
        return f"(mksc {g} {L.opt(inp['S'], lambda l: L.lst(l, E.s))} {L.opt(inp['V'], ids)} {o})"

    def nontrivial(self, inp, obs):
        return bool(inp["variants"]) and (inp["S"] is not None or inp["V"] is not None)

    def classes(self, inp, obs):
        out = [inp["kind"], "inplace" if inp["inplace"] else "copy"]
        for key, names in (("S", inp["samples"]), ("V", [v[0] for v in inp["variants"]])):
            r = inp[key]
            if r is None:
                out.append(f"{key}=None")
                continue
            known = [x for x in r if x in names]
            out.append(f"{key}=" + ("empty" if not r else "none-known" if not known else
                                    "permuted" if known != [x for x in names if x in known] else "file-order"))
            if len(known) < len(r):
                out.append(f"{key}-unknown")
            if len(set(r)) < len(r):
                out.append(f"{key}-repeats")
        if isinstance(obs, dict) and "err" in obs:
            out.append(f"err{obs['err']}")
        return out

    def shrink(self, inp):
        from .c07 import shrink_matrix

        for key in ("S", "V"):
            if inp[key] is not None:
                yield dict(inp, **{key: None})
                for j in range(len(inp[key])):
                    yield dict(inp, **{key: inp[key][:j] + inp[key][j + 1:]})
        yield from shrink_matrix(inp)

    def signature(self, inp, obs):
        if isinstance(obs, dict) and "err" in obs:
            return f"subset raised {obs.get('cls')} ({inp['kind']})"
        return f"subset result is not the requested samples/variants in the requested order ({inp['kind']})"


RELATIONS = [Read(), Subset()]

LEVEL_TEXT = (
    "Coq theorems, for every file content with unique IDs and every query (region, sample set, ID set, max_variants, chunk "
    "size), about a Gallina model of Genotypes.read/_iterate/__iter__/subset and GenotypesPLINK.read/read_variants/"
    "_iterate_variants/__iter__: the restricted read equals the full read filtered in file order, an empty match is an "
    "empty result and never an error, the iterator yields the records of the bulk read, max_variants returns a prefix, "
    "subset returns the requested order. The model is tied to /repo on every run: each generated content is written as "
    ".vcf.gz+tbi and .pgen with pysam/pgenlib directly and haptools' full, restricted and streaming reads of both files are "
    "compared with the model and checked against the property inside Coq."
)
LEVEL_NOTE = (
    "Partial: htslib's region query and pgenlib's by-index reads are contracts exercised on every run, not theorems; "
    "cross-format equality (vcf_pgen_same_content) is established by the correspondence run, with region bounds compared "
    "only when no REF allele is longer than one base or the region is a whole contig. A sample restriction that selects no "
    "sample raises inside cyvcf2/pgenlib and is compared by agree only."
)
TECHNIQUE = "Coq proof by induction on record lists + vm_compute-evaluated correspondence against haptools on pysam/pgenlib-written files"
