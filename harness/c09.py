"""C09 - simphenotype implements the documented linear model and case/control threshold.

Relations
  e2e : simulate_pt end to end on written VCF.gz(+tbi)/PGEN genotypes (SNPs, haplotype pseudo-genotypes, HipSTR-style
        repeats) and .snplist/.hap effect files with ID and sample subsets, replications and seeds; np.random.default_rng,
        PhenoSimulator.write and normalize_gts are wrapped to observe the draws and the table; the .pheno is parsed
        independently; the same Coq checker as for `run` is evaluated on the expected loaded matrix.  40 % of the cases go
        through the `haptools simphenotype` COMMAND LINE (click CliRunner, in-process, same recorders; simulate_pt wrapped to
        see what the command hands over) with every option {-r, --environment, -h, -p, --normalize/--no-normalize,
        --region, -s/-S, -i/-I, -c, --repeats, --seed, -v} absent / given / given with its documented default, short and long
        names, `--opt value` and `--opt=value`, any order; the case record is then built inside Coq from the options the
        USER wrote (mkr_cli: absent = the documented default), so holds demands the noise variance documented for the
        user's options, not for what reached run; the genetic component of those cases comes from simulate_pt called with
        the documented reading of the options.  --region and --repeats (haplotypes + repeats) are used through both doors.
  run : PhenoSimulator.run called R times on an in-memory Genotypes object with the public rng replaced by a
        scripted recorder (returns a given noise vector, records loc/scale/size) and normalize_gts wrapped;
        a second simulator run with zero noise yields the genetic component; the phenotypes are then written
        with PhenoSimulator.write and read back with Phenotypes.read.  In a third of the cases the SAME simulator has
        already been used for 1-3 other calls of run() (same signature with the other trait type, other betas,
        normalisation flipped, other heritability/environment, a sub-list of the effects): the documented model is
        demanded of every call on a simulator, not only of the first one.
"""
import logging
import os
import shutil
import tempfile

import numpy as np

from . import coqlit as L
from .core import Relation, err_kind

_SC = float(os.environ.get("HV_A7_SCALE", "1"))  # development only: scale the budgets

PROP = "C09"
CLAIMED = True
COQ_MODULES = ["Stats", "StatsR", "C15_Model", "C15_Check", "C15_Proofs", "C09_Model", "C09_Check", "C09_Proofs",
               "C09_ProofsModel", "C09_ProofsStd", "C09_ProofsFloat", "C09_ProofsCli"]
PROPERTY_MODULE = "C09_Property"
# exactly as Print Assumptions prints them.
ALLOWED_AXIOMS = [
    # (1) the standard library's axioms of the real numbers (theorems over R: standardisation, rnd64)
    "ClassicalDedekindReals.sig_not_dec",
    "ClassicalDedekindReals.sig_forall_dec",
    "FunctionalExtensionality.functional_extensionality_dep",
    "Classical_Prop.classic",
    # (2) NOT axioms: Coq's kernel primitives (machine floats / 63-bit integers).  Print Assumptions lists them for every
    #     statement that mentions a float - all checker-soundness theorems do, the case records hold doubles
    "PrimFloat.float", "PrimFloat.abs", "PrimFloat.add", "PrimFloat.div", "PrimFloat.eqb", "PrimFloat.frshiftexp",
    "PrimFloat.ldshiftexp", "PrimFloat.ltb", "PrimFloat.mul", "PrimFloat.normfr_mantissa", "PrimFloat.of_uint63",
    "PrimFloat.opp",
    "PrimInt63.int", "PrimInt63.add", "PrimInt63.eqb", "PrimInt63.land", "PrimInt63.leb", "PrimInt63.lor", "PrimInt63.lsl",
    "PrimInt63.lsr", "PrimInt63.ltb", "PrimInt63.sub",
    # (3) the standard library's specification of those primitives against SpecFloat / Z (Floats.FloatAxioms, Uint63),
    #     used - through Flocq's IEEE754.PrimFloat bridge - by C09_k_of_floor, C09_case_count_from_K, C09_holds_case_count:
    #     the same facts that are trusted whenever k_of is evaluated by vm_compute
    "FloatAxioms.Prim2SF_SF2Prim", "FloatAxioms.Prim2SF_valid", "FloatAxioms.SF2Prim_Prim2SF", "FloatAxioms.mul_spec",
    "FloatAxioms.of_uint63_spec",
    "Uint63.add_spec", "Uint63.eqb_correct", "Uint63.eqb_refl", "Uint63.leb_spec", "Uint63.lor_spec", "Uint63.lsl_spec",
    "Uint63.lsr_spec", "Uint63.ltb_spec", "Uint63.of_to_Z", "Uint63.sub_spec",
]
RULE = (
    "run: dosage matrices of SNPs, haplotype pseudo-genotypes (uint8 or, as after check_biallelic, bool data) and repeat "
    "counts (up to 253 per allele; a class with 128..253 copies on BOTH strands so that the dosage exceeds 255) incl. "
    "constant columns, 0-4 effects incl. duplicate and absent IDs (once per run 256..300 effects), betas incl. 0, negative "
    "and sum beta^2 > 1, all combinations of {heritability, environment, normalize} x prevalence in {None, 0, K with K*n an "
    "integer +- 1 ulp, 0.29, 0.35, 0.999}, scripted noise from a small grid so that liabilities tie, 1-3 replicates (calls "
    "with the same signature on one simulator), in a third of the cases after 1-3 prior calls on the SAME simulator that "
    "differ in one respect (trait type only, betas, normalize, heritability/environment, sub-list of the effects); once per "
    "run 255/256/257 samples; 3 % prevalences outside [0,1) (1, >1, <0: compared with the model only). e2e: additionally "
    "repeats with 128..253 copies per allele, missing calls and (class tr-copy>253) repeat alleles too long for the uint8 "
    "store, --region (whole contig; for SNPs a window of the file), a second genotypes file with --repeats, no --seed; "
    "40 % through the simphenotype command line, every option absent / given / given with its documented default (-r 1, "
    "--normalize), --no-normalize alone in 30 % of those, samples and IDs as repeated options or files, 3 % option sets the "
    "command refuses (prevalence outside [0,1), --sample with --samples-file: compared with the model only). "
    "Non-trivial = at least one effect found and (a non-constant column or prevalence given). Distinct = distinct "
    "canonical JSON."
)
TRUSTED = [
    "numpy Generator.normal is replaced by a scripted recorder: 'eps is i.i.d. normal with mean 0 and the documented "
    "variance' is read structurally (exactly one rng.normal(0, sqrt(noise), n) draw per replicate from the simulator's one "
    "generator; loc, scale and size are all demanded by holds)",
    "np.argpartition's choice among tied liabilities is a contract (any top-k set); the check accepts every valid choice",
    "comparisons involving sqrt or a float sum use a 1e-9 tolerance relative to the magnitude of the operands; "
    "the case count floor(K*n) and the liabilities fl(g+eps) are evaluated bit-exactly with PrimFloat",
    "Coq's primitive floats/integers implement IEEE-754 binary64 / arithmetic mod 2^63 as the standard library specifies "
    "(FloatAxioms, Uint63 axioms): trusted by every vm_compute evaluation of k_of and assumed by C09_k_of_floor",
    "click's parsing of the command line (option names, FloatRange/IntRange, flag pairs) is not modelled: cli_defaults starts "
    "from the parsed options; that the harness's reading of 'what the user wrote' is click's is checked by agree (the "
    "arguments simulate_pt receives = cli_defaults of the options)",
    "tr_harmonizer / file loading are outside the model: the model starts from the dosage matrix the harness expects "
    "haptools to load (requested samples and variants in file order; repeat copy number = allele length / period)",
]
ASSUMPTIONS = [
    "genotype variant IDs pairwise distinct (otherwise index() raises; compared for agreement only)",
    "heritability in (0,1], environment >= 0, prevalence in [0,1) (other prevalences: agreement with the model only), "
    "n >= 1 samples, n < 2^53 in C09_k_of_floor",
    "the theorems over the reals (standardize_mean0_var1, zcol_exact_sound, k_of_floor) use the standard library's "
    "real-number axioms; k_of_floor / case_count_from_K / holds_case_count also the library's specification of the "
    "primitive floats and integers (Flocq bridge)",
    "missing calls and repeat alleles that cannot be stored: a ValueError is accepted (and expected), an answer is checked",
]

# A tandem-repeat allele with more than 253 copies cannot be stored in the uint8 genotype array (254/255 are the
# missing-data sentinels).  The tree as it is casts the copy number to uint8: 256 copies become 0, 300 become 44, and the
# phenotypes are computed from those values without any message (254/255 copies are reported as "missing").  With the switch
# on, the check demands a ValueError up front (fixes/C09_tr_copy_range.patch) or a correct answer; with it off (the tree before fix 1af7671; the switch is on by default now: the
# behaviour of the tree as it is) the loader is modelled as it behaves now (copy number mod 256) and the demand is not made.
# Also settable with HV_C09_STRICT_TR_RANGE=1.
STRICT_TR_RANGE = os.environ.get("HV_C09_STRICT_TR_RANGE", "1") == "1"

BETAS = [0.0, 0.1, -0.1, 0.25, 0.3, -0.3, 0.5, 0.6, 0.8, 1.0, 1.5, -2.0, 0.05, 0.001, 0.2, 0.7]
EPS = [0.0, 0.5, -0.5, 1.0, -1.0, 0.25, 2.0]


def chars(s):
    return L.zl([ord(c) for c in s])


def quiet_logger():
    lg = logging.Logger("hv_c09")
    lg.propagate = False
    lg.addHandler(logging.NullHandler())
    lg.setLevel(logging.WARNING)
    return lg


OUT_OF_DOMAIN_PREV = [1.0, 1.0000000000000002, 1.2, 1.5, 2.0, 3.0, -0.0, -0.1, -0.3, -0.5, -1.0, -1.5]


def prevalences(rng, n, outside=True):
    r = rng.random()
    if outside and r < 0.03:
        # outside [0,1): k = n (everybody), k > n or k < -n (argpartition raises), -n <= k < 0 (numpy counts from the end)
        return float(rng.choice(OUT_OF_DOMAIN_PREV))
    if r < 0.35:
        return None
    if r < 0.42:
        return 0.0
    if r < 0.7:
        # K*n an integer, +- 1 ulp
        k = int(rng.integers(0, n))
        K = k / n
        d = int(rng.integers(-1, 2))
        K = float(np.nextafter(K, 2.0)) if d > 0 else float(np.nextafter(K, -1.0)) if d < 0 else K
        return min(max(K, 0.0), float(np.nextafter(1.0, 0.0)))
    if r < 0.9:
        return float(rng.choice([0.29, 0.35, 0.999, 0.5, 1 / 3, 0.1, 0.07, 0.57, 0.9999999999999999]))
    return float(rng.random())


class Run(Relation):
    name = "run"
    coq_module = "C09_Check"
    coq_check = "check_run"
    coq_case_type = "rcase"
    coq_model = "model_run"
    coq_imports = ["Stats", "C15_Model", "C15_Check", "C09_Model"]
    budget = {"quick": max(1, int(1200 * _SC)), "thorough": 20000}
    max_cases_per_shard = 100
    anchors = [("haptools/sim_phenotype.py", "PhenoSimulator.run"), ("haptools/sim_phenotype.py", "PhenoSimulator.normalize_gts"),
               ("haptools/sim_phenotype.py", "PhenoSimulator.__init__"), ("haptools/data/phenotypes.py", "Phenotypes.append"),
               ("haptools/data/phenotypes.py", "Phenotypes.write")]

    def preamble(self):
        return "From Coq Require Import PrimFloat."

    def _column(self, rng, n):
        c = int(rng.integers(0, 7))
        if c == 6:
            # 128..253 copies on BOTH strands: every dosage is >= 256 (does not fit the uint8 the alleles are stored in)
            lo = int(rng.choice([128, 128, 200, 250]))
            return [[int(rng.integers(lo, 254)), int(rng.integers(lo, 254))] for _ in range(n)], "repeat-sum>=256"
        if c == 0:
            v = [int(rng.integers(0, 3))] * 2
            return [[v[0] // 2 + v[0] % 2, v[0] // 2] for _ in range(n)], "constant"
        if c in (1, 2):
            return [[int(rng.integers(0, 2)), int(rng.integers(0, 2))] for _ in range(n)], "snp/hap"
        if c == 3:
            base = int(rng.integers(0, 250))
            return [[base + int(rng.integers(0, 4)), base + int(rng.integers(0, 4))] for _ in range(n)], "repeat-count"
        if c == 4:
            return [[int(rng.integers(0, 254)), int(rng.integers(0, 254))] for _ in range(n)], "repeat-wide"
        a = [int(rng.integers(0, 2)), int(rng.integers(0, 2))]
        col = [list(a) for _ in range(n)]
        if n > 1:
            col[int(rng.integers(0, n))] = [1 - a[0], a[1]]
        return col, "one-sample-differs"

    def generate(self, rng, n_cases, tier):
        out = []
        for _ in range(n_cases):
            n = int(rng.choice([1, 2, 3, 3, 4, 5, 6, 7, 8, 10]))
            p = int(rng.integers(1, 6))
            gids = [f"v{j}" if rng.random() < 0.7 else f"H{j}" for j in range(p)]
            cols, labs = zip(*[self._column(rng, n) for _ in range(p)])
            if rng.random() < 0.25:
                # identical samples: the genetic component is constant / liabilities tie
                cols = [[list(c[0]) for _ in range(n)] for c in cols]
                labs = ["all-samples-identical"] * p
            gt = [[cols[j][i] for j in range(p)] for i in range(n)]
            kind = "wellformed"
            m = int(rng.choice([0, 1, 1, 2, 2, 3, 4]))
            eff = [[str(rng.choice(gids)), float(rng.choice(BETAS))] for _ in range(m)]
            if m and rng.random() < 0.5:
                # distinct IDs in genotype order or shuffled
                ids = [str(x) for x in rng.permutation(gids)[:m]]
                eff = [[ids[j % len(ids)], eff[j][1]] for j in range(m)]
            r = rng.random()
            if r < 0.2 and m:
                for j in range(m):
                    if rng.random() < 0.5:
                        eff[j][0] = str(rng.choice(["zz", "v9", "H77"]))
                kind = "absent-effect-id"
            elif r < 0.23 and p > 1:
                gids[-1] = gids[0]
                kind = "duplicate-genotype-id"
            if rng.random() < 0.1 and m >= 2:
                bs = [0.6, 0.8, 0.0, 0.0] if rng.random() < 0.5 else [1.0, 0.0, 0.0, 0.0]
                eff = [[eff[j][0], bs[j]] for j in range(m)]
            h2 = None if rng.random() < 0.45 else float(rng.choice([0.1, 0.3, 0.5, 0.9999, 1.0, 0.75]))
            env = None if rng.random() < 0.55 else float(rng.choice([0.0, 0.5, 1.0, 2.5, 1e-3]))
            R = int(rng.choice([1, 1, 2, 3]))
            eps = [[float(rng.choice(EPS)) if rng.random() < 0.7 else float(np.round(rng.normal(), 3)) for _ in range(n)]
                   for _ in range(R)]
            case = {"gids": gids, "gt": gt, "phase": bool(rng.random() < 0.3), "eff": eff, "h2": h2, "env": env,
                    "norm": bool(rng.random() < 0.6), "prev": prevalences(rng, n), "eps": eps, "kind": kind,
                    "labs": sorted(set(labs))}
            if all(a <= 1 for row in gt for ab in row for a in ab) and rng.random() < 0.3:
                case["dtype"] = "bool"      # Genotypes.data after check_biallelic()
            if rng.random() < 0.35:
                case["hist"] = self._history(rng, case, n)
            out.append(case)
        # width boundaries (few: each costs a large literal): 255 / 256 / 257 samples, 256..300 effects
        for _ in range(1 if tier == "quick" else 6):
            out.append(self._wide_samples(rng))
            out.append(self._many_effects(rng))
        return out

    @staticmethod
    def _wide_samples(rng):
        n = int(rng.choice([255, 256, 257]))
        big = bool(rng.random() < 0.5)
        col = [[int(rng.integers(128, 254)), int(rng.integers(128, 254))] if big else
               [int(rng.integers(0, 2)), int(rng.integers(0, 2))] for _ in range(n)]
        prev = None if rng.random() < 0.3 else float(rng.choice([0.5, 0.999, 1 / 256, 255 / 256, 0.29]))
        return {"gids": ["v0"], "gt": [[c] for c in col], "phase": False, "eff": [["v0", float(rng.choice([0.5, -0.25, 1.0]))]],
                "h2": None if rng.random() < 0.5 else 0.5, "env": None, "norm": bool(rng.random() < 0.5), "prev": prev,
                "eps": [[float(rng.choice(EPS)) for _ in range(n)]], "kind": "width-samples",
                "labs": ["repeat-sum>=256" if big else "snp/hap", f"n={n}"]}

    @staticmethod
    def _many_effects(rng):
        n, p = 2, int(rng.integers(1, 4))
        m = int(rng.choice([255, 256, 257, 300]))
        gids = [f"v{j}" for j in range(p)]
        gt = [[[int(rng.integers(0, 2)), int(rng.integers(0, 2))] for _ in range(p)] for _ in range(n)]
        eff = [[gids[int(rng.integers(0, p))], float(rng.choice([0.0, 0.001, -0.001, 0.05]))] for _ in range(m)]
        return {"gids": gids, "gt": gt, "phase": False, "eff": eff, "h2": None, "env": None if rng.random() < 0.5 else 1.0,
                "norm": False, "prev": None, "eps": [[0.5, -0.5]], "kind": "width-effects",
                "labs": ["snp/hap", f"effects={m}"]}

    @staticmethod
    def _history(rng, case, n):
        """earlier calls of run() on the same simulator: each differs from the observed calls in ONE respect.  Their trait
        type is the other one (quantitative <-> case/control), so that their columns never share a name with the
        observed ones and the written header of the observed columns is unique_names of the observed names alone."""
        hist = []
        for _ in range(int(rng.choice([1, 1, 2, 3]))):
            h = {"eff": [list(e) for e in case["eff"]], "h2": case["h2"], "env": case["env"], "norm": case["norm"]}
            what = str(rng.choice(["same-signature", "betas", "normalize", "h2-env", "sub-effects"]))
            if what == "betas":
                h["eff"] = [[e[0], float(rng.choice(BETAS))] for e in h["eff"]]
            elif what == "normalize":
                h["norm"] = not h["norm"]
            elif what == "h2-env":
                h["h2"] = None if rng.random() < 0.3 else float(rng.choice([0.1, 0.3, 0.5, 1.0, 0.75]))
                h["env"] = None if rng.random() < 0.5 else float(rng.choice([0.0, 0.5, 1.0, 2.5]))
            elif what == "sub-effects" and h["eff"]:
                h["eff"] = h["eff"][1:] if rng.random() < 0.5 else h["eff"][::-1]
            h["what"] = what
            h["eps"] = [float(rng.choice(EPS[1:])) for _ in range(n)]
            hist.append(h)
        return hist

    def exhaustive(self, tier):
        """small scope: 3 samples x 2 variants, every effect list over {v0, v1, absent} of length <= 2 (order and
        duplicates included), all 2^3 {h2, env, normalize} combinations, prevalences around K*n = 1 and 2, two noise vectors"""
        import itertools

        gt = [[[0, 0], [1, 0]], [[1, 0], [1, 0]], [[1, 1], [1, 0]]]  # v0 varies, v1 is constant
        third = 1 / 3
        prevs = [None, 0.0, third, float(np.nextafter(third, 1)), float(np.nextafter(third, 0)), 2 / 3, 0.999]
        effs = [[], [["v0", 0.5]], [["v1", 0.5]], [["zz", 0.5]], [["v0", 0.5], ["v1", 0.25]], [["v1", 0.25], ["v0", 0.5]],
                [["v0", 0.5], ["zz", 0.25]], [["zz", 0.25], ["v0", 0.5]], [["v0", 0.5], ["v0", 0.25]], [["v0", 0.8], ["v1", 0.6]]]
        out = []
        for eff, h2, env, norm, prev, eps in itertools.product(effs, [None, 0.5], [None, 1.0], [False, True], prevs,
                                                               [[0.0, 0.0, 0.0], [0.5, 0.0, -0.5]]):
            out.append({"gids": ["v0", "v1"], "gt": gt, "phase": False, "eff": eff, "h2": h2, "env": env, "norm": norm,
                        "prev": prev, "eps": [eps], "kind": "exhaustive", "labs": ["snp/hap", "constant"]})
        return out

    def run_impl(self, inp):
        import warnings
        from pathlib import Path

        from haptools.data import Genotypes, Phenotypes
        from haptools.sim_phenotype import Effect, PhenoSimulator

        n, p = len(inp["gt"]), len(inp["gids"])
        d = tempfile.mkdtemp(prefix="hv_c09_")
        try:
            g = Genotypes(fname=None, log=quiet_logger())
            g.samples = tuple(f"s{i}" for i in range(n))
            g.variants = np.array([(ID, "1", j + 1) for j, ID in enumerate(inp["gids"])], dtype=g.variants.dtype)
            arr = np.zeros((n, p, 3 if inp["phase"] else 2), dtype=np.uint8)
            arr[:, :, :2] = np.array(inp["gt"], dtype=np.uint8).reshape(n, p, 2)
            if inp["phase"]:
                arr[:, :, 2] = 1
            if inp.get("dtype") == "bool":
                arr = arr.astype(np.bool_)
            g.data = arr
            effects = [Effect(id=e[0], beta=e[1]) for e in inp["eff"]]

            class Rec:
                def __init__(self, vecs):
                    self.vecs = list(vecs)
                    self.calls = []

                def normal(self, loc=0.0, scale=1.0, size=None):
                    v = np.array(self.vecs[len(self.calls)], dtype=np.float64)
                    sz = size if isinstance(size, (tuple, list)) else (size,)
                    self.calls.append([float(loc), float(scale), int(sz[0]) if len(sz) == 1 and sz[0] is not None else -1])
                    return v.copy()

            fn = os.path.join(d, "out.pheno")
            with warnings.catch_warnings(), np.errstate(all="ignore"):
                warnings.simplefilter("ignore")
                try:
                    # (1) the genetic component: one quantitative run with zero noise
                    g0 = Genotypes(fname=None, log=quiet_logger())
                    g0.samples, g0.variants, g0.data = g.samples, g.variants, g.data
                    ps0 = PhenoSimulator(g0, output=Path(fn + ".0"), seed=1, log=quiet_logger())
                    ps0.rng = Rec([[0.0] * n])
                    gen = ps0.run(effects, inp["h2"], None, inp["norm"], inp["env"])
                    # (2) the R replicates
                    ps = PhenoSimulator(g, output=Path(fn), seed=1, log=quiet_logger())
                    rec = Rec(inp["eps"])
                    ps.rng = rec
                    seen = {"d": None, "z": None, "n": 0}
                    orig = ps.normalize_gts

                    def wrapped(gts, ids):
                        z = orig(gts, ids)
                        seen["d"] = np.asarray(gts).astype(np.int64).tolist()
                        seen["z"] = np.asarray(z, dtype=np.float64).tolist()
                        seen["n"] += 1
                        return z

                    ps.normalize_gts = wrapped
                    # (2a) whatever the same simulator was used for before
                    hist = inp.get("hist", [])
                    if hist:
                        ps.rng = Rec([h["eps"] for h in hist])
                        hprev = 0.5 if inp["prev"] is None else None     # the other trait type: other column names
                        for h in hist:
                            ps.run([Effect(id=e[0], beta=e[1]) for e in h["eff"]], h["h2"], hprev, h["norm"], h["env"])
                        ps.rng = rec
                        seen.update(d=None, z=None, n=0)
                    skip = 0 if ps.phens.data is None else len(ps.phens.names)
                    pts = []
                    for _ in inp["eps"]:
                        pts.append([float(x) for x in np.asarray(ps.run(effects, inp["h2"], inp["prev"], inp["norm"], inp["env"]))])
                    if len(rec.calls) != len(inp["eps"]) or (inp["norm"] and seen["n"] != len(inp["eps"])):
                        return {"unobserved": "rng.normal / normalize_gts not called once per replicate"}
                    names = [str(x) for x in ps.phens.names][skip:]
                    data = np.asarray(ps.phens.data, dtype=np.float64)[:, skip:].tolist()
                    same = tuple(ps.phens.samples) == tuple(g.samples)
                    ps.write()
                    q = Phenotypes(fn, log=quiet_logger())
                    q.read()
                    same = same and tuple(str(x) for x in q.samples) == tuple(g.samples)
                    return {"ok": {"d": seen["d"], "z": seen["z"], "g": [float(x) for x in gen], "calls": rec.calls, "pts": pts,
                                   "names": names, "same": bool(same), "data": data,
                                   "header": [str(x) for x in q.names][skip:],
                                   "read": np.asarray(q.data, dtype=np.float64)[:, skip:].tolist()}}
                except Exception as e:  # noqa
                    return {"err": err_kind(e), "cls": type(e).__name__, "msg": str(e)[:200]}
        finally:
            shutil.rmtree(d, ignore_errors=True)

    def encode(self, inp, obs):
        H = L.hexfloat
        fl = lambda xs: L.lst(xs, H)
        fm = lambda rows: L.lst(rows, fl)
        gt = L.lst(inp["gt"], lambda row: L.lst(row, lambda ab: f"({L.z(ab[0])}, {L.z(ab[1])})"))
        eff = L.lst(inp["eff"], lambda e: f"({chars(e[0])}, {H(e[1])})")
        if "ok" in obs:
            o = obs["ok"]
            reps = L.lst(list(zip(inp["eps"], o["calls"], o["pts"])),
                         lambda t: f"(mkrep {fl(t[0])} {H(t[1][0])} {H(t[1][1])} {L.z(t[1][2])} {fl(t[2])})")
            ot = (f"(Ok (mkobs {L.opt(o['d'], lambda m: L.lst(m, L.zl))} {L.opt(o['z'], fm)} {fl(o['g'])} {reps} "
                  f"{L.lst(o['names'], chars)} {L.b(o['same'])} {fm(o['data'])} {L.lst(o['header'], chars)} {fm(o['read'])}))")
        elif "unobserved" in obs:
            ot = "(Err 97)"
        else:
            ot = f"(Err {L.z(obs.get('err', obs.get('kind', 99)))})"
        refuse = L.opt(inp.get('refuse'), lambda r: f"({L.z(r[0])}, {L.b(r[1])})")
        cli = inp.get("cli")
        if cli is not None:
            # a command-line case: the record is built INSIDE Coq from the options the user wrote (mkr_cli: an absent
            # option has its documented default), never from what reached simulate_pt / run
            oz = lambda x: L.opt(x, L.z)
            opts = (f"(mkopts {oz(cli['reps'])} {L.opt(cli['env'], H)} {L.opt(cli['h2'], H)} {L.opt(cli['prev'], H)} "
                    f"{L.opt(cli['norm'], L.b)} {oz(cli['seed'])} {oz(cli['chunk'])})")
            a = cli.get("args")
            args = L.opt(a, lambda a: (f"(mkargs {L.z(a['reps'])} {L.opt(a['env'], H)} {L.opt(a['h2'], H)} {L.opt(a['prev'], H)} "
                                       f"{L.b(a['norm'])} {oz(a['seed'])} {oz(a['chunk'])})"))
            return (f"(mkr_cli {L.lst(inp['gids'], chars)} {gt} {eff} (mkcli {opts} {L.b(cli['two_sources'])} {args}) "
                    f"{refuse} {ot})")
        return (f"(mkr {L.lst(inp['gids'], chars)} {gt} {eff} {L.opt(inp['h2'], H)} {L.opt(inp['env'], H)} "
                f"{L.b(inp['norm'])} {L.opt(inp['prev'], H)} {L.opt(inp.get('reps'), L.z)} None {refuse} {ot})")

    def _found(self, inp):
        return [e for e in inp["eff"] if e[0] in inp["gids"]]

    def nontrivial(self, inp, obs):
        return bool(self._found(inp)) and (inp["prev"] is not None or any(l != "constant" for l in inp["labs"]))

    def classes(self, inp, obs):
        out = [inp["kind"], f"h2={'given' if inp['h2'] is not None else 'none'}", f"env={'given' if inp['env'] is not None else 'none'}",
               "normalize" if inp["norm"] else "raw", f"R={len(inp['eps'])}",
               f"effects={len(inp['eff'])}" if len(inp["eff"]) <= 4 else "effects>=255"] + [l for l in inp["labs"] if not l.startswith("effects=")]
        if inp.get("dtype") == "bool":
            out.append("bool-data")
        out.append(f"prior-calls-on-the-simulator={len(inp.get('hist', []))}")
        out += ["prior-call:" + h["what"] for h in inp.get("hist", [])]
        if inp["prev"] is None:
            out.append("quantitative")
        else:
            n = len(inp["gt"])
            kn = inp["prev"] * n
            out.append("K-outside-[0,1)" if not 0 <= inp["prev"] < 1 else
                       "K=0" if inp["prev"] == 0 else "K*n-integer" if kn == int(kn) else
                       "K*n-within-1ulp-of-integer" if abs(kn - round(kn)) < 1e-12 else "K*n-fractional")
        if sum(e[1] ** 2 for e in inp["eff"]) > 1:
            out.append("sum-beta2>1")
        if len(set(e[0] for e in inp["eff"])) < len(inp["eff"]):
            out.append("duplicate-effect-id")
        if "ok" in obs:
            o = obs["ok"]
            if len(set(o["g"])) == 1 and len(o["g"]) > 1:
                out.append("constant-genetic-component")
            if inp["prev"] is not None:
                for e, pt in zip(inp["eps"], o["pts"]):
                    li = [a + b for a, b in zip(o["g"], e)]
                    ca = [l for l, c in zip(li, pt) if c]
                    co = [l for l, c in zip(li, pt) if not c]
                    if ca and co and min(ca) == max(co):
                        out.append("tie-at-threshold")
                        break
        else:
            out.append(f"err{obs.get('err', 'unobserved')}")
        return out

    def shrink(self, inp):
        n, p = len(inp["gt"]), len(inp["gids"])
        hist = inp.get("hist", [])
        if hist:
            yield {k: v for k, v in inp.items() if k != "hist"}
            for j in range(len(hist)):
                if len(hist) > 1:
                    yield dict(inp, hist=hist[:j] + hist[j + 1:])
        if len(inp["eps"]) > 1:
            yield dict(inp, eps=inp["eps"][:1])
        for j in range(len(inp["eff"])):
            yield dict(inp, eff=inp["eff"][:j] + inp["eff"][j + 1:])
        for j in range(p):
            if p > 1:
                yield dict(inp, gids=inp["gids"][:j] + inp["gids"][j + 1:], gt=[r[:j] + r[j + 1:] for r in inp["gt"]])
        for i in range(n):
            if n > 1:
                c = dict(inp, gt=inp["gt"][:i] + inp["gt"][i + 1:], eps=[e[:i] + e[i + 1:] for e in inp["eps"]])
                if hist:
                    c["hist"] = [dict(h, eps=h["eps"][:i] + h["eps"][i + 1:]) for h in hist]
                yield c
        for key in ("h2", "env", "prev"):
            if inp[key] is not None:
                yield dict(inp, **{key: None})
        if inp["norm"]:
            yield dict(inp, norm=False)
        if inp["phase"]:
            yield dict(inp, phase=False)
        if any(x != 0 for e in inp["eps"] for x in e):
            yield dict(inp, eps=[[0.0] * n for _ in inp["eps"]])
        for j, e in enumerate(inp["eff"]):
            if e[1] not in (0.5, 0.25):
                yield dict(inp, eff=inp["eff"][:j] + [[e[0], 0.5 if j % 2 == 0 else 0.25]] + inp["eff"][j + 1:])

    def mutate(self, inp, rng):
        n = len(inp["gt"])
        for _ in range(6):
            yield dict(inp, prev=prevalences(rng, n))
        for h2 in (None, 0.5, 1.0):
            for env in (None, 0.0, 1.0):
                yield dict(inp, h2=h2, env=env)

    def signature(self, inp, obs):
        absent = any(e[0] not in inp["gids"] for e in inp["eff"])
        if "ok" not in obs:
            return f"run raised {obs.get('cls', obs.get('__exc__', '?'))}" + (" with an effect ID absent from the genotypes" if absent else "")
        if absent:
            return "run with an effect ID absent from the genotypes: betas applied to other columns"
        o = obs["ok"]
        if len(set(o["g"])) == 1 and len(o["g"]) > 1 and inp["env"] is None and inp["h2"] is not None:
            return "run constant genetic component: noise variance not v=1"
        if len(set(o["header"])) < len(o["header"]):
            return "run replicate columns written with colliding names"
        return "run linear model / noise variance / threshold / columns differ from the documented ones"


# ---------------------------------------------------------------------------
# end to end: simulate_pt on written VCF.gz(+tbi) / PGEN and .snplist / .hap files


def write_vcf(path_gz, samples, variants, gt, tr=False):
    """variants: (chrom, pos, id, ref, alt, info); bgzip + tabix with pysam"""
    import pysam

    plain = path_gz[:-3]
    with open(plain, "w") as f:
        f.write("##fileformat=VCFv4.2\n")
        if tr:
            f.write('##command=HipSTR-v0.7 --test\n##INFO=<ID=START,Number=1,Type=Integer,Description="s">\n'
                    '##INFO=<ID=END,Number=1,Type=Integer,Description="e">\n'
                    '##INFO=<ID=PERIOD,Number=1,Type=Integer,Description="p">\n')
        f.write('##FORMAT=<ID=GT,Number=1,Type=String,Description="Genotype">\n')
        for c in sorted(set(v[0] for v in variants)):
            f.write(f"##contig=<ID={c}>\n")
        f.write("#CHROM\tPOS\tID\tREF\tALT\tQUAL\tFILTER\tINFO\tFORMAT\t" + "\t".join(samples) + "\n")
        for j, v in enumerate(variants):
            f.write(f"{v[0]}\t{v[1]}\t{v[2]}\t{v[3]}\t{v[4]}\t.\t.\t{v[5]}\tGT\t"
                    + "\t".join("|".join("." if a < 0 else str(a) for a in gt[i][j]) for i in range(len(samples))) + "\n")
    pysam.tabix_compress(plain, path_gz, force=True)
    pysam.tabix_index(path_gz, preset="vcf", force=True)
    os.unlink(plain)


def write_pgen(prefix, samples, variants, gt):
    import pgenlib

    with open(prefix + ".psam", "w") as f:
        f.write("#IID\n" + "\n".join(samples) + "\n")
    with open(prefix + ".pvar", "w") as f:
        f.write("##fileformat=VCFv4.2\n")
        for c in sorted(set(v[0] for v in variants)):
            f.write(f"##contig=<ID={c}>\n")
        f.write("#CHROM\tPOS\tID\tREF\tALT\tQUAL\tFILTER\tINFO\n")
        for v in variants:
            f.write(f"{v[0]}\t{v[1]}\t{v[2]}\t{v[3]}\t{v[4]}\t.\t.\t.\n")
    w = pgenlib.PgenWriter(filename=(prefix + ".pgen").encode(), sample_ct=len(samples), variant_ct=len(variants),
                           nonref_flags=False, hardcall_phase_present=True)
    arr = np.array(gt, dtype=np.int32)
    arr[arr < 0] = -9
    for j in range(len(variants)):
        w.append_alleles(np.ascontiguousarray(arr[:, j, :].reshape(-1)), all_phased=True)
    w.close()


MOTIFS = ["A", "AC", "GTT", "AAAG"]


class E2E(Run):
    name = "e2e"
    budget = {"quick": max(1, int(300 * _SC)), "thorough": 3000}
    timeout_per_case = 180
    anchors = [("haptools/sim_phenotype.py", "simulate_pt"), ("haptools/sim_phenotype.py", "PhenoSimulator.run"),
               ("haptools/sim_phenotype.py", "PhenoSimulator.write"), ("haptools/sim_phenotype.py", "Effect.from_hap_spec")]
    if os.environ.get("HV_C09_NO_CLI_ANCHOR") != "1":    # development only (the anchor is new: `./check --record-anchors C09`)
        anchors.append(("haptools/__main__.py", "simphenotype"))
    CLI_SHARE = 0.4

    @staticmethod
    def _snp_block(rng, n, ids, pos):
        p = len(ids)
        variants = [["1", pos[j], ids[j], "A", "T", "."] for j in range(p)]
        gt = [[[int(rng.integers(0, 2)), int(rng.integers(0, 2))] for _ in range(p)] for _ in range(n)]
        if rng.random() < 0.2:
            j = int(rng.integers(0, p))
            for i in range(n):
                gt[i][j] = [1, 0]  # a constant column
        return variants, gt, [[list(c) for c in row] for row in gt]

    @staticmethod
    def _tr_block(rng, n, ids, pos):
        p = len(ids)
        variants, counts = [], []
        r = rng.random()
        regime = "small" if r < 0.6 else "big" if r < 0.9 else "over"
        for j in range(p):
            m = str(rng.choice(MOTIFS)) if regime == "small" else "A"
            if regime == "small" or (j and rng.random() < 0.5):
                cts = sorted(set(int(x) for x in rng.integers(1, 40, size=int(rng.integers(2, 5)))))
            elif regime == "big":
                # 128..253 copies: every dosage of two such alleles exceeds 255
                cts = sorted(set(int(x) for x in rng.choice([128, 129, 200, 252, 253, int(rng.integers(128, 254))],
                                                            size=int(rng.integers(2, 4)))))
            else:
                # alleles that do not fit the uint8 store (254, 255: the sentinels; 256.. wrap around)
                cts = sorted(set([int(rng.integers(1, 40))] + [int(x) for x in rng.choice(
                    [254, 255, 256, 257, 300, 509, 510, 512, int(rng.integers(256, 600))], size=int(rng.integers(1, 3)))]))
            if len(cts) < 2:
                cts = [cts[0], cts[0] + 1]
            cts = [int(x) for x in rng.permutation(cts)]
            variants.append(["1", pos[j], ids[j], m * cts[0], ",".join(m * c for c in cts[1:]),
                             f"START={pos[j]};END={pos[j] + len(m) * cts[0] - 1};PERIOD={len(m)}"])
            counts.append(cts)
        gt = [[[int(rng.integers(0, len(counts[j]))), int(rng.integers(0, len(counts[j])))] for j in range(p)] for _ in range(n)]
        vals = [[[counts[j][a] for a in gt[i][j]] for j in range(p)] for i in range(n)]
        return variants, gt, vals

    def generate(self, rng, n_cases, tier):
        out = []
        for _ in range(n_cases):
            n = int(rng.integers(2, 9))
            mode = str(rng.choice(["snplist", "snplist", "snplist", "hap", "hap", "hap", "repeat", "repeat", "mixed"]))
            fmt = "vcf" if mode == "repeat" or rng.random() < 0.55 else "pgen"
            samples = [f"S{i}" for i in rng.permutation(20)[:n]]
            nh = None
            if mode == "mixed":
                # haplotype pseudo-genotypes in GENOTYPES and repeats in a second file given with --repeats
                nh, nt = int(rng.integers(1, 4)), int(rng.integers(1, 3))
                p = nh + nt
                pp = [int(x) for x in rng.permutation(rng.choice(np.arange(100, 5000), size=p, replace=False))]
                v1, g1, x1 = self._snp_block(rng, n, [f"H{j}" for j in range(nh)], sorted(pp[:nh]))
                v2, g2, x2 = self._tr_block(rng, n, [f"tr{j}" for j in range(nt)], sorted(pp[nh:]))
                variants = v1 + v2
                gt = [a + b for a, b in zip(g1, g2)]
                vals = [a + b for a, b in zip(x1, x2)]
            else:
                p = int(rng.integers(1, 6))
                pos = sorted(int(x) for x in rng.choice(np.arange(100, 5000), size=p, replace=False))
                if mode == "repeat":
                    variants, gt, vals = self._tr_block(rng, n, [f"tr{j}" for j in range(p)], pos)
                else:
                    pre = "v" if mode == "snplist" else "H"
                    variants, gt, vals = self._snp_block(rng, n, [f"{pre}{j}" for j in range(p)], pos)
            if rng.random() < 0.08:
                # a missing call (one or both alleles) somewhere in the file
                i, j = int(rng.integers(0, n)), int(rng.integers(0, p))
                in_vcf = fmt == "vcf" or (nh is not None and j >= nh)
                which = int(rng.integers(0, 3)) if in_vcf else 2   # PGEN cannot hold a half-missing call
                for a in ((0,), (1,), (0, 1))[which]:
                    gt[i][j][a] = -1
                    vals[i][j][a] = -1
            ids_all = [v[2] for v in variants]
            m = int(rng.integers(1, p + 1))
            eff_ids = [str(x) for x in rng.permutation(ids_all)[:m]]
            if mode == "mixed":
                # at least one haplotype and one repeat among the effects (otherwise --repeats is an error of use)
                for want in (ids_all[:nh], ids_all[nh:]):
                    if not set(eff_ids) & set(want):
                        eff_ids.insert(int(rng.integers(0, len(eff_ids) + 1)), str(rng.choice(want)))
            if rng.random() < 0.25:
                eff_ids.insert(int(rng.integers(0, len(eff_ids) + 1)), "absent1")
            if mode == "snplist" and rng.random() < 0.1:
                eff_ids.append(eff_ids[0])  # the same SNP listed twice
            effects = [[e, float(np.round(float(rng.choice(BETAS)), 2))] for e in eff_ids]
            ids = None
            if rng.random() < 0.35:
                known = [e for e in eff_ids if e in ids_all]
                k = int(rng.integers(1, len(known) + 1))
                ids = sorted(set(str(x) for x in rng.permutation(known)[:k]))
                if mode == "mixed":
                    for want in (ids_all[:nh], ids_all[nh:]):
                        if not set(ids) & set(want):
                            ids.append(sorted(set(known) & set(want))[0])
                    ids = sorted(set(ids))
                if mode == "snplist" and rng.random() < 0.4:
                    ids.append("unknownID")
            sel = None
            if rng.random() < 0.4:
                k = int(rng.integers(1, n + 1))
                sel = [str(x) for x in rng.permutation(samples)[:k]] + (["nobody"] if rng.random() < 0.3 else [])
            # --region: the whole contig (any mode) or, for SNPs, a window of the file that keeps at least one causal SNP
            region = None
            r = rng.random()
            if r < 0.12:
                region = {"s": "1"}
            elif r < 0.3 and mode == "snplist":
                wanted = [j for j, v in enumerate(variants) if v[2] in (ids if ids is not None else eff_ids)]
                j = int(rng.choice(wanted))
                lo, hi = int(rng.integers(0, j + 1)), int(rng.integers(j, p))
                below = variants[lo - 1][1] if lo > 0 else 0
                above = variants[hi + 1][1] if hi + 1 < p else 10 ** 6
                a = variants[lo][1] - int(rng.integers(0, min(3, variants[lo][1] - below)))
                b = variants[hi][1] + int(rng.integers(0, min(3, above - variants[hi][1])))
                region = {"s": f"1:{a}-{b}", "lo": a, "hi": b}
            case = {"mode": mode, "fmt": fmt, "samples": samples, "variants": variants, "gt": gt, "vals": vals, "nh": nh,
                    "effects": effects, "ids": ids, "sel": sel, "R": int(rng.choice([1, 2, 3, 4])),
                    "h2": None if rng.random() < 0.45 else float(rng.choice([0.1, 0.3, 0.5, 1.0, 0.75])),
                    "env": None if rng.random() < 0.55 else float(rng.choice([0.0, 0.5, 1.0, 2.5])),
                    "norm": bool(rng.random() < 0.6), "prev": prevalences(rng, len(sel) if sel else n) if rng.random() < 0.5 else None,
                    "seed": None if rng.random() < 0.1 else int(rng.choice([0, 1, 42, 2**32 - 1])),
                    "chunk": None if rng.random() < 0.5 else int(rng.integers(1, 4)), "region": region, "cli": None}
            if rng.random() < self.CLI_SHARE:
                self._through_cli(rng, case)
            out.append(case)
        return out

    @staticmethod
    def _through_cli(rng, case):
        """run the case through `haptools simphenotype`: how every option is written, with the DEFAULT paths (option
        absent although its value is the documented default / option given explicitly with that value) at high rates"""
        if rng.random() < 0.5:
            case["R"] = 1
        if rng.random() < 0.35:
            case["seed"] = None
        if rng.random() < 0.3:
            # the option combination where the command itself has something to say: --no-normalize alone
            case["norm"], case["h2"], case["env"] = False, None, None
        case["cli"] = {
            "reps": "absent" if case["R"] == 1 and rng.random() < 0.5 else "given",      # -r 1 == no -r
            "norm": "absent" if case["norm"] and rng.random() < 0.5 else "given",       # --normalize == no flag
            "ids": str(rng.choice(["opt", "file"])),                                     # -i ... / --ids-file
            "sel": "both" if case["sel"] and rng.random() < 0.08 else str(rng.choice(["opt", "file"])),
            "verb": [None, None, "DEBUG", "ERROR", "CRITICAL"][int(rng.integers(0, 5))],
            "spell": int(rng.integers(0, 2 ** 30)),   # short / long names, `--opt value` / `--opt=value`, order of the options
        }

    def exhaustive(self, tier):
        return []

    @staticmethod
    def cli_view(inp):
        """what the user wrote, option by option (None = absent); consistent whatever a shrink step did to the values"""
        c = inp["cli"]
        return {"reps": None if c["reps"] == "absent" and inp["R"] == 1 else inp["R"], "env": inp["env"], "h2": inp["h2"],
                "prev": inp["prev"], "norm": None if c["norm"] == "absent" and inp["norm"] else inp["norm"],
                "seed": inp["seed"], "chunk": inp["chunk"], "two_sources": bool(c["sel"] == "both" and inp["sel"])}

    @classmethod
    def argv(cls, inp, gfile, efile, rfile, d, out):
        """the command line of a cli case"""
        import random

        c, u = inp["cli"], cls.cli_view(inp)
        rnd = random.Random(c["spell"])
        opts = []

        def add(short, long, val=None):
            name = short if short and rnd.random() < 0.5 else long
            if val is None:
                opts.append([name])
            elif name.startswith("--") and (rnd.random() < 0.3 or str(val).startswith("-")):
                opts.append([f"{name}={val}"])
            elif str(val).startswith("-"):
                opts.append([f"{long}={val}"])
            else:
                opts.append([name, str(val)])

        if u["reps"] is not None:
            add("-r", "--replications", u["reps"])
        if u["env"] is not None:
            add(None, "--environment", repr(u["env"]))
        if u["h2"] is not None:
            add("-h", "--heritability", repr(u["h2"]))
        if u["prev"] is not None:
            add("-p", "--prevalence", repr(u["prev"]))
        if u["norm"] is not None:
            add(None, "--normalize" if u["norm"] else "--no-normalize")
        if inp.get("region"):
            add(None, "--region", inp["region"]["s"])
        if inp["sel"] is not None:
            how = c["sel"]
            if how in ("opt", "both"):
                for s in inp["sel"]:
                    add("-s", "--sample", s)
            if how in ("file", "both"):
                fn = os.path.join(d, "samples.txt")
                with open(fn, "w") as f:
                    f.write("".join(s + "\n" for s in inp["sel"]))
                add("-S", "--samples-file", fn)
        if inp["ids"] is not None:
            if c["ids"] == "opt":
                for s in inp["ids"]:
                    add("-i", "--id", s)
            else:
                fn = os.path.join(d, "ids.txt")
                with open(fn, "w") as f:
                    f.write("".join(s + "\n" for s in inp["ids"]))
                add("-I", "--ids-file", fn)
        if u["chunk"] is not None:
            add("-c", "--chunk-size", u["chunk"])
        if rfile is not None:
            add(None, "--repeats", rfile)
        if u["seed"] is not None:
            add(None, "--seed", u["seed"])
        if c.get("verb"):
            add("-v", "--verbosity", c["verb"])
        add("-o", "--output", out)   # always: the default is the process's real stdout
        rnd.shuffle(opts)
        k = rnd.choice([0, len(opts), rnd.randint(0, len(opts))])     # options before, after and around the two arguments
        flat = lambda xs: [t for o in xs for t in o]
        return ["simphenotype"] + flat(opts[:k]) + [gfile, efile] + flat(opts[k:])

    @staticmethod
    def expected(inp):
        """what simulate_pt loads: requested samples/variants in FILE order (with --repeats: the variants of GENOTYPES,
        then those of the repeats file); effects in list order"""
        eff = [e for e in inp["effects"] if inp["ids"] is None or e[0] in inp["ids"]]
        wanted = set(inp["ids"]) if inp["ids"] is not None else set(e[0] for e in inp["effects"])
        reg = inp.get("region") or {}
        cols = [j for j, v in enumerate(inp["variants"]) if v[2] in wanted and ("lo" not in reg or reg["lo"] <= v[1] <= reg["hi"])]
        rows = [i for i, s in enumerate(inp["samples"]) if inp["sel"] is None or s in inp["sel"]]
        gt = [[list(inp["vals"][i][j]) for j in cols] for i in rows]
        refuse = None
        cells = [a for row in gt for c in row for a in c]
        if any(a < 0 for a in cells):
            refuse = [1, False]                     # check_missing raises ValueError
            gt = [[[max(a, 0) for a in c] for c in row] for row in gt]
        elif any(a > 253 for a in cells):
            if STRICT_TR_RANGE:
                refuse = [1, True]                  # must be refused; an answer is checked against the true copy numbers
            else:
                # the tree as it is: the copy number is cast to uint8; 254/255 then read as "missing"
                gt = [[[a % 256 for a in c] for c in row] for row in gt]
                if any(a >= 254 for row in gt for c in row for a in c):
                    refuse = [1, False]
        return {"gids": [inp["variants"][j][2] for j in cols], "samples": [inp["samples"][i] for i in rows],
                "gt": gt, "eff": eff, "refuse": refuse}

    def run_impl(self, inp):
        import inspect
        import warnings
        from pathlib import Path

        import haptools.sim_phenotype as sp

        d = tempfile.mkdtemp(prefix="hv_c09e_")
        real_rng = np.random.default_rng
        orig_write, orig_norm, orig_sim = sp.PhenoSimulator.write, sp.PhenoSimulator.normalize_gts, sp.simulate_pt
        cli = inp.get("cli")
        try:
            nh = inp.get("nh")
            hv = inp["variants"] if nh is None else inp["variants"][:nh]
            hgt = inp["gt"] if nh is None else [row[:nh] for row in inp["gt"]]
            if inp["fmt"] == "vcf":
                gfile = os.path.join(d, "g.vcf.gz")
                write_vcf(gfile, inp["samples"], hv, hgt, tr=inp["mode"] == "repeat")
            else:
                gfile = os.path.join(d, "g.pgen")
                write_pgen(os.path.join(d, "g"), inp["samples"], hv, hgt)
            rfile = None
            if nh is not None:
                rfile = os.path.join(d, "r.vcf.gz")
                write_vcf(rfile, inp["samples"], inp["variants"][nh:], [row[nh:] for row in inp["gt"]], tr=True)
            if inp["mode"] == "snplist":
                efile = os.path.join(d, "e.snplist")
                with open(efile, "w") as f:
                    f.write("".join(f"{e[0]}\t{e[1]!r}\n" for e in inp["effects"]))
            else:
                efile = os.path.join(d, "e.hap")
                trs = set(v[2] for v in (inp["variants"] if inp["mode"] == "repeat" else inp["variants"][nh:] if nh is not None else []))
                posof = {v[2]: v[1] for v in inp["variants"]}
                with open(efile, "w") as f:
                    f.write("#\tversion\t0.2.0\n#H\tbeta\t.2f\tEffect size in linear model\n#R\tbeta\t.2f\tEffect size in linear model\n")
                    for e in inp["effects"]:
                        T = "R" if e[0] in trs or (inp["mode"] == "repeat") else "H"
                        st = posof.get(e[0], 50)
                        f.write(f"{T}\t1\t{st}\t{st + 10}\t{e[0]}\t{e[1]:.2f}\n")
            state = {}

            class Rec:
                def __init__(self, seed, zero):
                    # --seed absent: numpy would seed from the OS; the recorder draws from a fixed stream instead (the
                    # checker is told every value drawn, so any stream will do, and the case stays reproducible)
                    self.g, self.zero, self.calls, self.seed = real_rng(20240229 if seed is None else seed), zero, [], seed

                def normal(self, loc=0.0, scale=1.0, size=None):
                    v = self.g.normal(loc, scale if scale == scale and scale >= 0 else 1.0, size=size)
                    if self.zero:
                        v = np.zeros_like(v)
                    sz = size if isinstance(size, (tuple, list)) else (size,)
                    self.calls.append([float(loc), float(scale), int(sz[0]) if len(sz) == 1 and sz[0] is not None else -1,
                                       [float(x) for x in v]])
                    return v

            def wwrite(self):
                state["names"] = [str(x) for x in self.phens.names]
                state["data"] = np.asarray(self.phens.data, dtype=np.float64).tolist()
                state["samples"] = [str(x) for x in self.phens.samples]
                state["gsamples"] = [str(x) for x in self.gens.samples]
                return orig_write(self)

            def wnorm(self, gts, ids):
                z = orig_norm(self, gts, ids)
                state["d"] = np.asarray(gts).astype(np.int64).tolist()
                state["z"] = np.asarray(z, dtype=np.float64).tolist()
                return z

            def wsim(*a, **k):
                # what the command hands to the Python entry point
                try:
                    b = inspect.signature(orig_sim).bind(*a, **k)
                    b.apply_defaults()
                    v = b.arguments
                    fo = lambda x: None if x is None else float(x)
                    io = lambda x: None if x is None else int(x)
                    assert isinstance(v["normalize"], (bool, np.bool_))
                    state["args"] = {"reps": int(v["num_replications"]), "env": fo(v["environment"]), "h2": fo(v["heritability"]),
                                     "prev": fo(v["prevalence"]), "norm": bool(v["normalize"]), "seed": io(v["seed"]),
                                     "chunk": io(v["chunk_size"])}
                except Exception:  # noqa: the entry point's parameters changed: not observed
                    state["args"] = None
                return orig_sim(*a, **k)

            def go(zero, prev, R, out, through_cli):
                state.clear()
                argv = self.argv(inp, gfile, efile, rfile, d, out) if through_cli else None
                np.random.default_rng = lambda seed=None: state.setdefault("rec", Rec(seed, zero))
                sp.PhenoSimulator.write, sp.PhenoSimulator.normalize_gts = wwrite, wnorm
                last_resort, logging.lastResort = logging.lastResort, None    # loggers nobody configured: keep stderr clean
                try:
                    if through_cli:
                        from click.testing import CliRunner

                        from haptools.__main__ import main

                        sp.simulate_pt = wsim
                        res = CliRunner().invoke(main, argv, catch_exceptions=False)
                        state["exit"] = int(res.exit_code)
                        state["output"] = res.output[-300:]
                    else:
                        sp.simulate_pt(Path(gfile), Path(efile), R, inp["env"], inp["h2"], prev, inp["norm"],
                                       (inp.get("region") or {}).get("s"),
                                       set(inp["sel"]) if inp["sel"] is not None else None,
                                       set(inp["ids"]) if inp["ids"] is not None else None,
                                       inp["chunk"], Path(rfile) if rfile else None, inp["seed"], Path(out), quiet_logger())
                finally:
                    np.random.default_rng = real_rng
                    logging.lastResort = last_resort
                    sp.PhenoSimulator.write, sp.PhenoSimulator.normalize_gts, sp.simulate_pt = orig_write, orig_norm, orig_sim
                    lg = logging.getLogger("haptools.simphenotype")
                    for h in list(lg.handlers):
                        lg.removeHandler(h)
                return dict(state)

            extra = {}
            with warnings.catch_warnings(), np.errstate(all="ignore"):
                warnings.simplefilter("ignore")
                try:
                    out = os.path.join(d, "o.pheno")
                    if cli:
                        # the command first: a refusal of the options comes before anything is loaded
                        try:
                            s1 = go(False, inp["prev"], inp["R"], out, True)
                        finally:
                            extra = {"cliargs": state.get("args")}
                        if s1["exit"] == 2:
                            return dict(extra, err=err_kind("UsageError"), cls="UsageError", msg=s1["output"])
                        if s1["exit"] != 0:
                            return dict(extra, err=err_kind("SystemExit"), cls="SystemExit", msg=s1["output"])
                        s0 = go(True, None, 1, os.path.join(d, "o0.pheno"), False)
                    else:
                        s0 = go(True, None, 1, os.path.join(d, "o0.pheno"), False)
                        s1 = go(False, inp["prev"], inp["R"], out, False)
                except Exception as e:  # noqa
                    return dict(extra, err=err_kind(e), cls=type(e).__name__, msg=str(e)[:200])
            if cli and inp["norm"] and "z" not in s1 and "z" in s0:
                # the user asked for normalised genotypes (flag absent or --normalize), simulate_pt called with normalize=True
                # standardises through normalize_gts (s0), the command's run did not: the phenotypes are checked against the
                # standardised matrix of s0 (same files, same selection), pt = g + eps decides
                s1["d"], s1["z"] = s0["d"], s0["z"]
            if "rec" not in s1 or "data" not in s1 or not s1["rec"].calls or (inp["norm"] and "z" not in s1):
                return dict(extra, unobserved="generator / write / normalize_gts not used as expected")
            if s1["rec"].seed != inp["seed"]:
                return dict(extra, unobserved="generator not created from the given seed")
            nrep = len(s1["rec"].calls)
            if any(len(row) != nrep for row in s1["data"]):
                return dict(extra, unobserved="not one recorded draw per phenotype column")
            lines = open(out).read().split("\n")
            assert lines[-1] == "", "file must end with a newline"
            header = lines[0].split("\t")
            rows = [l.split("\t") for l in lines[1:-1]]
            exp = self.expected(inp)
            same = (s1["samples"] == exp["samples"] and s1["gsamples"] == exp["samples"] and [r[0] for r in rows] == exp["samples"]
                    and header[0] == "#IID")
            return dict(extra, ok={"d": s1.get("d") if inp["norm"] else None, "z": s1.get("z") if inp["norm"] else None,
                                   "g": [row[0] for row in s0["data"]], "calls": [c[:3] for c in s1["rec"].calls],
                                   "eps": [c[3] for c in s1["rec"].calls],
                                   "pts": [[row[r] for row in s1["data"]] for r in range(nrep)],
                                   "names": s1["names"], "same": bool(same), "data": s1["data"], "header": header[1:],
                                   "read": [[float(x) for x in r[1:]] for r in rows]})
        finally:
            np.random.default_rng = real_rng
            sp.PhenoSimulator.write, sp.PhenoSimulator.normalize_gts, sp.simulate_pt = orig_write, orig_norm, orig_sim
            shutil.rmtree(d, ignore_errors=True)

    def _as_run(self, inp, obs):
        exp = self.expected(inp)
        n = len(exp["gt"])
        eps = obs["ok"]["eps"] if "ok" in obs else [[0.0] * n for _ in range(inp["R"])]
        cli = None
        if inp.get("cli"):
            cli = dict(self.cli_view(inp), args=obs.get("cliargs"))
        return {"gids": exp["gids"], "gt": exp["gt"], "eff": exp["eff"], "h2": inp["h2"], "env": inp["env"],
                "norm": inp["norm"], "prev": inp["prev"], "eps": eps, "phase": False, "kind": "e2e", "labs": [inp["mode"]],
                "refuse": exp["refuse"], "reps": inp["R"], "cli": cli}

    def encode(self, inp, obs):
        return Run.encode(self, self._as_run(inp, obs), obs)

    def nontrivial(self, inp, obs):
        return "ok" in obs and bool(self.expected(inp)["gids"])

    def classes(self, inp, obs):
        out = [inp["mode"], inp["fmt"], f"R={inp['R']}", "id-subset" if inp["ids"] is not None else "all-ids",
               "sample-subset" if inp["sel"] is not None else "all-samples", "normalize" if inp["norm"] else "raw",
               "case/control" if inp["prev"] is not None else "quantitative", f"seed={inp['seed']}"]
        if any(e[0] not in [v[2] for v in inp["variants"]] for e in inp["effects"]):
            out.append("effect-absent-from-genotypes")
        if inp["fmt"] == "pgen":
            out.append(f"chunk={inp['chunk']}")
        reg = inp.get("region")
        out.append("region=" + ("none" if not reg else "window" if "lo" in reg else "contig"))
        if inp.get("nh") is not None:
            out.append("--repeats")
        cli = inp.get("cli")
        out.append("via=command-line" if cli else "via=simulate_pt")
        if cli:
            u = self.cli_view(inp)
            out.append("cli:-r " + ("absent" if u["reps"] is None else "1 explicit" if u["reps"] == 1 else "R>1"))
            out.append("cli:" + ("no normalize flag" if u["norm"] is None else "--normalize" if u["norm"] else "--no-normalize"))
            out.append(f"cli:h2={'given' if u['h2'] is not None else 'absent'},env={'given' if u['env'] is not None else 'absent'}")
            if u["norm"] is False and u["h2"] is None and u["env"] is None:
                out.append("cli:--no-normalize alone (the command logs an error)")
            if u["h2"] == 0.5:
                out.append("cli:-h 0.5 explicit (the help-text default)")
            out.append("cli:--seed " + ("absent" if u["seed"] is None else "given"))
            if inp["ids"] is not None:
                out.append("cli:ids via " + ("--id" if cli["ids"] == "opt" else "--ids-file"))
            if inp["sel"] is not None:
                out.append("cli:samples via " + {"opt": "--sample", "file": "--samples-file", "both": "both (usage error)"}[cli["sel"]])
            if u["chunk"] is not None:
                out.append("cli:--chunk-size")
            if cli.get("verb"):
                out.append("cli:-v " + cli["verb"])
        cells = [a for row in inp["vals"] for c in row for a in c]
        if any(a < 0 for a in cells):
            out.append("missing-call")
        if any(a > 253 for a in cells):
            out.append("tr-copy>253")
        elif any(c[0] + c[1] >= 256 for row in inp["vals"] for c in row):
            out.append("tr-sum>=256")
        exp = self.expected(inp)
        if exp["refuse"]:
            out.append("loader-must-refuse")
        if inp["prev"] is not None and not 0 <= inp["prev"] < 1:
            out.append("K-outside-[0,1)")
        if "ok" not in obs:
            out.append(f"err{obs.get('err', 'unobserved')}")
        return out

    def shrink(self, inp):
        if inp["R"] > 1:
            yield dict(inp, R=1)
        for key in ("ids", "sel", "h2", "env", "prev", "chunk", "region", "seed"):
            if inp.get(key) is not None:
                yield dict(inp, **{key: None})
        if inp["norm"]:
            yield dict(inp, norm=False)
        cli = inp.get("cli")
        if cli:
            yield dict(inp, cli=None)
            if cli.get("verb"):
                yield dict(inp, cli=dict(cli, verb=None))
            if cli["reps"] != "absent" and inp["R"] == 1:
                yield dict(inp, cli=dict(cli, reps="absent"))
            if cli["norm"] != "absent" and inp["norm"]:
                yield dict(inp, cli=dict(cli, norm="absent"))
            if cli["spell"]:
                yield dict(inp, cli=dict(cli, spell=0))
        for j in range(len(inp["effects"])):
            if len(inp["effects"]) > 1:
                yield dict(inp, effects=inp["effects"][:j] + inp["effects"][j + 1:])
        n = len(inp["samples"])
        for i in range(n):
            if n > 2 and inp["sel"] is None:
                yield dict(inp, samples=inp["samples"][:i] + inp["samples"][i + 1:], gt=inp["gt"][:i] + inp["gt"][i + 1:],
                           vals=inp["vals"][:i] + inp["vals"][i + 1:])
        p = len(inp["variants"])
        used = set(e[0] for e in inp["effects"]) | set(inp["ids"] or [])
        for j in range(p):
            if p > 1 and inp.get("nh") is None and inp["variants"][j][2] not in used:
                yield dict(inp, variants=inp["variants"][:j] + inp["variants"][j + 1:],
                           gt=[r[:j] + r[j + 1:] for r in inp["gt"]], vals=[r[:j] + r[j + 1:] for r in inp["vals"]])
        if inp["fmt"] == "pgen":
            yield dict(inp, fmt="vcf", chunk=None)

    def mutate(self, inp, rng):
        for s in (0, 1, 42):
            yield dict(inp, seed=s)
        if not inp.get("cli"):
            # the same request written as a command line
            c = dict(inp)
            self._through_cli(rng, c)
            yield c

    def signature(self, inp, obs):
        absent = any(e[0] not in [v[2] for v in inp["variants"]] for e in inp["effects"])
        via = "simphenotype command line" if inp.get("cli") else "simulate_pt"
        if "ok" not in obs:
            return f"e2e {via} raised {obs.get('cls', obs.get('__exc__', '?'))}" + (" with an effect ID absent from the genotypes" if absent else "")
        if absent:
            return "e2e with an effect ID absent from the genotypes: betas applied to other columns"
        if any(a > 253 for row in self.expected(inp)["gt"] for c in row for a in c):
            return "e2e repeat allele with more than 253 copies: copy number silently reduced mod 256"
        if inp.get("cli"):
            return f"e2e command line {inp['mode']}/{inp['fmt']}: phenotypes differ from the model documented for the options given"
        return f"e2e {inp['mode']}/{inp['fmt']} phenotypes differ from the documented model"


RELATIONS = [Run(), E2E()]

LEVEL_TEXT = (
    "Coq theorems (all effect lists, betas, heritability/environment combinations, liabilities, noise vectors and "
    "selections; no size bound) about a Gallina model of one call of PhenoSimulator.run over exact rationals (run_q: "
    "alignment, dosage, sum beta Z + eps, documented noise variance, threshold), the case count floor(fl(K*n)) proved from "
    "K and n (k_of_floor: the IEEE-754 product, rounded to nearest even, then floored, lies in [0, n]) and composed with "
    "argpartition's contract and with the boolean checker; the model and the property's boolean checkers are evaluated "
    "inside Coq (k_of bit-exactly by PrimFloat) on every generated call of the implementation run with a scripted noise "
    "generator - every call of run() on a simulator (repeated calls with one signature and calls after other uses of the "
    "same simulator), each against the genetic component of a fresh simulator: phenotype k = genetic + eps_k. The command: "
    "a model of how simphenotype maps absent options to simulate_pt's arguments (cli_defaults), the theorem that the "
    "documented noise formula on the user's options is noise_var of those arguments, that any command with this property "
    "leaves an absent heritability/environment absent, the refuted 'absent heritability becomes 0.5 under --no-normalize'; "
    "40 % of the end-to-end cases are run through the command line and judged by the options the user wrote."
)
LEVEL_NOTE = (
    "partial: 'eps is i.i.d. normal' is a statement about numpy's generator and is only checked structurally (one "
    "rng.normal(0, sqrt(noise), n) draw per replicate: loc, scale^2 and size are demanded); the square root and float "
    "summation are compared to 1e-9, not proved (what the 1e-9 z-check guarantees is proved: zcheck_tolerance_sound, "
    "zcol_second_moment; at tolerance 0 it pins the standardised column: zcol_exact_sound, over the reals); k_of_floor and "
    "its corollaries rest on the standard library's specification of the primitive floats/integers; "
    "simulate_pt's file loading (.snplist/.hap, VCF/PGEN, tr_harmonizer) is exercised end to end but not modelled in Coq."
)
TECHNIQUE = "Coq proof over Q / R (Flocq for the IEEE product) + PrimFloat evaluation + vm_compute-evaluated correspondence against the implementation"
