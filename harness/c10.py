"""C10 - a seed makes simgenotype and simphenotype reproducible.

Relations
  genotype  : every generated simgenotype configuration is run twice (Python entry points,
              `haptools simgenotype` through CliRunner, or one of each), each run after its OWN generated
              history of earlier calls in the process: numpy disturbances (the global generator re-seeded /
              advanced, a default_rng consumed), earlier simgenotype runs (Python API or CLI) on the SAME map
              directory / model / reference with another --region, chromosome subset, seed or --only_breakpoint,
              earlier simphenotype runs, loading the reference with the haptools readers.  One of the two
              histories may be empty, and run A may be made in a fresh interpreter.  Observed per run: the global
              state on entry, at the first draw, a hash over (function, state) of EVERY legacy np.random call,
              whether every change of the global generator went through such a call, other generators created,
              the state on return, .bp bytes and the parsed VCF/BCF/PGEN content.  A dozen cases of every run
              (the quick tier included) make run A and run B in two fresh interpreters with DIFFERENT PYTHONHASHSEED
              (one of them unset = random in a third): several chromosomes, 2-3 populations, POP / SAMPLE fields,
              --no_replacement, every output format.
  phenotype : the same for simphenotype (histories: numpy disturbances, earlier simphenotype runs with other
              options on the same files, Genotypes / Haplotypes loads of them); observed: the state of
              PhenoSimulator.rng after construction and before/after every replicate, the noise vectors, what the
              run did to the global generator, generators created, .pheno bytes.  Effects / samples may be
              requested by ID (--id, --ids-file, haplotype_ids as set / tuple / list; --sample, --samples-file):
              equal Python sets are filled in different insertion orders in run A and run B; a dozen cases of every
              run make the two runs in two fresh interpreters with different PYTHONHASHSEED (2-6 of 3-8 effects of a
              .snplist / .hap requested, sample selections, variants on several contigs, 1-4 replications).
  replicates: one simphenotype run with 2-6 replications (simulate_pt or the CLI, seeds incl. 0 and none, with and
              without prevalence) with the simulator's public rng wrapped by a recorder; observed: the float noise
              vector every replicate drew, the columns of the written .pheno, the consecutive draws of a COPY of the
              generator taken after construction, and the genetic component (same command, noise forced to zero).
"""
import hashlib
import os
import shutil
import tempfile

import numpy as np

from . import coqlit as L
from .c01 import make_config, write_config
from .core import Relation, err_kind

PROP = "C10"
CLAIMED = True
COQ_MODULES = ["Stats", "C10_Model", "C10_Check", "C10_Proofs", "C10_Process", "C10_Hash"]
PROPERTY_MODULE = "C10_Property"
ALLOWED_AXIOMS = []
# Translation validation (harness/README.md): the two statements that turn --seed into a generator - the seed guard of
# simulate_gt (the top-level `if` whose body calls np.random.seed: `if seed is not None:` after fix add5f9b, `if seed:` in
# the pinned tree) and `self.rng = np.random.default_rng(seed)` in PhenoSimulator.__init__ - are regenerated from the
# current source on every run (harness/pytrans.py -> HVG.Gen_Seed) and proved equal to C10_Model.guard_fires false /
# start_state false and pheno_rng for all seeds (coq/translated/TV_C10.v); numpy's two functions are externals.
TRANSLATION = {
    "spec": {
        "module": "Gen_Seed",
        # np.random.seed(a) acts on the process-global generator: "$gen" := exts_np_random_seed [$gen; a]
        "state_calls": {"np.random.seed": "$gen"},
        "ext_dotted": ["np.random.default_rng"],
        "ignore_calls": ["log.info"],
        "functions": [
            ("haptools/sim_genotype.py", "simulate_gt", {
                "name": "simulate_gt_seed_guard", "top": True,
                "start": {"if_body_calls": "np.random.seed"}, "stop": {"single": True},
                "params": ["seed"], "result": None}),
            ("haptools/sim_phenotype.py", "__init__", {
                "name": "pheno_init_rng", "top": True, "in_class": "PhenoSimulator",
                "start": {"attr_assign": "rng"}, "stop": {"single": True},
                "params": ["seed"], "result": "self_rng", "self_stores": {"rng": "self_rng"},
                "class_chain": [("haptools/sim_phenotype.py", "PhenoSimulator")]}),
        ],
    },
    "models": ["TVM_C10"],
    "proofs": ["TV_C10"],
}
RULE = (
    "a double run is non-trivial when a seed is given, both runs completed and the two runs started from "
    "different process states (different global generator positions; different generated histories of numpy "
    "disturbances and earlier haptools calls on the same files); "
    "simgenotype: at least one admixed generation or >= 2 populations so that draws matter; "
    "simphenotype: >= 1 replicate with noise variance > 0, or the noise-free case/control class with tied "
    "liabilities and 0 < k < n cases; replicates: >= 2 replicates, every one observed with "
    "noise variance > 0 and >= 2 samples. Cases of the cross-interpreter stream (run A and run B in two fresh "
    "interpreters with different PYTHONHASHSEED) count under the same rule. Distinct = distinct canonical JSON of the input."
)
TRUSTED = [
    "numpy's bit generators are deterministic functions of their state (the abstract generator of the model); "
    "generator states are compared through SHA-256 of get_state() / bit_generator.state",
    "PYTHONHASHSEED is fixed (0) for the harness's own process by ./check; equality across interpreters with other "
    "string-hash seeds is tested by the cross-interpreter stream (12 cases per relation and quick run, 96 + every "
    "tenth case in thorough): /venv/bin/python subprocesses with explicit, different PYTHONHASHSEED values, one of the "
    "two without the variable (random) in a third of the cases",
    "pysam / pgenlib return the stored records (content comparison of VCF/BCF/PGEN outputs); 'genotype content' = samples, "
    "variant records, alleles and phase in order, header meta lines as a multiset (the order of the ##contig lines that "
    "GenotypesVCF/GenotypesPLINK write follows set iteration, i.e. PYTHONHASHSEED, and is not counted as content)",
    "replicates: the genetic component is observed by running the same command once more with the noise forced to "
    "zero; comparisons of a float sum with the exact sum use a 1e-9 tolerance relative to the operands (as C09)",
]
ASSUMPTIONS = [
    "'independent draws, not copies' is read structurally (DESIGN.md section 10): one generator, threaded through "
    "the replicates, never re-created; the noise vectors of the replicates are pairwise different when variance > 0; "
    "every replicate column is (the run's one genetic component) + (the noise vector drawn in THAT replicate): "
    "column_k - noise_k is the same vector for all k; case/control: the cases of replicate k are a top set of "
    "genetic component + noise_k",
]
SEEDS = [0, 1, 42, 2**32 - 1]
# cases per run and relation (genotype, phenotype) in which run A and run B are made in two fresh interpreters with
# different string-hash seeds (PYTHONHASHSEED), the quick tier included
NXPROC = {"quick": 12, "thorough": 96}


def sha(b):
    return hashlib.sha256(b).hexdigest()


def global_state_hash():
    st = np.random.get_state()
    return sha(st[1].tobytes() + repr(st[2:]).encode())


def seeded_state_hash(seed):
    """state np.random.seed(seed) produces, computed without disturbing the process"""
    saved = np.random.get_state()
    try:
        np.random.seed(seed)
        return global_state_hash()
    finally:
        np.random.set_state(saved)


def gen_state_hash(g):
    return sha(repr(g.bit_generator.state).encode())


def disturb(hist):
    """a numpy disturbance: reposition the global generator, use a default_rng"""
    if hist.get("reseed") is not None:
        np.random.seed(hist["reseed"])
    if hist.get("draws"):
        np.random.rand(hist["draws"])
    if hist.get("randint"):
        np.random.randint(100, size=hist["randint"])
    g = np.random.default_rng(hist.get("rng_seed"))
    g.normal(size=hist.get("rng_draws", 0))


def gen_history(rng):
    return {"reseed": None if rng.random() < 0.2 else int(rng.integers(0, 2**32 - 1)),
            "draws": int(rng.choice([0, 1, 7, 100, 1000])), "randint": int(rng.choice([0, 3, 50])),
            "rng_seed": None if rng.random() < 0.5 else int(rng.integers(0, 1000)), "rng_draws": int(rng.integers(0, 50))}


# ---------------------------------------------------------------------------
# whatever ran earlier in the process: a history is a LIST of events
#   {"k": "np", ...gen_history...}                      a numpy disturbance
#   {"k": "simgt", "api": "py"|"cli", "par": {...}}     an earlier simgenotype run on the same map directory, model and
#                                                       reference; par overrides chroms / region / seed / only_bp / ...
#   {"k": "simpt", "api": ..., "par": {...}}            an earlier simphenotype run on the same files with other options
#   {"k": "simpt", "api": ..., "p": {pconfig}}          (genotype relation) an earlier simphenotype run on files of its own
#   {"k": "load", "what": "ref"|"gt"|"hp"}              reading an input with the haptools readers
# a bare dict without "k" is the former single numpy disturbance (corpus files)


def events(h):
    if h is None:
        return []
    if isinstance(h, dict):
        return [dict(h, k="np")]
    return list(h)


def np_event(rng):
    return dict(gen_history(rng), k="np")


def has_haptools_event(h):
    return any(e.get("k") != "np" for e in events(h))


def run_history(hist, ctx, tag):
    """run the events one after the other; an earlier call that failed still is something that ran earlier"""
    for j, ev in enumerate(events(hist)):
        try:
            run_event(ev, ctx, f"h{tag}{j}")
        except BaseException:  # noqa
            pass


def run_event(ev, ctx, name):
    k = ev.get("k", "np")
    d = ctx["d"]
    if k == "np":
        disturb(ev)
    elif k == "simgt" and ctx["kind"] == "g":
        ref, model = ctx["paths"]
        par = dict(gpar(ctx["inp"]), **ev.get("par", {}))
        call_simgenotype(par, d, os.path.join(d, name + "." + ev.get("fmt", "vcf")), ev.get("api", "py"), ref, model)
    elif k == "simpt" and ctx["kind"] == "p":
        gt, hp = ctx["paths"]
        par = dict(ppar(ctx["inp"]), **ev.get("par", {}))
        call_simphenotype(par, os.path.join(d, name + ".pheno"), ev.get("api", "py"), gt, hp)
    elif k == "simpt":
        sub = os.path.join(d, name)
        os.makedirs(sub, exist_ok=True)
        gt, hp = write_pinputs(ev["p"], sub)
        call_simphenotype(ppar(ev["p"]), os.path.join(sub, "out.pheno"), ev.get("api", "py"), gt, hp)
    elif k == "load":
        from haptools import data

        what = ev.get("what")
        if ctx["kind"] == "g" and what == "ref":
            path = ctx["paths"][0]
        elif ctx["kind"] == "p" and what in ("gt", "hp"):
            path = ctx["paths"][0 if what == "gt" else 1]
        else:
            return
        if path.endswith(".pgen"):
            data.GenotypesPLINK.load(path)
        elif path.endswith(".hap"):
            data.Haplotypes.load(path)
        elif path.endswith(".snplist"):
            open(path).read()
        elif ev.get("cls") == "Genotypes":
            data.Genotypes.load(path)
        else:
            data.GenotypesVCF.load(path)


class FirstDraw:
    """records, between construction and close():
    * the global generator's state at the first np.random.* draw, and a running hash of EVERY call (function name,
      global state before the call) of the legacy np.random API - all sampling functions bound to the global
      RandomState, and seed / set_state (a re-seeding in mid-run);
    * gaps: how often the global generator was found in another state than the one the previous recorded call (or
      the construction of the recorder) had left it in, close() included - 0 means every change of the global
      generator went through a recorded call, so the hashed sequence is the whole story;
    * private: generators created through np.random.default_rng / RandomState(...) / Generator(...) and calls of the stdlib
      `random` module's global functions - randomness that is not the global numpy generator's."""

    SKIP = {"get_state"}
    PLAIN = ("seed", "ranf", "sample", "set_bit_generator")
    RESEED = ("seed", "set_state", "set_bit_generator")

    def __init__(self):
        import random as pyrandom

        self.first = None
        self.n = 0
        self.h = hashlib.sha256()
        self.gaps = 0
        self.private = 0
        self.reseeds = 0
        glob = np.random.mtrand._rand
        self.saved = {}
        for n in dir(np.random):
            f = getattr(np.random, n)
            if n.startswith("_") or n in self.SKIP or not callable(f) or getattr(f, "__self__", None) is not glob:
                continue
            self.saved[n] = f
        for n in self.PLAIN:      # module-level functions (not bound methods) that act on the global RandomState
            if callable(getattr(np.random, n, None)):
                self.saved[n] = getattr(np.random, n)
        for n, f in self.saved.items():
            setattr(np.random, n, self._wrap(n, f))
        self.saved_other = [(np.random, "default_rng", np.random.default_rng)]
        for n in dir(pyrandom):
            f = getattr(pyrandom, n)
            if not n.startswith("_") and callable(f) and getattr(f, "__self__", None) is pyrandom._inst:
                self.saved_other.append((pyrandom, n, f))
        for mod, n, f in self.saved_other:
            setattr(mod, n, self._count(f))
        for cname in ("RandomState", "Generator"):
            base = getattr(np.random, cname)
            try:
                sub = type("Counting" + cname, (base,), {"__init__": self._counting_init(base)})
            except TypeError:
                continue
            self.saved_other.append((np.random, cname, base))
            setattr(np.random, cname, sub)
        self.entry = self.last = global_state_hash()

    def _counting_init(self, base):
        rec = self

        def __init__(obj, *a, **k):
            rec.private += 1
            base.__init__(obj, *a, **k)
        return __init__

    def _count(self, f):
        def g(*a, **k):
            self.private += 1
            return f(*a, **k)
        return g

    def _wrap(self, name, f):
        def g(*a, **k):
            st = global_state_hash()
            if st != self.last:
                self.gaps += 1
            if name in self.RESEED:
                # the state BEFORE a re-seeding is the history; what is recorded is the re-seeding itself
                self.reseeds += 1
                self.h.update(f"{name}:{a!r}{k!r};".encode() if name == "seed" else f"{name};".encode())
            else:
                if self.first is None:
                    self.first = st
                self.n += 1
                self.h.update(f"{name}:{st};".encode())
            try:
                return f(*a, **k)
            finally:
                self.last = global_state_hash()
        return g

    def trace(self):
        return f"{self.n}:{self.h.hexdigest()}"

    def close(self):
        if global_state_hash() != self.last:
            self.gaps += 1
            self.last = global_state_hash()
        for n, f in self.saved.items():
            setattr(np.random, n, f)
        for mod, n, f in self.saved_other:
            setattr(mod, n, f)


# ---------------------------------------------------------------------------
# simgenotype


def gen_region_of(rng, rows):
    """a --region cut out of a map: starts / ends ON marker positions (+-1, +-2), so that the last marker of the
    subset is an interior marker of the chromosome (or of a wider region)"""
    bps = [r[2] for r in rows]
    i = int(rng.integers(0, len(bps)))
    j = int(rng.integers(i, len(bps)))
    start = max(1, bps[i] - int(rng.choice([0, 0, 1, 2])))
    end = bps[j] + int(rng.choice([-1, 0, 0, 0, 1]))
    return start, max(end, start + 1)


def gen_simgt_event(rng, cfg, seed):
    """an earlier simgenotype run on the same files with ANOTHER extent / seed / output selection"""
    c = str(rng.choice(cfg["chroms"]))
    par = {}
    if rng.random() < 0.7:
        a, b = gen_region_of(rng, cfg["maps"][c])
        par["region"], par["chroms"] = {"chr": c, "start": a, "end": b}, [c]
    else:
        k = int(rng.integers(1, len(cfg["chroms"]) + 1))
        idx = sorted(rng.choice(len(cfg["chroms"]), size=k, replace=False).tolist())
        par["region"], par["chroms"] = None, [cfg["chroms"][i] for i in idx]
    r = rng.random()
    par["seed"] = seed if r < 0.3 else None if r < 0.4 else int(rng.choice([0, 7, 2**32 - 1])) if r < 0.7 else int(rng.integers(0, 2**32 - 1))
    par["only_bp"] = bool(rng.random() < 0.7)
    return {"k": "simgt", "api": str(rng.choice(["py", "cli"])), "par": par}


def small_pconfig(rng):
    c = gen_pconfig(rng)
    for k in ("histA", "histB", "mode", "fresh"):
        c.pop(k, None)
    c["fmt"] = "vcf.gz"
    return c


def gen_ghist(rng, cfg, seed, haptools):
    """a history for the genotype relation; haptools=False: numpy disturbances only"""
    out = []
    if haptools:
        for _ in range(int(rng.choice([1, 1, 1, 2, 3]))):
            r = rng.random()
            if r < 0.6:
                out.append(gen_simgt_event(rng, cfg, seed))
            elif r < 0.75:
                out.append({"k": "load", "what": "ref", "cls": str(rng.choice(["GenotypesVCF", "Genotypes"]))})
            elif r < 0.87:
                out.append({"k": "simpt", "api": str(rng.choice(["py", "cli"])), "p": small_pconfig(rng)})
            else:
                out.append(np_event(rng))
    if rng.random() < 0.8:
        out.append(np_event(rng))
    return out


def gen_hist_pair(rng, gen):
    """(histA, histB, fresh): the two runs get DIFFERENT histories.  Most weight on A without and B with earlier
    haptools calls: run A itself is part of B's past, so a leak that an equal earlier run does not show
    (idempotent updates of shared objects) shows when B alone has another call in between"""
    r = rng.random()
    if r < 0.40:
        return gen(False), gen(True), False
    if r < 0.50:
        return [], gen(True), False
    if r < 0.62:
        return gen(True), gen(False), False
    if r < 0.80:
        return gen(True), gen(True), False
    if r < 0.90:
        return gen(False), gen(False), False
    # run A in a fresh interpreter (nothing ran there before it), run B here after its history
    return ([] if rng.random() < 0.6 else gen(False)), gen(True), True


def gen_gconfig(rng, wide=None):
    cfg = make_config(rng)
    if rng.random() < 0.5 and len(cfg["model"]) == 1:
        cfg["model"].append([cfg["model"][0][0] + 2, 1.0] + [0.0] * len(cfg["pops"]))
    if wide is not None:
        # width boundary: 2 * nsamples output haplotypes / the sample count of the output straddle 127|128, 255|256
        cfg["nsamples"], cfg["popsize"] = int(wide), int(wide) + 2
        cfg["model"] = cfg["model"][:1]
        if not cfg["region"]:
            cfg["chroms"] = cfg["chroms"][:1]
            cfg["maps"] = {c: cfg["maps"][c] for c in cfg["chroms"]}
    ref = {}
    nper = 2 * cfg["nsamples"] + 2 if wide is None else cfg["nsamples"] // 2 + 2
    samples = [f"{p}_{j}" for p in cfg["pops"] for j in range(nper)]
    sinfo = [[f"{p}_{j}", p] for p in cfg["pops"] for j in range(nper)]
    for c in cfg["chroms"]:
        bps = [r[2] for r in cfg["maps"][c]]
        lo, hi = (max(1, bps[0] - 50), bps[-1] + 50)
        if cfg["region"]:
            lo, hi = max(1, cfg["region"]["start"]), max(cfg["region"]["end"], cfg["region"]["start"] + 1)
        k = int(rng.integers(2, 9)) if wide is None else 2
        pos = sorted(set(int(x) for x in rng.integers(lo, hi + 1, size=k)))
        # a variant exactly on a marker position when possible
        inside = [b for b in bps if lo <= b <= hi]
        if inside and rng.random() < 0.7:
            pos = sorted(set(pos + [int(rng.choice(inside))]))
        ref[c] = [[p, [[int(rng.integers(0, 2)), int(rng.integers(0, 2))] for _ in samples]] for p in pos]
        for row in ref[c]:            # both alleles present in the reference
            row[1][0], row[1][1] = [0, 1], [1, 0]
    fmt = str(rng.choice(["vcf", "vcf.gz", "bcf", "pgen"]))
    seed = (None if rng.random() < 0.1 else int(rng.choice(SEEDS)) if rng.random() < 0.8 else int(rng.integers(0, 2**32 - 1)))
    c = {
        "cfg": cfg, "samples": samples, "sinfo": sinfo, "ref": ref,
        "ref_pgen": bool(rng.random() < 0.15),
        "fmt": fmt, "pop_field": bool(rng.random() < 0.4), "sample_field": bool(rng.random() < 0.3),
        "norepl": bool(rng.random() < 0.25) and wide is None, "only_bp": bool(rng.random() < 0.25),
        "chunk": None if rng.random() < 0.7 else int(rng.integers(1, 4)),
        "seed": seed,
        "mode": str(rng.choice(["py", "cli", "mixed"])),
    }
    c["histA"], c["histB"], fresh = gen_hist_pair(rng, lambda hap: gen_ghist(rng, cfg, seed, hap))
    if fresh:
        c["fresh"] = True
    return c


def gen_xgconfig(rng):
    """the cross-interpreter class of simgenotype cases: run A and run B in two fresh interpreters whose string hashes
    differ, on configurations where sets / dicts of strings are in play: several chromosomes, 2-3 populations, POP /
    SAMPLE fields, --no_replacement, every output format"""
    for _ in range(20):
        c = gen_gconfig(rng)
        if len(c["cfg"]["chroms"]) >= 2:
            break
    c.pop("fresh", None)
    if c["seed"] is None:
        c["seed"] = int(rng.choice(SEEDS))
    r = rng.random()
    c["pop_field"], c["sample_field"] = bool(r < 0.55), bool(0.35 < r < 0.8)
    c["norepl"] = bool(rng.random() < 0.4)
    c["only_bp"] = bool(rng.random() < 0.1)
    cfg, seed = c["cfg"], c["seed"]
    c["histA"] = [] if rng.random() < 0.5 else gen_ghist(rng, cfg, seed, False)
    c["histB"] = [] if rng.random() < 0.4 else gen_ghist(rng, cfg, seed, bool(rng.random() < 0.5))
    c["xproc"] = hash_seed_pair(rng)
    return c


def shrink_xproc(inp):
    """a replay must not depend on chance: an interpreter without PYTHONHASHSEED (random) -> explicit values"""
    if inp.get("xproc") and "random" in inp["xproc"]:
        for pair in ([1, 2], [3, 4], [0, 5], [6, 7]):
            yield dict(inp, xproc=pair)


def gpar(inp):
    """the parameters of the simgenotype run under test"""
    cfg = inp["cfg"]
    return {"chroms": cfg["chroms"], "region": cfg["region"], "popsize": cfg["popsize"], "seed": inp["seed"],
            "only_bp": inp["only_bp"], "pop_field": inp["pop_field"], "sample_field": inp["sample_field"],
            "norepl": inp["norepl"], "chunk": inp["chunk"]}


def call_simgenotype(par, d, out, mode, ref, model):
    """haptools simgenotype with the parameters par (Python entry points as __main__ strings them together, or the
    command line); map directory d, outputs `out` and <out without extension>.bp; raises what the command raises"""
    sinfo = os.path.join(d, "sinfo.tsv")
    if mode == "py":
        import re

        import haptools.sim_genotype as sg
        from haptools.logging import getLogger

        log = getLogger("hv", "CRITICAL")
        prefix = re.split(r"(\.vcf|\.bcf|\.vcf\.gz|\.pgen)$", out)[0]
        pop_field, sample_field = par["pop_field"], par["sample_field"]
        if out.endswith(".pgen"):
            pop_field = sample_field = False
        ps = sg.validate_params(model, d, par["chroms"], par["popsize"], ref, sinfo, par["norepl"], par["region"],
                                par["only_bp"])
        n, pd, bps = sg.simulate_gt(model, d, par["chroms"], par["region"], ps, log, par["seed"])
        bps = sg.write_breakpoints(n, pd, bps, prefix, log)
        if not par["only_bp"]:
            sg.output_vcf(bps, par["chroms"], model, ref, sinfo, par["region"], pop_field, sample_field,
                          par["norepl"], out, log, par["chunk"])
        return
    from click.testing import CliRunner
    from haptools.__main__ import main

    args = ["simgenotype", "--model", model, "--mapdir", d, "--out", out, "--ref_vcf", ref,
            "--sample_info", sinfo, "--popsize", str(par["popsize"]), "--verbosity", "CRITICAL"]
    if par["region"]:
        r = par["region"]
        args += ["--region", f"{r['chr']}:{r['start']}-{r['end']}"]
    else:
        args += ["--chroms", ",".join(par["chroms"])]
    if par["seed"] is not None:
        args += ["--seed", str(par["seed"])]
    for flag, on in (("--pop_field", par["pop_field"]), ("--sample_field", par["sample_field"]),
                     ("--no_replacement", par["norepl"]), ("--only_breakpoint", par["only_bp"])):
        if on:
            args.append(flag)
    if par["chunk"] is not None:
        args += ["--chunk-size", str(par["chunk"])]
    r = CliRunner().invoke(main, args, catch_exceptions=True)
    if r.exception is not None and not (isinstance(r.exception, SystemExit) and r.exit_code == 0):
        raise r.exception


def write_reference(inp, d):
    import pysam

    p = os.path.join(d, "ref.vcf")
    with open(p, "w") as f:
        f.write("##fileformat=VCFv4.2\n")
        for c in inp["cfg"]["chroms"]:
            f.write(f"##contig=<ID={c}>\n")
        f.write('##FORMAT=<ID=GT,Number=1,Type=String,Description="Genotype">\n')
        f.write("#CHROM\tPOS\tID\tREF\tALT\tQUAL\tFILTER\tINFO\tFORMAT\t" + "\t".join(inp["samples"]) + "\n")
        for c in inp["cfg"]["chroms"]:
            for pos, gts in inp["ref"][c]:
                f.write(f"{c}\t{pos}\tv{c}_{pos}\tA\tG\t.\t.\t.\tGT\t" + "\t".join(f"{a}|{b}" for a, b in gts) + "\n")
    pysam.tabix_compress(p, p + ".gz", force=True)
    pysam.tabix_index(p + ".gz", preset="vcf", force=True)
    with open(os.path.join(d, "sinfo.tsv"), "w") as f:
        for s, pop in inp["sinfo"]:
            f.write(f"{s}\t{pop}\n")
    if inp["ref_pgen"]:
        from haptools.data import GenotypesPLINK, GenotypesVCF

        g = GenotypesVCF.load(p + ".gz")
        out = GenotypesPLINK(os.path.join(d, "ref.pgen"))
        out.samples, out.variants, out.data = g.samples, g.variants, g.data
        out.write()
        return os.path.join(d, "ref.pgen")
    return p + ".gz"


def genotype_content(path):
    """parsed content of a VCF/BCF/PGEN output, as one hash"""
    if path.endswith(".pgen"):
        import pgenlib

        h = hashlib.sha256()
        # .pvar: the variant records in order; the '##' meta lines as a multiset - the ORDER of the ##contig lines
        # follows the iteration order of a Python set of strings in GenotypesPLINK.write_variants, i.e. PYTHONHASHSEED,
        # and is not genotype content (the property asks for identical genotype content, not identical bytes)
        with open(path[:-5] + ".pvar", "rb") as f:
            lines = f.read().split(b"\n")
        meta = sorted(ln for ln in lines if ln.startswith(b"##"))
        h.update(b"\n".join(meta) + b"\n--\n" + b"\n".join(ln for ln in lines if not ln.startswith(b"##")))
        with open(path[:-5] + ".psam", "rb") as f:
            h.update(f.read())
        rd = pgenlib.PgenReader(path.encode())
        nv, ns = rd.get_variant_ct(), rd.get_raw_sample_ct()
        buf = np.empty((nv, 2 * ns), dtype=np.int32)
        ph = np.empty((nv, ns), dtype=np.uint8)
        if nv:
            rd.read_alleles_and_phasepresent_range(0, nv, buf, ph)
        h.update(buf.tobytes())
        h.update(ph.tobytes())
        rd.close()
        return h.hexdigest()
    import pysam

    h = hashlib.sha256()
    with pysam.VariantFile(path) as vf:
        h.update(repr(list(vf.header.samples)).encode())
        for rec in vf:
            row = [rec.chrom, rec.pos, rec.id, rec.ref, rec.alts]
            for s in rec.samples.values():
                row.append((s.phased, sorted((k, v) for k, v in s.items())))
            h.update(repr(row).encode())
    return h.hexdigest()


def one_grun(inp, d, tag, mode, ref, model):
    """one simgenotype run; returns dict(pre, start, trace, end, gaps, private, out=[...], err)"""
    out = os.path.join(d, f"{tag}.{inp['fmt']}")
    prefix = os.path.join(d, tag)
    res = {"pre": global_state_hash(), "err": None}
    rec = FirstDraw()
    try:
        call_simgenotype(gpar(inp), d, out, mode, ref, model)
    except BaseException as e:  # noqa
        res["err"] = {"cls": type(e).__name__, "kind": err_kind(e) if isinstance(e, Exception) else 10, "msg": str(e)[:160]}
    finally:
        rec.close()
    res["start"] = rec.first
    res["trace"] = rec.trace()
    res["gaps"], res["private"] = rec.gaps, rec.private
    res["end"] = global_state_hash()
    outs = []
    bp = prefix + ".bp"
    outs.append(sha(open(bp, "rb").read()) if os.path.exists(bp) else "no-bp")
    if not inp["only_bp"]:
        try:
            outs.append(genotype_content(out) if os.path.exists(out) else "no-genotypes")
        except Exception as e:  # noqa
            outs.append("unreadable:" + type(e).__name__)
    outs.append("ok" if res["err"] is None else "failed:" + res["err"]["cls"])
    res["out"] = outs
    res["raw_pvar"] = sha(open(out[:-5] + ".pvar", "rb").read()) if out.endswith(".pgen") and os.path.exists(out[:-5] + ".pvar") else None
    return res


def start_subprocess(kind, inp, d, tag, mode, paths, hist, hashseed=None):
    """start one run, after its history, in a fresh interpreter (hashseed: an integer = that PYTHONHASHSEED, "random" =
    PYTHONHASHSEED unset, i.e. what a user's command line gets, None = the harness's own setting).  Job, result and
    stderr travel through files of the case directory, so two such interpreters can run side by side"""
    import json
    import subprocess
    import sys

    job = {"kind": kind, "inp": inp, "d": d, "tag": tag, "mode": mode, "paths": paths, "hist": events(hist)}
    env = dict(os.environ)
    if hashseed == "random":
        env.pop("PYTHONHASHSEED", None)
    elif hashseed is not None:
        env["PYTHONHASHSEED"] = str(hashseed)
    base = os.path.join(d, f"job_{tag}")
    with open(base + ".json", "w") as f:
        json.dump(job, f)
    fin, fout, ferr = open(base + ".json"), open(base + ".out", "w"), open(base + ".err", "w")
    p = subprocess.Popen([sys.executable, "-m", "harness.c10"], stdin=fin, stdout=fout, stderr=ferr, env=env,
                         cwd=os.path.dirname(os.path.dirname(os.path.abspath(__file__))))
    return {"p": p, "base": base, "files": (fin, fout, ferr)}


def finish_subprocess(h, timeout=300):
    import json
    import subprocess

    try:
        h["p"].wait(timeout=timeout)
    except subprocess.TimeoutExpired:
        h["p"].kill()
        h["p"].wait()
    for f in h["files"]:
        f.close()
    for line in reversed(open(h["base"] + ".out").read().splitlines()):
        if line.startswith("RESULT "):
            return json.loads(line[7:])
    raise RuntimeError("subprocess run failed: " + open(h["base"] + ".err").read()[-300:])


def run_in_subprocess(kind, inp, d, tag, mode, paths, hist, hashseed=None):
    """one run, after its history, in a fresh interpreter"""
    return finish_subprocess(start_subprocess(kind, inp, d, tag, mode, paths, hist, hashseed))


def _subprocess_main():
    import json
    import sys

    job = json.loads(sys.stdin.read())
    real_stdout = os.dup(1)
    os.dup2(2, 1)          # whatever the commands print does not belong to the result line
    run_history(job["hist"], {"kind": job["kind"], "inp": job["inp"], "d": job["d"], "paths": job["paths"]}, job["tag"])
    if job["kind"] == "g":
        r = one_grun(job["inp"], job["d"], job["tag"], job["mode"], *job["paths"])
    else:
        r = one_prun(job["inp"], job["d"], job["tag"], job["mode"], *job["paths"])
    sys.stdout.flush()
    os.dup2(real_stdout, 1)
    print("RESULT " + json.dumps(r))


def double_run(kind, inp, d, paths, one):
    """run A after history A, run B after history B (and after everything A did)"""
    mA, mB = {"py": ("py", "py"), "cli": ("cli", "cli"), "mixed": ("py", "cli")}[inp["mode"]]
    ctx = {"kind": kind, "inp": inp, "d": d, "paths": list(paths)}
    if inp.get("xproc"):
        # two fresh interpreters with DIFFERENT string-hash seeds (side by side: they share nothing but the inputs)
        ha = start_subprocess(kind, inp, d, "A", mA, list(paths), inp["histA"], inp["xproc"][0])
        hb = start_subprocess(kind, inp, d, "B", mB, list(paths), inp["histB"], inp["xproc"][1])
        return finish_subprocess(ha), finish_subprocess(hb)
    if inp.get("fresh"):
        a = run_in_subprocess(kind, inp, d, "A", mA, list(paths), inp["histA"])
    else:
        run_history(inp["histA"], ctx, "A")
        a = one(inp, d, "A", mA, *paths)
    run_history(inp["histB"], ctx, "B")
    b = one(inp, d, "B", mB, *paths)
    return a, b


def run_genotype(inp):
    d = tempfile.mkdtemp(prefix="hv_c10g_")
    try:
        model = write_config(inp["cfg"], d)
        ref = write_reference(inp, d)
        a, b = double_run("g", inp, d, [ref, model], one_grun)
        return {"ref": seeded_state_hash(inp["seed"]) if inp["seed"] is not None else None, "a": a, "b": b}
    finally:
        shutil.rmtree(d, ignore_errors=True)


WIDE_G = [63, 64, 127, 128]


class GenotypeRel(Relation):
    name = "genotype"
    coq_module = "C10_Check"
    coq_check = "check_genotype"
    coq_case_type = "gcase"
    coq_model = "model_genotype"
    coq_imports = ["C10_Model"]
    budget = {"quick": 250, "thorough": 4000}
    anchors = [("haptools/sim_genotype.py", "simulate_gt"), ("haptools/sim_genotype.py", "_simulate"),
               ("haptools/sim_genotype.py", "write_breakpoints"), ("haptools/sim_genotype.py", "output_vcf"),
               ("haptools/sim_genotype.py", "_convert_haplotype"), ("haptools/__main__.py", "simgenotype")]

    def generate(self, rng, n, tier):
        out = []
        nwide = 1 if tier == "quick" else len(WIDE_G)
        for k in range(n):
            wide = None
            if 2 * len(SEEDS) <= k < 2 * len(SEEDS) + nwide:
                wide = WIDE_G[int(rng.integers(0, len(WIDE_G)))] if tier == "quick" else WIDE_G[k - 2 * len(SEEDS)]
            c = gen_gconfig(rng, wide)
            if k < 2 * len(SEEDS):          # every named seed through both entry points, every run
                c["seed"] = SEEDS[k % len(SEEDS)]
                c["mode"] = "py" if k < len(SEEDS) else "cli"
            x0 = 2 * len(SEEDS) + nwide
            if x0 <= k < x0 + NXPROC[tier]:
                # the cross-interpreter stream, every run: consecutive cases (= different workers)
                c = gen_xgconfig(rng)
                c["mode"] = ("cli", "py", "mixed")[(k - x0) % 3]
                c["fmt"] = ("vcf", "pgen", "bcf", "vcf.gz")[(k - x0) % 4]
            elif tier == "thorough" and k % 10 == 9:     # two fresh interpreters with different hash seeds
                c["xproc"] = hash_seed_pair(rng)
                c.pop("fresh", None)
            out.append(c)
        return out

    def exhaustive(self, tier):
        rng = np.random.default_rng(10)
        out = []
        for seed in SEEDS:
            for mode in ("py", "cli"):
                c = gen_gconfig(rng)
                c.update(seed=seed, mode=mode, xproc=[1, 2])
                c.pop("fresh", None)
                out.append(c)
        return out

    def run_impl(self, inp):
        return run_genotype(inp)

    def encode(self, inp, obs):
        it = L.Interner()
        it("__none__")
        if not isinstance(obs, dict) or "a" not in obs:
            return f"(mkg {L.opt(inp['seed'], L.z)} 0 (mkgrun 1 (-97) (-97) (-97) 0 0 []) (mkgrun 1 (-97) (-98) (-98) 0 0 []))"

        def run(r):
            start = it(r["start"]) if r["start"] is not None else -97
            return (f"(mkgrun {L.z(it(r['pre']))} {L.z(start)} {L.z(it('trace:' + r['trace']))} {L.z(it(r['end']))} "
                    f"{L.z(r['gaps'])} {L.z(r['private'])} {L.zl([it(x) for x in r['out']])})")
        ref = it(obs["ref"]) if obs["ref"] is not None else 0
        return f"(mkg {L.opt(inp['seed'], L.z)} {L.z(ref)} {run(obs['a'])} {run(obs['b'])})"

    def nontrivial(self, inp, obs):
        return (isinstance(obs, dict) and "a" in obs and inp["seed"] is not None and obs["a"]["err"] is None
                and obs["b"]["err"] is None and obs["a"]["pre"] != obs["b"]["pre"])

    def classes(self, inp, obs):
        out = [f"seed={inp['seed'] if inp['seed'] in SEEDS or inp['seed'] is None else 'other'}", "mode=" + inp["mode"],
               "only_bp" if inp["only_bp"] else "fmt=" + inp["fmt"], "ref=" + ("pgen" if inp["ref_pgen"] else "vcf")]
        for k in ("pop_field", "sample_field", "norepl"):
            if inp[k]:
                out.append(k)
        if inp.get("xproc"):
            out.append("two-interpreters-different-PYTHONHASHSEED")
            out.append("two-interpreters:" + ("one-PYTHONHASHSEED-unset(random)" if "random" in inp["xproc"] else "both-explicit"))
            out.append(f"two-interpreters:chromosomes={min(len(inp['cfg']['chroms']), 4)}")
        if inp.get("fresh"):
            out.append("runA-in-fresh-interpreter")
        if inp["cfg"]["region"]:
            out.append("region")
        if inp["cfg"]["nsamples"] >= 63:
            out.append(f"width:nsamples={inp['cfg']['nsamples']}")
        hA, hB = has_haptools_event(inp["histA"]), has_haptools_event(inp["histB"])
        out.append("history:A=" + ("haptools-calls" if hA else "numpy-only" if events(inp["histA"]) else "empty")
                   + ",B=" + ("haptools-calls" if hB else "numpy-only" if events(inp["histB"]) else "empty"))
        for e in events(inp["histA"]) + events(inp["histB"]):
            if e.get("k") == "simgt":
                out.append("earlier-simgenotype:" + ("region" if e["par"].get("region") else "chroms") + "/" + e.get("api", "py"))
            elif e.get("k") in ("simpt", "load"):
                out.append("earlier-" + e["k"])
        if isinstance(obs, dict) and "a" in obs:
            for r in (obs["a"], obs["b"]):
                if r["err"]:
                    out.append("run-failed:" + r["err"]["cls"])
            out.append("outputs-equal" if obs["a"]["out"] == obs["b"]["out"] else "outputs-differ")
            if obs["a"].get("raw_pvar") != obs["b"].get("raw_pvar") and obs["a"]["out"] == obs["b"]["out"]:
                out.append("pvar-bytes-differ-(order-of-##contig-lines)-content-equal")
        return out

    def shrink(self, inp):
        cfg = inp["cfg"]
        hA, hB = events(inp["histA"]), events(inp["histB"])
        yield from shrink_xproc(inp)
        # histories first: the smallest witness is (nothing, one earlier call)
        if hA:
            yield dict(inp, histA=[])
        for h, key in ((hA, "histA"), (hB, "histB")):
            if len(h) > 1:
                for j in range(len(h)):
                    yield dict(inp, **{key: h[:j] + h[j + 1:]})
        for j, e in enumerate(hB):
            if e.get("k") == "simgt" and (e.get("api") != "py" or not e["par"].get("only_bp")):
                yield dict(inp, histB=hB[:j] + [dict(e, api="py", par=dict(e["par"], only_bp=True))] + hB[j + 1:])
        if inp.get("fresh"):
            yield {k: v for k, v in inp.items() if k != "fresh"}
        for k in ("pop_field", "sample_field", "norepl", "ref_pgen"):
            if inp[k]:
                yield dict(inp, **{k: False})
        if not inp["only_bp"]:
            yield dict(inp, only_bp=True)
        if inp["mode"] != "py":
            yield dict(inp, mode="py")
        if len(cfg["model"]) > 1:
            yield dict(inp, cfg=dict(cfg, model=cfg["model"][:-1]))
        if inp["fmt"] != "vcf":
            yield dict(inp, fmt="vcf")
        simple = [{"k": "np", "reseed": 5, "draws": 1, "randint": 0, "rng_seed": 1, "rng_draws": 0}]
        if not has_haptools_event(hB) and hB != simple:
            yield dict(inp, histB=simple)

    def mutate(self, inp, rng):
        for s in SEEDS:
            yield dict(inp, seed=s)
        for _ in range(4):
            a, b, fresh = gen_hist_pair(rng, lambda hap: gen_ghist(rng, inp["cfg"], inp["seed"], hap))
            c = dict(inp, histA=a, histB=b)
            c.pop("fresh", None)
            if fresh:
                c["fresh"] = True
            yield c

    def signature(self, inp, obs):
        seed = inp["seed"]
        sk = "none" if seed is None else "0" if seed == 0 else "nonzero"
        same = isinstance(obs, dict) and "a" in obs and obs["a"]["out"] == obs["b"]["out"]
        return (f"simgenotype seed={sk}: outputs of two runs {'equal' if same else 'differ'}"
                + (" (two interpreters with different string-hash seeds)" if inp.get("xproc") and not same else ""))


# ---------------------------------------------------------------------------
# simphenotype


def gen_phist(rng, inp, haptools):
    """a history for the phenotype relation; haptools=False: numpy disturbances only"""
    out = []
    if haptools:
        for _ in range(int(rng.choice([1, 1, 2, 3]))):
            r = rng.random()
            if r < 0.55:
                # an earlier simphenotype run on the same files with OTHER options
                par = {"seed": inp["seed"] if rng.random() < 0.3 else None if rng.random() < 0.15 else int(rng.integers(0, 2**32 - 1)),
                       "reps": int(rng.integers(1, 4)),
                       "heritability": None if rng.random() < 0.5 else float(rng.choice([0.2, 0.7, 1.0])),
                       "environment": None if rng.random() < 0.7 else float(rng.choice([0.0, 1.5])),
                       "prevalence": None if rng.random() < 0.5 else float(rng.choice([0.25, 0.5])),
                       "normalize": bool(rng.random() < 0.5)}
                out.append({"k": "simpt", "api": str(rng.choice(["py", "cli"])), "par": par})
            elif r < 0.9:
                out.append({"k": "load", "what": str(rng.choice(["gt", "hp"])), "cls": str(rng.choice(["GenotypesVCF", "Genotypes"]))})
            else:
                out.append(np_event(rng))
    if rng.random() < 0.8:
        out.append(np_event(rng))
    return out


def gen_pconfig(rng, n=None, tied=False):
    n = int(rng.integers(3, 13)) if n is None else n
    m = int(rng.integers(1, 5))
    gts = []
    for j in range(m):
        col = [[int(rng.integers(0, 2)), int(rng.integers(0, 2))] for _ in range(n)]
        col[0], col[1] = [0, 0], [1, 1]          # never a constant dosage column
        gts.append(col)
    betas = [float(rng.choice([-0.5, -0.2, 0.1, 0.25, 0.4, 0.6, 0.9])) for _ in range(m)]
    her = None if rng.random() < 0.4 else float(rng.choice([0.1, 0.5, 0.8, 1.0]))
    env = None if rng.random() < 0.7 else float(rng.choice([0.0, 0.5, 2.0]))
    c = {
        "n": n, "gts": gts, "betas": betas, "kind": str(rng.choice(["hap", "snplist"])),
        "fmt": str(rng.choice(["vcf.gz", "vcf.gz", "pgen"])),
        "reps": int(rng.integers(1, 5)), "heritability": her, "environment": env,
        "prevalence": None if rng.random() < 0.6 else float(rng.choice([0.0, 0.25, 0.5, 0.75])),
        "normalize": bool(rng.random() < 0.7),
        "seed": (None if rng.random() < 0.1 else int(rng.choice(SEEDS)) if rng.random() < 0.8 else int(rng.integers(0, 2**32 - 1))),
        "mode": str(rng.choice(["py", "cli", "mixed"])),
    }
    if tied:
        # noise-free case/control trait with tied liabilities: heritability 1 (or environment 0) makes the noise
        # scale 0, one or two variants give at most a handful of distinct liabilities, 0 < k < n cases must be cut
        # out of the ties - the cut may depend on the seeded generator at most, never on the process
        c["n"] = n = max(n, 4)
        c["gts"] = [[[0, 0], [1, 1]] + [[int(rng.integers(0, 2)), int(rng.integers(0, 2))] for _ in range(n - 2)]
                    for _ in range(int(rng.integers(1, 3)))]
        c["betas"] = [float(rng.choice([0.25, 0.5])) for _ in c["gts"]]
        if rng.random() < 0.6:
            c["heritability"], c["environment"] = 1.0, None if rng.random() < 0.6 else float(rng.choice([0.5, 2.0]))
        else:
            c["heritability"], c["environment"] = None if rng.random() < 0.5 else 0.5, 0.0
        c["prevalence"] = float(rng.choice([0.25, 0.5, 0.75]))
        if c["seed"] is None:
            c["seed"] = int(rng.choice(SEEDS))
    if not tied and rng.random() < 0.3:
        # a request for specific effects / samples: equal sets, filled in different insertion orders in the two runs
        gen_selection(rng, c, pick_samples=bool(rng.random() < 0.4))
    c["histA"], c["histB"], fresh = gen_hist_pair(rng, lambda hap: gen_phist(rng, c, hap))
    if fresh:
        c["fresh"] = True
    return c


def gen_selection(rng, c, kmin=1, pick_samples=False):
    """request kmin..6 of the effects by ID (in an order of its own, not the file's) through --id / --ids-file /
    haplotype_ids as set, tuple or list; optionally a subset of the samples as well"""
    vids = variant_ids(c)
    k = int(rng.integers(min(kmin, len(vids)), min(6, len(vids)) + 1))
    c["ids"] = [vids[i] for i in rng.permutation(len(vids))[:k].tolist()]
    c["ids_cli"] = str(rng.choice(["id", "file"]))
    c["ids_py"] = str(rng.choice(["set", "set", "tuple", "list"]))
    if pick_samples:
        k = int(rng.integers(min(3, c["n"]), c["n"] + 1))
        c["samples"] = [f"S{i}" for i in rng.permutation(c["n"])[:k].tolist()]
        c["samples_cli"] = str(rng.choice(["sample", "file"]))
        c["samples_py"] = str(rng.choice(["set", "set", "list"]))


def gen_vids(rng, m):
    """m distinct variant / haplotype IDs of the usual shapes"""
    out = []
    while len(out) < m:
        r = rng.random()
        x = (f"rs{int(rng.integers(1, 10**7))}" if r < 0.5 else f"H{int(rng.integers(0, 200))}" if r < 0.7
             else f"hap_{'abcdefghij'[int(rng.integers(0, 10))]}{int(rng.integers(0, 50))}" if r < 0.85
             else f"chr{int(rng.integers(1, 23))}_{int(rng.integers(1, 10**6))}_A_T")
        if x not in out:
            out.append(x)
    return out


def hash_seed_pair(rng):
    """PYTHONHASHSEED of the two interpreters: different explicit values (0 = randomisation off, sometimes); in a third
    of the pairs one interpreter gets no PYTHONHASHSEED at all (random, what a user's command line gets)"""
    a = 0 if rng.random() < 0.15 else int(rng.integers(1, 2**32))
    b = int(rng.integers(1, 2**32))
    while b == a:
        b = int(rng.integers(1, 2**32))
    if rng.random() < 1 / 3:
        return ["random", b] if rng.random() < 0.5 else [a, "random"]
    return [a, b]


def gen_xpconfig(rng):
    """the cross-interpreter class of simphenotype cases: run A and run B in two fresh interpreters whose string
    hashes differ, on inputs where the iteration order of a set / dict of strings could decide the output: 2-6 of
    3-8 effects requested by ID (.snplist and .hap; --id, --ids-file, haplotype_ids as set / tuple / list), a sample
    selection, variants on several contigs, several replications"""
    c = gen_pconfig(rng)
    for k in ("fresh",) + SELECTION_KEYS:
        c.pop(k, None)
    n, m = int(rng.integers(6, 13)), int(rng.integers(3, 9))
    gts = []
    for j in range(m):
        col = [[int(rng.integers(0, 2)), int(rng.integers(0, 2))] for _ in range(n)]
        col[j % n], col[(j + 1) % n] = [0, 0], [1, 1]
        gts.append(col)
    c.update(n=n, gts=gts, betas=[float(rng.choice([-0.3, -0.2, -0.1, 0.1, 0.15, 0.25, 0.3])) for _ in range(m)],
             vids=gen_vids(rng, m), kind=str(rng.choice(["snplist", "snplist", "snplist", "hap", "hap"])),
             reps=int(rng.integers(1, 5)))
    if rng.random() < 0.5:
        names = [str(x) for x in rng.permutation(["1", "2", "10", "21", "X", "chr7"])[:int(rng.integers(2, 4))]]
        cuts = sorted(int(x) for x in rng.integers(0, m + 1, size=len(names) - 1))
        c["contigs"] = [names[sum(1 for q in cuts if q <= j)] for j in range(m)]
    if c["seed"] is None:
        c["seed"] = int(rng.choice(SEEDS))
    if c["prevalence"] == 0.0:
        c["prevalence"] = 0.25
    gen_selection(rng, c, kmin=2, pick_samples=bool(rng.random() < 0.5))
    # histories inside the two interpreters: nothing, numpy only, or an earlier simphenotype run asking for OTHER IDs
    hs = []
    for _ in range(2):
        r = rng.random()
        h = [] if r < 0.4 else [np_event(rng)] if r < 0.7 else gen_phist(rng, c, True)
        for e in h:
            if e.get("k") == "simpt" and "par" in e and rng.random() < 0.7:
                vids = c["vids"]
                e["par"]["ids"] = [vids[i] for i in rng.permutation(m)[:int(rng.integers(1, m + 1))].tolist()]
        hs.append(h)
    c["histA"], c["histB"] = hs
    c["xproc"] = hash_seed_pair(rng)
    return c


def ppar(inp):
    """the options of the simphenotype run under test"""
    par = {k: inp[k] for k in ("reps", "environment", "heritability", "prevalence", "normalize", "seed")}
    for k in SELECTION_KEYS:          # requested effect IDs / samples and how they are handed over (absent: all)
        if inp.get(k) is not None:
            par[k] = inp[k]
    return par


SELECTION_KEYS = ("ids", "ids_cli", "ids_py", "samples", "samples_cli", "samples_py")


def insertion_order(items, second):
    """the order in which a Python set of the items is filled: as listed for run A; for run B an order whose
    resulting set ITERATES differently in this process when there is one (two of the strings collide in the hash
    table), else the reverse - the two sets are equal (s1 == s2), i.e. the same input"""
    import itertools

    items = list(items)
    if not second or len(items) < 2:
        return items

    def filled(order):
        s = set()
        for x in order:
            s.add(x)
        return list(s)
    first = filled(items)
    if len(items) <= 6:
        for perm in itertools.permutations(items):
            if list(perm) != items and filled(perm) != first:
                return list(perm)
    return items[::-1]


def as_container(items, kind, second):
    """the requested IDs / samples as the Python object handed to simulate_pt.  Sets (the documented type) are filled
    in another insertion order for the second run; a tuple / list is the same object both times"""
    if kind == "set":
        s = set()
        for x in insertion_order(items, second):
            s.add(x)
        return s
    return tuple(items) if kind == "tuple" else list(items)


def call_simphenotype(par, out, mode, gt, hp, second=False):
    """haptools simphenotype with the options par through simulate_pt or the command line.  second: this is run B
    (equal sets of requested IDs / samples are filled in another insertion order; the command line is the same)"""
    from pathlib import Path

    ids, samples = par.get("ids"), par.get("samples")
    if mode == "py":
        import haptools.sim_phenotype as sp

        py_ids = None if ids is None else as_container(ids, par.get("ids_py", "set"), second)
        py_samples = None if samples is None else as_container(samples, par.get("samples_py", "set"), second)
        sp.simulate_pt(Path(gt), Path(hp), par["reps"], par["environment"], par["heritability"], par["prevalence"],
                       par["normalize"], None, py_samples, py_ids, None, None, par["seed"], Path(out), None)
        return
    from click.testing import CliRunner
    from haptools.__main__ import main

    args = ["simphenotype", gt, hp, "--replications", str(par["reps"]), "--output", out, "--verbosity", "CRITICAL"]
    if par["seed"] is not None:
        args += ["--seed", str(par["seed"])]
    for opt, key in (("--heritability", "heritability"), ("--environment", "environment"), ("--prevalence", "prevalence")):
        if par[key] is not None:
            args += [opt, str(par[key])]
    args.append("--normalize" if par["normalize"] else "--no-normalize")
    for items, how, opt, fopt in ((ids, par.get("ids_cli", "id"), "--id", "--ids-file"),
                                  (samples, par.get("samples_cli", "sample"), "--sample", "--samples-file")):
        if items is None:
            continue
        if how == "file":
            path = out + fopt.replace("-", "_") + ".txt"
            with open(path, "w") as f:
                f.write("".join(x + "\n" for x in items))
            args += [fopt, path]
        else:
            for x in items:
                args += [opt, x]
    r = CliRunner().invoke(main, args, catch_exceptions=True)
    if r.exception is not None and not (isinstance(r.exception, SystemExit) and r.exit_code == 0):
        raise r.exception


def variant_ids(inp):
    return inp.get("vids") or [f"H{j}" for j in range(len(inp["gts"]))]


def used_betas(inp):
    """the effect sizes of the effects the run uses (all of them, or the requested IDs)"""
    if inp.get("ids") is None:
        return list(inp["betas"])
    return [b for v, b in zip(variant_ids(inp), inp["betas"]) if v in inp["ids"]]


def n_used(inp):
    return inp["n"] if inp.get("samples") is None else len(set(inp["samples"]) & {f"S{j}" for j in range(inp["n"])})


def write_pinputs(inp, d):
    import pysam

    n = inp["n"]
    samples = [f"S{j}" for j in range(n)]
    vids = variant_ids(inp)
    contigs = inp.get("contigs") or ["1"] * len(inp["gts"])      # per variant, in blocks
    p = os.path.join(d, "g.vcf")
    with open(p, "w") as f:
        f.write("##fileformat=VCFv4.2\n")
        for c in dict.fromkeys(contigs):
            f.write(f"##contig=<ID={c}>\n")
        f.write('##FORMAT=<ID=GT,Number=1,Type=String,Description="Genotype">\n')
        f.write("#CHROM\tPOS\tID\tREF\tALT\tQUAL\tFILTER\tINFO\tFORMAT\t" + "\t".join(samples) + "\n")
        for j, col in enumerate(inp["gts"]):
            f.write(f"{contigs[j]}\t{100 + 10 * j}\t{vids[j]}\tA\tT\t.\t.\t.\tGT\t" + "\t".join(f"{a}|{b}" for a, b in col) + "\n")
    pysam.tabix_compress(p, p + ".gz", force=True)
    pysam.tabix_index(p + ".gz", preset="vcf", force=True)
    gt = p + ".gz"
    if inp["fmt"] == "pgen":
        from haptools.data import GenotypesPLINK, GenotypesVCF

        g = GenotypesVCF.load(gt)
        out = GenotypesPLINK(os.path.join(d, "g.pgen"))
        out.samples, out.variants, out.data = g.samples, g.variants, g.data
        out.write()
        gt = os.path.join(d, "g.pgen")
    if inp["kind"] == "snplist":
        hp = os.path.join(d, "e.snplist")
        with open(hp, "w") as f:
            for j, b in enumerate(inp["betas"]):
                f.write(f"{vids[j]}\t{b}\n")
    else:
        hp = os.path.join(d, "e.hap")
        with open(hp, "w") as f:
            f.write("#\tversion\t0.2.0\n#H\tbeta\t.2f\tEffect size in linear model\n")
            for j, b in enumerate(inp["betas"]):
                f.write(f"H\t{contigs[j]}\t{100 + 10 * j}\t{101 + 10 * j}\t{vids[j]}\t{b:.2f}\n")
    return gt, hp


class RngProxy:
    def __init__(self, g, log):
        self._g, self._log = g, log

    def normal(self, loc=0.0, scale=1.0, size=None):
        r = self._g.normal(loc, scale, size=size)
        self._log.append({"scale": float(np.max(scale)), "noise": sha(np.asarray(r).tobytes()), "n": int(np.size(r))})
        return r

    @property
    def bit_generator(self):
        return self._g.bit_generator

    def __getattr__(self, k):
        return getattr(self._g, k)


def one_prun(inp, d, tag, mode, gt, hp):
    import haptools.sim_phenotype as sp

    out = os.path.join(d, f"{tag}.pheno")
    res = {"err": None, "start": None, "steps": [], "draws": []}
    cls = sp.PhenoSimulator
    init, run = cls.__init__, cls.run

    def init2(self, *a, **k):
        init(self, *a, **k)
        res["start"] = gen_state_hash(self.rng)
        self.rng = RngProxy(self.rng, res["draws"])

    def run2(self, *a, **k):
        before = gen_state_hash(self.rng)
        try:
            return run(self, *a, **k)
        finally:
            res["steps"].append([before, gen_state_hash(self.rng)])

    cls.__init__, cls.run = init2, run2
    rec = FirstDraw()
    try:
        call_simphenotype(ppar(inp), out, mode, gt, hp, second=(tag == "B"))
    except BaseException as e:  # noqa
        res["err"] = {"cls": type(e).__name__, "kind": err_kind(e) if isinstance(e, Exception) else 10, "msg": str(e)[:160]}
    finally:
        rec.close()
        cls.__init__, cls.run = init, run
    # what the run did to the global generator (nothing: the simulator owns a private one) and how many
    # generators it created (one: PhenoSimulator.__init__)
    res["glob"] = rec.n + rec.reseeds + rec.gaps
    res["rngs"] = rec.private
    res["out"] = [sha(open(out, "rb").read()) if os.path.exists(out) else "no-pheno",
                  "ok" if res["err"] is None else "failed:" + res["err"]["cls"]]
    res["cols"] = pheno_columns(out) if os.path.exists(out) else []
    return res


def pheno_columns(path):
    """the replicate columns of a written .pheno file, one hash per column"""
    rows = [ln.rstrip("\n").split("\t") for ln in open(path) if not ln.startswith("#")]
    if not rows:
        return []
    return [sha("\n".join(r[j] for r in rows).encode()) for j in range(1, len(rows[0]))]


def expect_noise(inp):
    """is the variance of the noise term > 0 for these options (sim_phenotype.PhenoSimulator.run)?"""
    her, env = inp["heritability"], inp["environment"]
    if her is None and env is None:
        return sum(b * b for b in used_betas(inp)) < 1
    h = her if her is not None else 0.5
    return (env is None or env > 0) and h < 1


def run_phenotype(inp):
    d = tempfile.mkdtemp(prefix="hv_c10p_")
    try:
        gt, hp = write_pinputs(inp, d)
        a, b = double_run("p", inp, d, [gt, hp], one_prun)
        ref = gen_state_hash(np.random.default_rng(inp["seed"])) if inp["seed"] is not None else None
        return {"ref": ref, "a": a, "b": b}
    finally:
        shutil.rmtree(d, ignore_errors=True)


WIDE_P = [127, 128, 255, 256, 1000, 1001]


class PhenotypeRel(Relation):
    name = "phenotype"
    coq_module = "C10_Check"
    coq_check = "check_phenotype"
    coq_case_type = "pcase"
    coq_model = "model_phenotype"
    coq_imports = ["C10_Model"]
    budget = {"quick": 400, "thorough": 6000}
    anchors = [("haptools/sim_phenotype.py", "PhenoSimulator.__init__"), ("haptools/sim_phenotype.py", "PhenoSimulator.run"),
               ("haptools/sim_phenotype.py", "simulate_pt"), ("haptools/__main__.py", "simphenotype")]
    NTIED = 12

    def generate(self, rng, n, tier):
        out = []
        ns = 2 * len(SEEDS)
        nwide = 2 if tier == "quick" else len(WIDE_P)
        for k in range(n):
            if ns <= k < ns + self.NTIED or (k >= ns + self.NTIED + nwide and rng.random() < 0.06):
                # noise-free, tied, case/control: every run (both entry points; numpy-only histories that move the
                # GLOBAL generator differently before the two runs, and generated ones)
                c = gen_pconfig(rng, tied=True)
                if k < ns + self.NTIED:
                    c["mode"] = ("py", "cli", "mixed")[k % 3]
                    if k % 2 == 0:
                        c["histA"], c["histB"] = [np_event(rng)], [np_event(rng)]
                        c["histA"][0]["reseed"], c["histB"][0]["reseed"] = 11 + k, 1011 + k
                        c.pop("fresh", None)
            elif ns + self.NTIED <= k < ns + self.NTIED + nwide:
                # width boundary: sample counts around 127|128, 255|256, 1000|1001 (numpy print summarisation)
                wide = WIDE_P[int(rng.integers(0, len(WIDE_P)))] if tier == "quick" else WIDE_P[k - ns - self.NTIED]
                c = gen_pconfig(rng, n=wide)
                c["gts"], c["betas"] = c["gts"][:1], c["betas"][:1]
                if c.get("ids") is not None:      # only IDs that are still there (an absent ID is C09's business)
                    c["ids"] = [x for x in c["ids"] if x in variant_ids(c)] or variant_ids(c)
            else:
                c = gen_pconfig(rng)
            if k < ns:
                c["seed"] = SEEDS[k % len(SEEDS)]
                c["mode"] = "py" if k < len(SEEDS) else "cli"
                c["reps"] = max(c["reps"], 2)
            x0 = ns + self.NTIED + nwide
            if x0 <= k < x0 + NXPROC[tier]:
                # the cross-interpreter stream, every run: consecutive cases (= different workers)
                c = gen_xpconfig(rng)
                c["mode"] = ("cli", "py", "cli", "mixed")[(k - x0) % 4]
                if k - x0 < 3:          # .snplist with >= 3 requested IDs through each way of asking, every run
                    c["kind"] = "snplist"
                    while len(c["ids"]) < 3:
                        gen_selection(rng, c, kmin=3)
                    c["ids_cli"], c["ids_py"] = ("id", "set") if k - x0 < 2 else ("file", "set")
            elif tier == "thorough" and k % 10 == 9:
                c["xproc"] = hash_seed_pair(rng)
                c.pop("fresh", None)
            out.append(c)
        return out

    def exhaustive(self, tier):
        rng = np.random.default_rng(11)
        out = []
        for seed in SEEDS:
            for mode in ("py", "cli"):
                c = gen_pconfig(rng)
                c.update(seed=seed, mode=mode, xproc=[1, 2], reps=3)
                c.pop("fresh", None)
                out.append(c)
        return out

    def run_impl(self, inp):
        return run_phenotype(inp)

    @staticmethod
    def _noisy(r, inp):
        """must the replicates of this run differ?  quantitative trait: the columns of the written file are
        compared (noise variance > 0 by the options); case/control: the recorded noise vectors are (two 0/1
        columns may coincide legitimately), when the recorder saw them"""
        if r["err"] is not None or n_used(inp) < 2:
            return False
        if inp["prevalence"] is None:
            return expect_noise(inp) and len(r["cols"]) == inp["reps"]
        return bool(r["draws"]) and all(x["scale"] > 0 and np.isfinite(x["scale"]) and x["n"] >= 2 for x in r["draws"])

    @staticmethod
    def _cols(r, inp):
        return r["cols"] if inp["prevalence"] is None else [x["noise"] for x in r["draws"]]

    @staticmethod
    def _tied(inp):
        return (inp["prevalence"] is not None and 0 < int(inp["prevalence"] * inp["n"]) < inp["n"] and not expect_noise(inp)
                and (inp["heritability"] is not None or inp["environment"] is not None))

    def encode(self, inp, obs):
        it = L.Interner()
        it("__none__")
        if not isinstance(obs, dict) or "a" not in obs:
            return f"(mkp {L.opt(inp['seed'], L.z)} 0 (mkprun (-97) [] [] [] false 0 1) (mkprun (-97) [] [] [] false 0 1))"

        def run(r):
            start = it(r["start"]) if r["start"] is not None else -97
            steps = L.lst(r["steps"], lambda s: f"({L.z(it(s[0]))}, {L.z(it(s[1]))})")
            return (f"(mkprun {L.z(start)} {steps} {L.zl([it(x) for x in r['out']])} "
                    f"{L.zl([it(x) for x in self._cols(r, inp)])} {L.b(self._noisy(r, inp))} "
                    f"{L.z(r['glob'])} {L.z(r['rngs'])})")
        ref = it(obs["ref"]) if obs["ref"] is not None else 0
        return f"(mkp {L.opt(inp['seed'], L.z)} {L.z(ref)} {run(obs['a'])} {run(obs['b'])})"

    def nontrivial(self, inp, obs):
        return (isinstance(obs, dict) and "a" in obs and inp["seed"] is not None and obs["a"]["err"] is None
                and obs["b"]["err"] is None and (self._noisy(obs["a"], inp) or self._tied(inp)))

    def classes(self, inp, obs):
        out = [f"seed={inp['seed'] if inp['seed'] in SEEDS or inp['seed'] is None else 'other'}", "mode=" + inp["mode"],
               "fmt=" + inp["fmt"], "effects=" + inp["kind"], f"reps={inp['reps']}",
               "case-control" if inp["prevalence"] is not None else "quantitative"]
        if self._tied(inp):
            out.append("noise-free-tied-case-control(0<k<n)")
        if inp["n"] >= 127:
            out.append(f"width:n={inp['n']}")
        if inp.get("fresh"):
            out.append("runA-in-fresh-interpreter")
        x = "two-interpreters:" if inp.get("xproc") else ""
        if inp.get("xproc"):
            out.append("two-interpreters-different-PYTHONHASHSEED")
            out.append(x + ("one-PYTHONHASHSEED-unset(random)" if "random" in inp["xproc"] else "both-explicit"))
            out.append(x + "effects=" + inp["kind"])
        if inp.get("ids") is not None:
            how = {"py": ["py-" + inp.get("ids_py", "set")], "cli": ["cli-" + inp.get("ids_cli", "id")],
                   "mixed": ["py-" + inp.get("ids_py", "set"), "cli-" + inp.get("ids_cli", "id")]}[inp["mode"]]
            out.append(x + f"ids-requested={len(inp['ids'])}" if len(inp["ids"]) < 4 else x + "ids-requested>=4")
            out += [x + "ids-via-" + h for h in how]
            if "py-set" in how and inp["mode"] == "py" and len(inp["ids"]) > 1:
                out.append("equal-id-sets-filled-in-different-insertion-order")
        if inp.get("samples") is not None:
            out.append(x + "samples-requested")
        if inp.get("contigs"):
            out.append(x + f"contigs={len(set(inp['contigs']))}")
        hA, hB = has_haptools_event(inp["histA"]), has_haptools_event(inp["histB"])
        out.append("history:A=" + ("haptools-calls" if hA else "numpy-only" if events(inp["histA"]) else "empty")
                   + ",B=" + ("haptools-calls" if hB else "numpy-only" if events(inp["histB"]) else "empty"))
        for e in events(inp["histA"]) + events(inp["histB"]):
            if e.get("k") in ("simpt", "load"):
                out.append("earlier-" + e["k"] + (":" + e["what"] if e["k"] == "load" else "/" + e.get("api", "py")))
        if isinstance(obs, dict) and "a" in obs:
            for r in (obs["a"], obs["b"]):
                if r["err"]:
                    out.append("run-failed:" + r["err"]["cls"])
            out.append("noise>0" if self._noisy(obs["a"], inp) else "noise=0-or-failed")
            out.append("outputs-equal" if obs["a"]["out"] == obs["b"]["out"] else "outputs-differ")
        return out

    def shrink(self, inp):
        hA, hB = events(inp["histA"]), events(inp["histB"])
        yield from shrink_xproc(inp)
        if hA:
            yield dict(inp, histA=[])
        if hB and inp.get("xproc"):
            yield dict(inp, histB=[])
        for h, key in ((hA, "histA"), (hB, "histB")):
            if len(h) > 1:
                for j in range(len(h)):
                    yield dict(inp, **{key: h[:j] + h[j + 1:]})
        if inp.get("fresh"):
            yield {k: v for k, v in inp.items() if k != "fresh"}
        if inp.get("samples") is not None:
            yield {k: v for k, v in inp.items() if k not in ("samples", "samples_cli", "samples_py")}
        if inp.get("contigs"):
            yield {k: v for k, v in inp.items() if k != "contigs"}
        ids = inp.get("ids")
        if ids is not None:
            for j in range(len(ids)):
                if len(ids) > 1:
                    yield dict(inp, ids=ids[:j] + ids[j + 1:])
            yield {k: v for k, v in inp.items() if k not in ("ids", "ids_cli", "ids_py")}
        if inp["mode"] != "py":
            yield dict(inp, mode="py")
        if inp["fmt"] != "vcf.gz":
            yield dict(inp, fmt="vcf.gz")
        if inp["reps"] > 1:
            yield dict(inp, reps=inp["reps"] - 1)
        vids = variant_ids(inp)
        for j in range(len(inp["gts"]) - 1, -1, -1):
            # drop a variant that is not asked for (the last one first)
            if len(inp["gts"]) > 1 and (ids is None or vids[j] not in ids):
                cut = lambda xs: xs[:j] + xs[j + 1:]
                c = dict(inp, gts=cut(inp["gts"]), betas=cut(inp["betas"]))
                if inp.get("vids"):
                    c["vids"] = cut(inp["vids"])
                if inp.get("contigs"):
                    c["contigs"] = cut(inp["contigs"])
                yield c
                break
        if inp["n"] > 4 and inp.get("samples") is None:
            yield dict(inp, n=inp["n"] - 1, gts=[col[:-1] for col in inp["gts"]])
        for k in ("heritability", "environment", "prevalence"):
            if inp[k] is not None:
                yield dict(inp, **{k: None})

    def mutate(self, inp, rng):
        for s in SEEDS:
            yield dict(inp, seed=s)
        yield dict(inp, reps=inp["reps"] + 2)
        for _ in range(3):
            a, b, fresh = gen_hist_pair(rng, lambda hap: gen_phist(rng, inp, hap))
            c = dict(inp, histA=a, histB=b)
            c.pop("fresh", None)
            if fresh:
                c["fresh"] = True
            yield c

    def signature(self, inp, obs):
        seed = inp["seed"]
        sk = "none" if seed is None else "0" if seed == 0 else "nonzero"
        same = isinstance(obs, dict) and "a" in obs and obs["a"]["out"] == obs["b"]["out"]
        copies = False
        if isinstance(obs, dict) and "a" in obs:
            for r in (obs["a"], obs["b"]):
                ns = self._cols(r, inp)
                copies = copies or (self._noisy(r, inp) and len(set(ns)) < len(ns))
        return (f"simphenotype seed={sk}: outputs of two runs {'equal' if same else 'differ'}"
                + (" (two interpreters with different string-hash seeds)" if inp.get("xproc") and not same else "")
                + ("; replicates are copies of each other" if copies else ""))


# ---------------------------------------------------------------------------
# the replicates of ONE simphenotype run, on the values


class NoiseRecorder:
    """stands in for the simulator's public `rng`: every sampling call goes to the real generator and is recorded
    (method, scale, the float values returned); zero=True hands zeros to the simulator instead (genetic component)"""

    def __init__(self, g, log, zero=False):
        self._g, self._log, self._zero = g, log, zero

    def normal(self, loc=0.0, scale=1.0, size=None):
        sc = float(np.max(scale))
        r = self._g.normal(loc, scale if sc == sc and sc >= 0 else 1.0, size=size)
        if self._zero:
            r = np.zeros_like(r)
        self._log.append({"m": "normal", "loc": float(np.max(loc)), "scale": sc,
                          "v": [float(x) for x in np.asarray(r, dtype=np.float64).reshape(-1)]})
        return r

    @property
    def bit_generator(self):
        return self._g.bit_generator

    def __getattr__(self, k):
        f = getattr(self._g, k)
        if callable(f) and not k.startswith("_"):
            def g(*a, **kw):
                self._log.append({"m": k})
                return f(*a, **kw)
            return g
        return f


def copy_generator(g):
    """a generator of the same kind in the same state (the original is not touched)"""
    bg = g.bit_generator
    c = type(bg)()
    c.state = bg.state
    return np.random.Generator(c)


def pheno_table(path):
    rows = [ln.rstrip("\n").split("\t") for ln in open(path) if not ln.startswith("#")]
    if not rows:
        return []
    return [[float(r[j]) for r in rows] for j in range(1, len(rows[0]))]


def one_rrun(inp, d, tag, mode, gt, hp, zero):
    """one simphenotype run (zero: one replicate, no prevalence, noise forced to zero)"""
    from pathlib import Path

    import haptools.sim_phenotype as sp

    out = os.path.join(d, f"{tag}.pheno")
    res = {"err": None, "sims": 0, "calls": [], "copy": None, "rng": None}
    log = []
    cls = sp.PhenoSimulator
    init, run = cls.__init__, cls.run

    def init2(self, *a, **k):
        init(self, *a, **k)
        res["sims"] += 1
        res["copy"] = copy_generator(self.rng)
        res["rng"] = self.rng
        self.rng = NoiseRecorder(self.rng, log, zero)

    def run2(self, *a, **k):
        n0 = len(log)
        try:
            return run(self, *a, **k)
        finally:
            res["calls"].append(log[n0:])

    cls.__init__, cls.run = init2, run2
    reps = 1 if zero else inp["reps"]
    prev = None if zero else inp["prevalence"]
    try:
        if mode == "py":
            sp.simulate_pt(Path(gt), Path(hp), reps, inp["environment"], inp["heritability"], prev,
                           inp["normalize"], None, None, None, None, None, inp["seed"], Path(out), None)
        else:
            from click.testing import CliRunner
            from haptools.__main__ import main

            args = ["simphenotype", gt, hp, "--replications", str(reps), "--output", out, "--verbosity", "CRITICAL"]
            if inp["seed"] is not None:
                args += ["--seed", str(inp["seed"])]
            for opt, val in (("--heritability", inp["heritability"]), ("--environment", inp["environment"]), ("--prevalence", prev)):
                if val is not None:
                    args += [opt, repr(val)]
            args.append("--normalize" if inp["normalize"] else "--no-normalize")
            r = CliRunner().invoke(main, args, catch_exceptions=True)
            if r.exception is not None and not (isinstance(r.exception, SystemExit) and r.exit_code == 0):
                raise r.exception
    except BaseException as e:  # noqa
        res["err"] = {"cls": type(e).__name__, "kind": err_kind(e) if isinstance(e, Exception) else 10, "msg": str(e)[:160]}
    finally:
        cls.__init__, cls.run = init, run
    res["cols"] = pheno_table(out) if os.path.exists(out) else []
    return res


def run_replicates(inp):
    d = tempfile.mkdtemp(prefix="hv_c10r_")
    try:
        gt, hp = write_pinputs(inp, d)
        ctx = {"kind": "p", "inp": inp, "d": d, "paths": [gt, hp]}
        run_history(inp["histA"], ctx, "Z")
        z = one_rrun(inp, d, "Z", "py", gt, hp, True)
        run_history(inp["histB"], ctx, "A")
        a = one_rrun(inp, d, "A", inp["mode"], gt, hp, False)
        if z["err"] or a["err"]:
            return {"failed": (z["err"] or a["err"])}
        if z["sims"] != 1 or len(z["cols"]) != 1 or a["sims"] != 1:
            return {"unobserved": "not exactly one PhenoSimulator per run / no column from the zero-noise run"}
        calls = a["calls"]
        if any(len(c) != 1 or c[0]["m"] != "normal" or c[0]["loc"] != 0.0 for c in calls):
            return {"unobserved": "a replicate did not make exactly one rng.normal(0, ...) request"}
        if len(calls) != len(a["cols"]):
            return {"unobserved": "number of run() calls differs from the number of columns written"}
        ref = a["copy"]
        reps = []
        for c, col in zip(calls, a["cols"]):
            n = len(c[0]["v"])
            sc = c[0]["scale"]
            rv = ref.normal(0, sc if sc == sc and sc >= 0 else 1.0, size=n)
            reps.append({"scale": sc, "noise": c[0]["v"], "ref": [float(x) for x in rv], "col": col})
        end_same = gen_state_hash(ref) == gen_state_hash(a["rng"])
        return {"ok": {"g": z["cols"][0], "reps": reps, "end_same": bool(end_same)}}
    finally:
        shutil.rmtree(d, ignore_errors=True)


def gen_rconfig(rng, n=None):
    c = gen_pconfig(rng)
    for k in ("fresh",) + SELECTION_KEYS:
        c.pop(k, None)
    wide = n is not None
    n = int(rng.integers(3, 9)) if n is None else n
    c["n"] = n
    c["gts"] = [col[:n] if len(col) >= n else col + [[int(rng.integers(0, 2)), int(rng.integers(0, 2))] for _ in range(n - len(col))]
                for col in c["gts"]]
    c["reps"] = int(rng.integers(2, 7))
    c["mode"] = str(rng.choice(["py", "cli"]))
    c["prevalence"] = None if rng.random() < 0.55 else float(rng.choice([0.25, 0.5, 0.75, 0.4, 0.6]))
    c["seed"] = None if rng.random() < 0.1 else int(rng.choice(SEEDS)) if rng.random() < 0.8 else int(rng.integers(0, 2**32 - 1))
    if wide:
        # width boundary: the sample count straddles 127|128, 255|256 (thorough: 1000|1001, numpy print summarisation)
        c["gts"], c["betas"], c["reps"] = c["gts"][:1], c["betas"][:1], 2
        if c["heritability"] == 1.0 or c["environment"] == 0.0:
            c["heritability"], c["environment"] = 0.5, None
        # quantitative only: the case/control oracle (top set over exact rationals) is quadratic in n inside Coq
        # (n = 255 costs minutes); case/control at these widths is exercised by the `phenotype` relation
        c["prevalence"] = None
    return c


WIDE_R = [127, 128, 255, 256]


class ReplicatesRel(Relation):
    name = "replicates"
    coq_module = "C10_Check"
    coq_check = "check_replicates"
    coq_case_type = "repcase"
    coq_model = "model_replicates"
    coq_imports = ["Stats", "C10_Model"]
    budget = {"quick": 160, "thorough": 3000}
    max_cases_per_shard = 40
    anchors = [("haptools/sim_phenotype.py", "PhenoSimulator.__init__"), ("haptools/sim_phenotype.py", "PhenoSimulator.run"),
               ("haptools/sim_phenotype.py", "simulate_pt"), ("haptools/__main__.py", "simphenotype")]

    def preamble(self):
        return "From Coq Require Import PrimFloat."

    def generate(self, rng, n, tier):
        out = []
        widths = [WIDE_R[int(rng.integers(0, len(WIDE_R)))]] if tier == "quick" else WIDE_R + [1000, 1001]
        for k in range(n):
            j = k - 4 * len(SEEDS)
            c = gen_rconfig(rng, widths[j] if 0 <= j < len(widths) else None)
            if k < 4 * len(SEEDS):      # every named seed x {simulate_pt, CLI} x {quantitative, case/control}, every run
                c["seed"] = SEEDS[k % len(SEEDS)]
                c["mode"] = "py" if (k // len(SEEDS)) % 2 == 0 else "cli"
                c["prevalence"] = None if k < 2 * len(SEEDS) else 0.5
                c["reps"] = 2 + k % 5
                if c["heritability"] == 1.0 or c["environment"] == 0.0:
                    c["heritability"], c["environment"] = 0.5, None
            out.append(c)
        return out

    def exhaustive(self, tier):
        rng = np.random.default_rng(12)
        out = []
        for seed in SEEDS + [None]:
            for mode in ("py", "cli"):
                for prev in (None, 0.5):
                    for reps in (2, 3, 6):
                        c = gen_rconfig(rng)
                        c.update(seed=seed, mode=mode, prevalence=prev, reps=reps)
                        out.append(c)
        return out

    def run_impl(self, inp):
        return run_replicates(inp)

    def encode(self, inp, obs):
        H = L.hexfloat
        fl = lambda xs: L.lst(xs, H)
        cc = L.b(inp["prevalence"] is not None)
        if not isinstance(obs, dict) or "ok" not in obs:
            # a run that failed outright is the business of C09 / the phenotype relation, not of this one
            kind = 97 if not (isinstance(obs, dict) and "failed" in obs) else obs["failed"].get("kind", 99)
            return f"(mkrc {L.z(inp['reps'])} {cc} [] false (Err {L.z(kind)}))"
        o = obs["ok"]
        reps = L.lst(o["reps"], lambda r: f"(mkrrep {H(r['scale'])} {fl(r['noise'])} {fl(r['ref'])} {fl(r['col'])})")
        return f"(mkrc {L.z(inp['reps'])} {cc} {fl(o['g'])} {L.b(o['end_same'])} (Ok {reps}))"

    @staticmethod
    def _noisy(obs):
        return (isinstance(obs, dict) and "ok" in obs and len(obs["ok"]["reps"]) >= 2
                and all(r["scale"] > 0 and np.isfinite(r["scale"]) and len(r["noise"]) >= 2 for r in obs["ok"]["reps"]))

    def nontrivial(self, inp, obs):
        return self._noisy(obs)

    def classes(self, inp, obs):
        out = [f"seed={inp['seed'] if inp['seed'] in SEEDS or inp['seed'] is None else 'other'}", "mode=" + inp["mode"],
               "fmt=" + inp["fmt"], "effects=" + inp["kind"], f"reps={inp['reps']}",
               "case-control" if inp["prevalence"] is not None else "quantitative"]
        if inp["n"] >= 127:
            out.append(f"width:n={inp['n']}")
        if has_haptools_event(inp["histA"]) or has_haptools_event(inp["histB"]):
            out.append("after-earlier-haptools-calls")
        if isinstance(obs, dict) and "ok" in obs:
            out.append("noise>0" if self._noisy(obs) else "noise=0")
        elif isinstance(obs, dict) and "failed" in obs:
            out.append("run-failed:" + obs["failed"]["cls"])
        else:
            out.append("unobserved")
        return out

    def shrink(self, inp):
        if inp["mode"] != "py":
            yield dict(inp, mode="py")
        if inp["fmt"] != "vcf.gz":
            yield dict(inp, fmt="vcf.gz")
        if inp["reps"] > 2:
            yield dict(inp, reps=inp["reps"] - 1)
        if len(inp["gts"]) > 1:
            yield dict(inp, gts=inp["gts"][:-1], betas=inp["betas"][:-1])
        if inp["n"] > 3:
            yield dict(inp, n=inp["n"] - 1, gts=[col[:-1] for col in inp["gts"]])
        for k in ("heritability", "environment", "prevalence"):
            if inp[k] is not None:
                yield dict(inp, **{k: None})
        if not inp["normalize"]:
            yield dict(inp, normalize=True)

    def mutate(self, inp, rng):
        for s in SEEDS:
            yield dict(inp, seed=s)
        for r in (2, 4, 6):
            yield dict(inp, reps=r)
        yield dict(inp, prevalence=None if inp["prevalence"] is not None else 0.5)

    def signature(self, inp, obs):
        if not (isinstance(obs, dict) and "ok" in obs):
            return "simphenotype replicates: run failed or could not be observed"
        o = obs["ok"]
        ns = [tuple(r["noise"]) for r in o["reps"]]
        if self._noisy(obs) and len(set(ns)) < len(ns):
            return "simphenotype replicates received the same noise vector"
        return ("simphenotype replicate columns are not (one genetic component) + (the noise drawn for that replicate)"
                + (" [case/control]" if inp["prevalence"] is not None else ""))


class TVGuard(Relation):
    """The two seed statements run for real with numpy's functions replaced by recorders: simulate_gt(..., seed=s) on a
    model file that does not exist (the guard is the first statement; open() then raises) records the arguments of
    np.random.seed; PhenoSimulator(genotypes, seed=s) records the argument of np.random.default_rng and whether self.rng
    is what it returned.  agree = the statements as translated from the current source, interpreted with recording
    externals, make the same calls (and C10_Model.guard_fires false predicts them).  holds is not judged here."""
    name = "tv_guard"
    coq_lib = "HVG"
    coq_module = "TVM_C10"
    coq_check = "check_tv_guard"
    coq_case_type = "tgcase"
    coq_model = "tv_model_guard"
    coq_imports = ["C10_Model"]
    budget = {"quick": 12, "thorough": 200}
    anchors = [("haptools/sim_genotype.py", "simulate_gt"), ("haptools/sim_phenotype.py", "PhenoSimulator.__init__")]
    SEEDS = [None, 0, 1, 42, 2**31 - 1, 2**32 - 1]

    def generate(self, rng, n, tier):
        out = [{"seed": s} for s in self.SEEDS]
        while len(out) < n:
            out.append({"seed": int(rng.integers(0, 2**32))})
        return out[:max(n, len(self.SEEDS))]

    def exhaustive(self, tier):
        return [{"seed": s} for s in self.SEEDS + [2, 7, 255, 256, 65535, 65536]]

    def run_impl(self, inp):
        import logging
        import types
        from pathlib import Path

        import haptools.sim_genotype as sg
        import haptools.sim_phenotype as sp

        seed = inp["seed"]
        log = logging.getLogger("hv_c10_tv")
        log.addHandler(logging.NullHandler())
        log.propagate = False
        seeds, rngs = [], []
        token = object()
        saved = (np.random.seed, np.random.default_rng)

        def rec_seed(*a, **k):
            seeds.append([a, k])

        def rec_rng(*a, **k):
            rngs.append([a, k])
            return token

        d = tempfile.mkdtemp(prefix="hv_c10_tv_")
        try:
            np.random.seed, np.random.default_rng = rec_seed, rec_rng
            try:
                sg.simulate_gt(os.path.join(d, "absent.dat"), d, ["1"], None, 10, log, seed)
                gerr = None
            except FileNotFoundError:
                gerr = None         # expected: the model file does not exist; the guard ran before open()
            except Exception as e:  # noqa
                gerr = {"err": err_kind(e), "cls": type(e).__name__}
            n_rng_before = len(rngs)
            try:
                ps = sp.PhenoSimulator(types.SimpleNamespace(samples=("s1",)), output=Path(os.path.join(d, "o.pheno")),
                                       seed=seed, log=log)
                bound = ps.rng is token
                perr = None
            except Exception as e:  # noqa
                bound, perr = False, {"err": err_kind(e), "cls": type(e).__name__}
        finally:
            np.random.seed, np.random.default_rng = saved
            shutil.rmtree(d, ignore_errors=True)

        def plain(calls):
            # every call must be f(x) with x an int or None, else the recorder cannot be compared: Unobserved
            out = []
            for a, k in calls:
                if k or len(a) != 1 or not (a[0] is None or (isinstance(a[0], int) and not isinstance(a[0], bool))):
                    return None
                out.append(a[0])
            return out

        return {"seed_calls": plain(seeds), "rng_args": plain(rngs[n_rng_before:]), "bound": bool(bound), "gerr": gerr,
                "perr": perr, "rng_calls_in_simulate_gt": n_rng_before}

    def encode(self, inp, obs):
        so = lambda x: L.opt(x, L.z)
        if "seed_calls" not in obs:
            return f"(mktg {so(inp['seed'])} (Err 97) (Err 97) false)"
        sc = (f"(Err {L.z(obs['gerr']['err'])})" if obs["gerr"] else
              "(Err 97)" if obs["seed_calls"] is None else f"(Ok {L.zl(obs['seed_calls'])})")
        ra = (f"(Err {L.z(obs['perr']['err'])})" if obs["perr"] else
              "(Err 97)" if obs["rng_args"] is None else f"(Ok {L.lst(obs['rng_args'], so)})")
        return f"(mktg {so(inp['seed'])} {sc} {ra} {L.b(obs['bound'])})"

    def nontrivial(self, inp, obs):
        return inp["seed"] is not None

    def classes(self, inp, obs):
        s = inp["seed"]
        return ["seed:none" if s is None else "seed:0" if s == 0 else "seed:positive"]

    def shrink(self, inp):
        if inp["seed"] not in (None, 0):
            yield {"seed": 0}
            yield {"seed": 1}

    def mutate(self, inp, rng):
        for s in self.SEEDS:
            if s != inp["seed"]:
                yield {"seed": s}

    def signature(self, inp, obs):
        z = "0" if inp["seed"] == 0 else "None" if inp["seed"] is None else "nonzero"
        return f"tv_guard: the translated seed statements and the real ones make different numpy calls (seed {z})"


RELATIONS = [GenotypeRel(), PhenotypeRel(), ReplicatesRel(), TVGuard()]

LEVEL_TEXT = (
    "Coq theorems for EVERY generator (state machine S, reseed, draw) and every program drawing from it: with the "
    "guard `seed is not None` simgenotype's outputs, the state before EVERY draw, the values drawn and the final "
    "generator state are a function of seed and inputs only (history-independent, seed 0 included; the pinned guard "
    "`if seed:` is refuted at 0). 'Whatever ran earlier in the same process' is a process model (global generator, "
    "a store for all other persistent state, OS entropy) in which earlier programs are ARBITRARY (draw, re-seed, read "
    "and overwrite the store): after any two lists of earlier programs, started in any two processes, the seeded "
    "command gives the same output and leaves the same generator state IF its simulation cannot observe the store "
    "(C10_seeded_after_any_history; every drawing program of the first part qualifies, C10_lifted_after_any_history), "
    "and ONLY IF (C10_history_independent_needs_blind: earlier programs can leave anything in the store; a leak "
    "through the store is refuted on a toy generator, C10_store_leak_refuted); "
    "simphenotype never reads or writes process state when seeded (C10_simphenotype_after_any_history) and threads one "
    "generator through its replicates (replicate r+1 starts from the state r left; the re-seeding mutant yields copies "
    "for every generator, the threaded loop pairwise different noise for every generator that does not revisit a "
    "state); the replication loop on one simulator object appends, for every number of replications (induction on R), "
    "pheno(g, draw_k) as column k, so replicate k depends on the inputs and on the draw of replicate k only (stated "
    "for any two generators agreeing on draw k; the cached-genetic-component-updated-in-place loop is refuted). "
    "Tied to /repo on every run by double runs - Python entry points and CliRunner - where each of the two runs is "
    "preceded by its OWN generated history (numpy disturbances; earlier simgenotype runs on the same map directory, "
    "model and reference with another --region / chromosome subset / seed / --only_breakpoint; earlier simphenotype "
    "runs with other options on the same files; loads of the inputs with the haptools readers; one history possibly "
    "empty; run A sometimes in a fresh interpreter), comparing the generator state at every np.random call / around "
    "every replicate with the model, checking that every change of the global generator went through a recorded call "
    "and that no other generator was created, and .bp / VCF-BCF-PGEN content / .pheno bytes with each other; and by "
    "single runs with 2-6 replications whose recorded float noise vectors, written columns and zero-noise genetic "
    "component are checked inside Coq: column_k - noise_k is one vector for all k (case/control: the cases are a top "
    "set of genetic + noise_k), noise_k pairwise different, and (agreement) noise_k = the k-th consecutive draw of a "
    "copy of the simulator's generator, column_k = fl(genetic + noise_k) bit for bit. "
    "The interpreter's string-hash seed (PYTHONHASHSEED: a user's two runs are two interpreters whose sets of "
    "strings iterate in different orders) is one more component of the process model: it is fixed for the life of "
    "an interpreter (C10_hash_seed_fixed_per_interpreter); a seeded command whose simulation is store-blind and "
    "HASH-BLIND gives the same output and generator state in any two interpreters after any two histories "
    "(C10_seeded_across_interpreters; every drawing program of the first part: C10_lifted_across_interpreters), and "
    "only if (C10_across_interpreters_needs_hash_blind); simulate_pt's selection of requested effects by MEMBERSHIP "
    "(file order) is proved blind to hash seed and insertion order for every order-function that keeps the elements "
    "(C10_select_file_order_hash_blind, C10_simphenotype_across_interpreters), selection in the iteration order of "
    "the set of requested IDs is refuted on a toy order (C10_set_order_refuted). Tied to /repo on every run by a "
    "dozen double runs per relation whose two runs are made in two fresh interpreters with different PYTHONHASHSEED "
    "and, inside one process, by equal Python sets of requested IDs / samples filled in different insertion orders."
)
LEVEL_NOTE = (
    "Partial: numpy's generators are an abstract deterministic state machine (their determinism is trusted); "
    "'independent draws' is proved and checked structurally (one threaded generator, never re-created; every column "
    "= the one genetic component + the noise drawn for that replicate; noise vectors pairwise different on the real "
    "generator in every run), not statistically - no theorem says that consecutive draws of PCG64 are stochastically "
    "independent; "
    "the simgenotype theorems quantify over abstract drawing programs `prog` (Ret | Draw request continuation), NOT "
    "over the C01-C03 models: those models are functions of an already RECORDED list of draws (e.g. C01 sim_sample "
    "h0 hdraws events) and consume it on demand, and they are not re-expressed as `prog` terms here. What is proved "
    "instead is the bridge C10_run_replay / C10_recorded_model_history_independent: IF a stage's result is such a "
    "model applied to the draws recorded during the run (model i ds = replay (P i) ds - the statement the C01-C03 "
    "correspondences test on generated inputs but do not prove of the code), THEN the seeded command's output is that "
    "model applied to a draw list fixed by seed and inputs; the hypothesis is not discharged for the C01-C03 models; "
    "that haptools has NO OTHER PERSISTENT STATE than the generator - the hypothesis store_blind / gen_only of the "
    "history theorems, proved necessary and sufficient for reproducibility after arbitrary earlier programs - is not "
    "proved of the code: it is exactly what the correspondence run tests, by running other haptools calls on the same "
    "input files before one of two otherwise equal seeded runs (and run A in a fresh interpreter in a tenth of the "
    "cases); a leak that needs an earlier call of a kind the generator does not produce (another sub-command than "
    "simgenotype / simphenotype / the readers, rewritten input files, state kept outside the process such as an "
    "on-disk cache) is not exercised; "
    "that the simulators use no other source of randomness than the modelled generator is established by the "
    "double runs (byte/content equality, equal np.random call traces of the legacy global API, no state change of "
    "the global generator outside a recorded call, no np.random.default_rng / RandomState / Generator / stdlib random use inside "
    "simgenotype and exactly one default_rng inside simphenotype; a generator obtained in another way - a C "
    "extension, numpy.random._generator imported directly - would only show through differing outputs), not by proof; "
    "that the output never follows the iteration order of a set of strings - the hypothesis hash_blind of "
    "C10_seeded_across_interpreters, proved necessary and sufficient for reproducibility across interpreters - is not "
    "proved of the code either (only the one selection statement of simulate_pt's .snplist branch is modelled, as "
    "select_file_order): 'hash-blind' is exactly what the cross-interpreter stream tests - run A and run B in two fresh "
    "/venv/bin/python interpreters with different PYTHONHASHSEED (one unset = random in a third of them), same seed and "
    "inputs, on the input classes where sets / dicts of strings are in play (2-6 effects requested by ID from a "
    ".snplist or .hap through --id / --ids-file / haplotype_ids, sample selections, several chromosomes / contigs, "
    "populations, POP / SAMPLE fields, --no_replacement, replications), 12 cases per relation in quick; an order "
    "dependence that needs another input class (e.g. --repeats, --region with IDs, > 6 requested IDs) is not "
    "exercised, and two given hash seeds order a given handful of k strings alike with probability ~1/k!; for PGEN "
    "(and VCF header) output the ORDER of the ##contig lines follows PYTHONHASHSEED on the unchanged tree "
    "(fixes/C10_contig_order.patch, pending): the property asks for identical genotype content there, so holds "
    "compares meta lines as a multiset."
)
TECHNIQUE = "Coq proof over an abstract generator (Section variables) + vm_compute-evaluated double-run correspondence"


if __name__ == "__main__":
    _subprocess_main()
