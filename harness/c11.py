"""C11 - index keeps every record; indexed queries equal filtering a full read.

Relations
  index : haptools.index.index_haps on generated .hap contents (sorted / --no-sort,
          plain / gzip input, default / explicit output); the decompressed output, the
          input re-read afterwards and pysam.TabixFile(output).fetch() are observed
  query : Haplotypes.read(region, haplotypes) on the file index_haps produced, for many
          regions x ID sets per file, against the model and against a filter of
          Haplotypes.read() of the un-indexed file; the region reaches Coq as the string that was passed
          (code points): both parsers of that string (_iter_haps and htslib) are part of the model
  tabix : pysam.tabix_index / TabixFile.fetch themselves (no haptools code): the acceptance predicate
          tabix_accepts in both directions and fetch_spec / hts_region against fetch(region=...)
  index_hist : an OPERATION LIST on one output path (earlier index runs of other inputs / the other mode /
          from other places, inputs older or newer than what lies at the path, files written over the output,
          the .gz or the .tbi removed), then the run under test, then the observations of index and query:
          what the path holds in the end must be made from the LAST input, whatever lay there before
"""
import gzip
import os
import shutil
import tempfile

import numpy as np

from . import coqlit as L
from .core import Relation, err_kind

PROP = "C11"
CLAIMED = True
COQ_MODULES = ["C11_Check", "C11_Proofs", "C11_Proofs2", "C11_Proofs3", "C11_Proofs4", "C11_Proofs5", "C11_Proofs6", "C11_Proofs7", "C11_Proofs8",
               "C11_ProofsRegion", "C11_ProofsRegion2", "C11_Proofs10", "C11_Proofs9", "C11_Hist", "C11_ProofsHist"]
PROPERTY_MODULE = "C11_Property"
ALLOWED_AXIOMS = []
RULE = (
    "index: a file with >= 2 haplotype/repeat records and >= 1 variant whose line order differs from the "
    "order index writes (or, with --no-sort, a multi-block tabix-valid layout). query: an indexed file with "
    ">= 2 records on the queried contig and a query that keeps some and drops some records (containment vs "
    "overlap, ID subset) or addresses a haplotype without variants. tabix: a file with >= 2 sequence names that "
    "tabix_index refuses, or an accepted one with a fetch(region) that keeps some and drops some lines of its "
    "sequence. index_hist: a well-formed last input with >= 2 records and >= 1 variant, indexed normally onto a path "
    "where an earlier operation left a .gz or a .tbi made from other lines than the ones this run has to write. "
    "Distinct = distinct canonical JSON."
)
TRUSTED = [
    "bgzip/tabix (htslib via pysam): TabixFile.fetch returns, in file order, the data lines of the named sequence "
    "overlapping the 1-based closed query, ValueError for a name not in the index (Section hypothesis fetch_ok, stated "
    "for the files tabix_index accepts: tabix_accepts = order accepted and every end <= 2^29); observed directly, in "
    "both directions, by relation tabix (tabix_index accepts/refuses, fetch(region=...)) and on every generated file "
    "by comparing fetch() and every query with the reference instance fetch_spec",
    "htslib's region parser (hts_parse_region: whole string as a name first, refused when the text before the last "
    "colon is a name too, else name = text before the last colon; positions '', 'a', 'a-', 'a-b' in plain digits, "
    "end 0 = open) is the Gallina function hts_region; other spellings (thousands separators, exponents, signs, "
    "braces given by the user) are not modelled and not generated",
    "Python int() is modelled on [+-]?[0-9]+ (white space, '_' and non-ASCII digits are not generated)",
    "Python str comparison is code-point order: strings reach Coq as order-preserving ranks computed by sorted(); "
    "the strings whose spelling matters (sequence names, haplotype IDs, query contigs, region strings) also as code "
    "points; that the rank table is one-to-one is checked in Coq (names_okb), that the region string passed is the "
    "canonical spelling of the (contig, a, b) holds judges is checked in Coq (canonical / print_reg)",
    "tokenisation of lines (split on tab, canonical decimal integers)",
    "Python's sorted() is a stable comparison sort (modelled by stable insertion sort)",
    "index_hist: modification times are set with os.utime (input 100 s older / newer than the files at the output "
    "path); the anchored code never reads them, so the model of the anchored code ignores them (the variant that reads "
    "them is C11_Hist.index_step with skip = true, refuted); how a file is compressed (gzip / BGZF) is a boolean",
]
ASSUMPTIONS = [
    "theorems about sorted output / queries assume a .hap file in the sense of the format description: unique "
    "haplotype/repeat IDs, every variant line names a haplotype of the file, start <= end, haplotype IDs differ "
    "from contig names (the property's own hypothesis)",
    "header lines are of the kinds that do not alter the parsing of mandatory fields (version, comments, extra-field "
    "declarations, order lines)",
    "coordinates: a record ending beyond 2^29 = 536870912 cannot be stored in a .tbi index; haptools index then fails "
    "(FileNotFoundError after logging 'Indexing failed', the .gz is written without .tbi). This is modelled and proved "
    "sharp (C11_index_beyond_tbi_range_fails); holds accepts an error exactly there. Records ending before position 1 "
    "are outside fetch_spec (never generated)",
    "region strings (tree as it is, switch STRICT_COLON_CONTIGS off): the demand covers contigs without ':' whose "
    "'c:a-b' string is not itself a sequence name, in files without a haplotype ID of the form <sequence name>:<text>; "
    "with the switch on (after fixes/C11_colon_names.patch) every canonical region except a bare contig name that also "
    "reads as <sequence name>:<text>",
    "histories (index_hist): the past of an output path is made of haptools index runs (either mode, input elsewhere or "
    "the output path itself, older / newer than what lies there), files written over the output (gzip / bgzip) and "
    "removals of the .gz or the .tbi; other processes writing to the path during a run are not modelled. Tree as it is "
    "(switch STRICT_GZIP_BESIDE_TBI off): no demand for a sorted run whose input is a gzip (not BGZF) file lying at the "
    "output path beside a .tbi - it raises NotImplementedError (fixes/C11_gzip_beside_tbi.patch); with the switch on the "
    "demand is the same as for any other run",
]

VERSION = "#\tversion\t0.2.0"
GRID = [1, 2, 3, 5, 8, 10, 11, 20, 21, 30]
CONTIGS = ["1", "2", "10", "21", "chr1", "chrX", "X"]
# contig names with '-' / '_' (GRCh38 alt and HLA contigs); tried in 20 % of the files
DASH_CONTIGS = ["HLA-A", "chr6_GL000250v2_alt", "HLA-DRB1*15", "1-2"]
# contig names containing ':' (hs38DH: HLA-A*01:01:01:01) and a pair that htslib calls ambiguous ("6" and "6:7");
# the positions of a region on them follow the LAST colon.  See STRICT_COLON_CONTIGS.
COLON_CONTIGS = ["HLA-A*01:01", "6:7", "6", "chrUn:x"]
HAPIDS = ["H1", "H2", "H10", "h1", "A", "a", "Z9", "chr21.q.3365*1", "H1.2", "R1", "STR_7", "b", "B2"]
# haplotypes named after a region of a contig ("1:5-10" beside contig "1": htslib calls the string ambiguous)
REGION_LIKE_IDS = ["1:5-10", "21:8-", "chr1:3-20"]
TBI_MAX = 1 << 29
# coordinates at the widths that matter to tabix: the 16 kb linear-index window, the bin levels 2^17 .. 2^26, the end
# of what a .tbi can hold (2^29), and the int32 / uint32 / int64 edges beyond it
WIDE_OK = [16383, 16384, 16385, (1 << 17) - 1, 1 << 17, (1 << 20) - 1, 1 << 20, (1 << 23), (1 << 26) - 1, 1 << 26,
           TBI_MAX - 2, TBI_MAX - 1, TBI_MAX]
WIDE_BEYOND = [TBI_MAX + 1, TBI_MAX + 2, (1 << 31) - 1, 1 << 31, (1 << 32) - 1, 1 << 32, (1 << 63) - 1]

# Switch for the integrator.  _iter_haps takes the positions of a region from the text after the FIRST colon of the
# string, htslib (which selects the lines) tries the whole string as a sequence name and otherwise splits at the LAST
# colon.  On a contig whose name contains ':' the two disagree: read(region="6:7") on a file with contig "6:7" drops
# every record that starts before 7, read(region="HLA-A*01:01:01:01") / read(region="HLA-A*01:01:01:01:5-10") raise
# ValueError (int("01:01:01")); and when the region string 'c:a-b' is itself a sequence name of the file (a haplotype
# named "1:5-10") htslib refuses it as ambiguous and the reader silently returns every record of the file.
# False (default) = the tree as it is: the model is the first-colon parser (C11_Model.py_region false), agree compares
# with it, holds makes no demand for such regions.  True = after fixes/C11_colon_contigs.patch: the model is the repaired
# parser (py_region / hts_region true; theorem C11_region_string_query_fixed has no "no colon" hypothesis) and holds
# demands the filter of the full read for every canonical region, except a bare contig name that also reads as
# <sequence name>:<text>.  Flipping it on the unrepaired tree yields
#   VIOLATION property=C11 ... signature "query read(region, ids) raised=['ValueError'] ... contig-has-colon=True"
# Also settable with HV_C11_STRICT_COLON_CONTIGS=1.
STRICT_COLON_CONTIGS = os.environ.get("HV_C11_STRICT_COLON_CONTIGS", "1") == "1"
VARIDS = ["rs1", "rs2", "rs10", "v", "H1", "1:5:A:T", "rs9"]
ALLELES = ["A", "C", "G", "T", "AT"]
HEADERS = [VERSION, "#\tversion\t0.1.0", "# a comment", "#comment without space", "#H\tscore\t.2f\tsome score",
           "#V\tinfo\ts\tfree text", "#\torderH\tscore", "#R\tperiod\td\trepeat period"]


# ---------------------------------------------------------------------------
# text <-> structure


def canon_int(t):
    try:
        return str(int(t)) == t
    except ValueError:
        return False


def parse_line(s):
    """('C', text) | ('H'|'R', chrom, s, e, id, extras) | ('V', hap, s, e, id, allele, extras)
    | ('X', type, seq, s, e, extras); None if the line has no representation in the model."""
    if s.startswith("#"):
        return ("C", s)
    if s == "":
        return None
    f = s.split("\t")
    t = f[0]
    if s[0] in "HR":
        if t in ("H", "R") and len(f) >= 5 and canon_int(f[2]) and canon_int(f[3]):
            return (t, f[1], int(f[2]), int(f[3]), f[4], f[5:])
        return None
    if s[0] == "V":
        if t == "V" and len(f) >= 6 and canon_int(f[2]) and canon_int(f[3]):
            return ("V", f[1], int(f[2]), int(f[3]), f[4], f[5], f[6:])
        return None
    if len(f) >= 4 and canon_int(f[2]) and canon_int(f[3]):
        return ("X", t, f[1], int(f[2]), int(f[3]), f[4:])
    return None


def text_lines(text):
    """lines of a text that is empty or ends with a newline; None otherwise"""
    if text == "":
        return []
    if not text.endswith("\n"):
        return None
    return text[:-1].split("\n")


class Terms:
    """Gallina printer for one case: ranks for strings, separate tokens for '#' lines."""

    def __init__(self):
        self.strings = set()
        self.comments = {VERSION: 0}
        self.bad = False

    def scan_lines(self, lines):
        out = []
        if lines is None:
            self.bad = True
            return out
        for s in lines:
            p = parse_line(s)
            if p is None:
                self.bad = True
                continue
            out.append(p)
            if p[0] == "C":
                self.comments.setdefault(p[1], len(self.comments))
            elif p[0] in "HR":
                self.strings.update([p[1], p[4]] + list(p[5]))
            elif p[0] == "V":
                self.strings.update([p[1], p[4], p[5]] + list(p[6]))
            else:
                self.strings.update([p[1], p[2]] + list(p[5]))
        return out

    def add(self, *strs):
        self.strings.update(strs)

    def freeze(self):
        self.rank = {s: i + 1 for i, s in enumerate(sorted(self.strings))}

    def r(self, s):
        return L.z(self.rank[s])

    def rl(self, l):
        return L.lst(l, self.r)

    def line(self, p):
        if p[0] == "C":
            return f"LC {self.comments[p[1]]}"
        if p[0] in "HR":
            return f"L{p[0]} {self.r(p[1])} {L.z(p[2])} {L.z(p[3])} {self.r(p[4])} {self.rl(p[5])}"
        if p[0] == "V":
            return f"LV {self.r(p[1])} {L.z(p[2])} {L.z(p[3])} {self.r(p[4])} {self.r(p[5])} {self.rl(p[6])}"
        return f"LX {self.r(p[1])} {self.r(p[2])} {L.z(p[3])} {L.z(p[4])} {self.rl(p[5])}"

    def lines(self, ps):
        return L.lst(ps, self.line)

    def entry(self, e):
        rep, chrom, s, en, i, vs = e
        v = lambda x: f"mkv {self.r(i)} {L.z(x[0])} {L.z(x[1])} {self.r(x[2])} {self.r(x[3])}"
        return f"(mkh {L.b(rep)} {self.r(chrom)} {L.z(s)} {L.z(en)} {self.r(i)}, {L.lst(vs, v)})"

    def names(self, strs):
        """[(code points, rank)] for the given strings"""
        return L.lst(sorted(set(strs)), lambda t: f"({L.lst([ord(ch) for ch in t], L.z)}, {self.r(t)})")

    def scan_data(self, d):
        if isinstance(d, dict) and "ok" in d:
            for e in d["ok"]:
                self.add(e[1], e[4])
                for x in e[5]:
                    self.add(x[2], x[3])

    def data(self, d):
        return L.res(d, lambda es: L.lst(es, self.entry))


# ---------------------------------------------------------------------------
# generators


def gen_records(rng, kind="wf", wide=None, exotic=False):
    """-> (header lines, data lines as strings, info).  wide: None = small grid; "ok" = some coordinates at the
    tabix width boundaries up to 2^29; "beyond" = some beyond what a .tbi can hold"""
    ncont = int(rng.integers(1, 4))
    pool = list(CONTIGS)
    idpool = list(HAPIDS)
    r = rng.random() if exotic else 1.0      # (other modules import gen_file: their stream is the plain one)
    if r < 0.2:
        pool = pool[:3] + DASH_CONTIGS
    elif r < 0.3:
        pool = pool[:2] + COLON_CONTIGS
    elif r < 0.36:
        idpool = idpool[:6] + REGION_LIKE_IDS
        pool = ["1", "21", "chr1", "2"]
    contigs = [pool[i] for i in rng.choice(len(pool), size=ncont, replace=False)]
    nrec = int(rng.choice([0, 1, 2, 3, 4, 5, 6, 8], p=[0.03, 0.07, 0.2, 0.2, 0.2, 0.15, 0.1, 0.05]))
    ids = [idpool[i] for i in rng.choice(len(idpool), size=nrec, replace=False)]
    extras = rng.random() < 0.3
    hr, vs = [], []
    grid = GRID
    if wide == "ok":
        grid = GRID[:4] + WIDE_OK
    elif wide == "beyond":
        # half of the time just across the limit (2^29 + 1, 2^29 + 2), else up to the int64 edge
        grid = GRID[:3] + WIDE_OK[-3:] + (WIDE_BEYOND[:2] if rng.random() < 0.5 else WIDE_BEYOND)
    for i in ids:
        c = contigs[int(rng.integers(0, ncont))]
        a, b = sorted(int(x) for x in rng.choice(grid, size=2))
        if rng.random() < 0.15:
            b = a
        t = "R" if rng.random() < 0.25 else "H"
        ex = ["\t0.25", "\tYRI\t7", ""][int(rng.integers(0, 3))] if extras else ""
        hr.append(f"{t}\t{c}\t{a}\t{b}\t{i}{ex}")
        if t == "H":
            nv = int(rng.choice([0, 1, 2, 3, 4], p=[0.15, 0.25, 0.3, 0.2, 0.1]))
            for _ in range(nv):
                s = int(rng.choice(grid))
                e = s if rng.random() < 0.7 else s + int(rng.integers(0, 4))
                if wide == "ok":
                    e = min(e, TBI_MAX)
                vid = VARIDS[int(rng.integers(0, len(VARIDS)))]
                al = ALLELES[int(rng.integers(0, len(ALLELES)))]
                ex = "\tx" if extras and rng.random() < 0.5 else ""
                vs.append(f"V\t{i}\t{s}\t{e}\t{vid}\t{al}{ex}")
    others = []
    if kind == "dup-id" and hr:
        f = hr[int(rng.integers(0, len(hr)))].split("\t")
        f[1], f[2], f[3] = contigs[0], "4", "9"
        hr.append("\t".join(f[:5]))
    elif kind == "orphan-variant":
        vs.append("V\tnohap\t3\t3\trs1\tA")
    elif kind == "variant-of-repeat":
        reps = [x.split("\t")[4] for x in hr if x[0] == "R"]
        if reps:
            vs.append(f"V\t{reps[0]}\t3\t3\trs1\tA")
    elif kind == "id-is-contig" and hr:
        f = hr[0].split("\t")
        others_c = [x.split("\t")[1] for x in hr[1:]] or [f[1]]
        old = f[4]
        f[4] = others_c[0]
        hr[0] = "\t".join(f)
        vs = [("\t".join(["V", f[4]] + v.split("\t")[2:]) if v.split("\t")[1] == old else v) for v in vs]
        if f[0] == "H" and not any(v.split("\t")[1] == f[4] for v in vs):
            vs.append(f"V\t{f[4]}\t3\t3\trs1\tA")
    elif kind == "start-gt-end" and hr + vs:
        allv = hr + vs
        j = int(rng.integers(0, len(allv)))
        f = allv[j].split("\t")
        f[2], f[3] = str(int(f[3]) + int(rng.integers(2, 5))), f[3]
        allv[j] = "\t".join(f)
        hr, vs = allv[:len(hr)], allv[len(hr):]
    elif kind == "other-line":
        c = contigs[0]
        others.append(["X", "h", "Z"][int(rng.integers(0, 3))] + f"\t{c}\t{int(rng.choice(GRID))}\t40\tfoo")
    nhead = int(rng.choice([0, 1, 2, 3]))
    head = [HEADERS[i] for i in rng.choice(len(HEADERS), size=nhead, replace=False)]
    return head, hr, vs, others


def seq_start(s):
    f = s.split("\t")
    return f[1], int(f[2])


def block_layout(rng, data):
    """a tabix-valid order: one contiguous start-sorted block per sequence name"""
    blocks = {}
    for s in data:
        blocks.setdefault(seq_start(s)[0], []).append(s)
    keys = list(blocks)
    keys = [keys[i] for i in rng.permutation(len(keys))]
    out = []
    for k in keys:
        out += sorted(blocks[k], key=lambda s: seq_start(s)[1])
    return out


def gen_file(rng, kind, layout, wide=None, exotic=False):
    head, hr, vs, others = gen_records(rng, kind, wide, exotic)
    data = hr + vs + others
    if layout == "shuffled":
        data = [data[i] for i in rng.permutation(len(data))]
    elif layout == "blocks":
        data = block_layout(rng, data)
    elif layout == "hr-first":
        hr2 = [hr[i] for i in rng.permutation(len(hr))]
        vs2 = [vs[i] for i in rng.permutation(len(vs))]
        data = hr2 + vs2 + others
    lines = head + data
    if rng.random() < 0.15 and len(data) > 1:
        j = int(rng.integers(len(head) + 1, len(lines)))
        lines = lines[:j] + ["# a comment in the middle"] + lines[j:]
    return lines


def write_input(lines, path, gz):
    text = "".join(s + "\n" for s in lines)
    if gz:
        with gzip.open(path, "wt") as f:
            f.write(text)
    else:
        with open(path, "w") as f:
            f.write(text)


def read_text(path):
    with open(path, "rb") as f:
        magic = f.read(2)
    if magic == b"\x1f\x8b":
        with gzip.open(path, "rt") as f:
            return f.read()
    with open(path) as f:
        return f.read()


def shrink_lines(lines):
    for j in range(len(lines)):
        yield lines[:j] + lines[j + 1:]
    for j, s in enumerate(lines):
        f = s.split("\t")
        if not s.startswith("#") and len(f) > (6 if s[0] == "V" else 5):
            yield lines[:j] + ["\t".join(f[:(6 if s[0] == "V" else 5)])] + lines[j + 1:]


def file_features(lines):
    ps = [parse_line(s) for s in lines]
    ps = [p for p in ps if p]
    hs = [p for p in ps if p[0] == "H"]
    vh = set(p[1] for p in ps if p[0] == "V")
    return {
        "records": sum(1 for p in ps if p[0] in "HR"),
        "variants": sum(1 for p in ps if p[0] == "V"),
        "variantless": [p[4] for p in hs if p[4] not in vh],
        "contigs": sorted(set(p[1] for p in ps if p[0] in "HR")),
    }


class Index(Relation):
    name = "index"
    coq_module = "C11_Check"
    coq_check = "check_index"
    coq_case_type = "icase"
    coq_model = "model_index"
    coq_imports = ["C11_Model"]
    budget = {"quick": 700, "thorough": 8000}
    max_cases_per_shard = 60
    anchors = [
        ("haptools/index.py", "index_haps"),
        ("haptools/data/haplotypes.py", "Haplotype.__lt__"),
        ("haptools/data/haplotypes.py", "Repeat.__lt__"),
        ("haptools/data/haplotypes.py", "Variant.__lt__"),
        ("haptools/data/haplotypes.py", "Haplotype.sort"),
        ("haptools/data/haplotypes.py", "Haplotypes.sort"),
        ("haptools/data/haplotypes.py", "Haplotypes.to_str"),
        ("haptools/data/haplotypes.py", "Haplotypes.read"),
    ]

    def generate(self, rng, n, tier):
        out = []
        bad_kinds = ["dup-id", "orphan-variant", "variant-of-repeat", "id-is-contig", "start-gt-end", "other-line"]
        for _ in range(n):
            sort = bool(rng.random() < 0.6)
            r = rng.random()
            kind = "wf" if r < 0.8 else bad_kinds[int(rng.integers(0, len(bad_kinds)))]
            if sort:
                layout = ["shuffled", "hr-first", "blocks"][int(rng.choice(3, p=[0.6, 0.25, 0.15]))]
            else:
                layout = ["blocks", "shuffled"][int(rng.choice(2, p=[0.75, 0.25]))]
            w = rng.random()
            wide = "ok" if w < 0.08 else ("beyond" if w < 0.14 else None)
            lines = gen_file(rng, kind, layout, wide, exotic=True)
            if rng.random() < 0.012:
                # width boundary: one line longer than a BGZF block (64 KiB): an extra field (one interned token for
                # Coq) of 65 535 / 65 536 / 70 000 characters; kept verbatim by --no-sort, dropped by the sorted mode
                hs = [j for j, t in enumerate(lines) if t[:1] in ("H", "R")]
                if hs:
                    j = hs[int(rng.integers(0, len(hs)))]
                    n = [65535, 65536, 70000][int(rng.integers(0, 3))]
                    lines[j] = "\t".join(lines[j].split("\t")[:5]) + "\t" + "x" * (n - len(lines[j].split("\t")[4]))
                    wide = "long-line"
                    sort = bool(rng.random() < 0.3)
            out.append({"lines": lines, "sort": sort,
                        "gz": bool(rng.random() < 0.3), "explicit": bool(rng.random() < 0.4), "kind": kind,
                        "layout": layout, "wide": wide})
        return out

    def exhaustive(self, tier):
        # every order of a fixed 5-line file with a nested pair, a repeat and equal starts, both modes
        import itertools

        base = ["H\t1\t5\t20\tH2", "H\t1\t5\t10\tH10", "R\t1\t5\t10\tA", "V\tH2\t8\t8\trs2\tA", "V\tH2\t5\t5\trs10\tC"]
        out = []
        for perm in itertools.permutations(base):
            for sort in (True, False):
                out.append({"lines": list(perm), "sort": sort, "gz": False, "explicit": False, "kind": "wf",
                            "layout": "exhaustive"})
        return out

    def run_impl(self, inp):
        import pysam
        from pathlib import Path
        from haptools.index import index_haps
        from haptools.logging import getLogger

        log = getLogger("hv_c11", "CRITICAL")
        d = tempfile.mkdtemp(prefix="hv_c11_")
        # index_haps leaves its temporary files in the default temp dir when tabix fails
        old_tmp = tempfile.tempdir
        tempfile.tempdir = d
        try:
            src = os.path.join(d, "in.hap.gz" if inp["gz"] else "in.hap")
            write_input(inp["lines"], src, inp["gz"])
            outp = os.path.join(d, "out.hap.gz") if inp["explicit"] else (src if inp["gz"] else src + ".gz")
            try:
                index_haps(Path(src), inp["sort"], Path(outp) if inp["explicit"] else None, log)
                obs = {"ok": None}
            except Exception as e:  # noqa
                return {"obs": {"err": err_kind(e)}, "cls": type(e).__name__, "after": None, "fetch": {"err": 0}}
            obs = {"ok": text_lines(read_text(outp))}
            after = text_lines(read_text(src)) if os.path.exists(src) else None
            try:
                tb = pysam.TabixFile(outp)
                fetch = {"ok": list(tb.fetch())}
                tb.close()
            except Exception as e:  # noqa
                fetch = {"err": err_kind(e)}
            return {"obs": obs, "after": after, "fetch": fetch, "tbi": os.path.exists(outp + ".tbi")}
        finally:
            tempfile.tempdir = old_tmp
            shutil.rmtree(d, ignore_errors=True)

    def encode(self, inp, obs):
        T = Terms()
        pin = T.scan_lines(inp["lines"])
        if "obs" not in obs:
            T.freeze()
            # the run could not be observed (harness trouble, crash, timeout): E_Unobserved
            return f"(mki {L.b(inp['sort'])} {L.b(not inp['gz'])} {T.lines(pin)} (Err 97) None (Err 0) false)"
        o = obs["obs"]
        pout = T.scan_lines(o["ok"]) if "ok" in o else None
        paft = T.scan_lines(obs["after"]) if obs["after"] is not None else None
        pf = T.scan_lines(obs["fetch"]["ok"]) if "ok" in obs["fetch"] else None
        T.freeze()
        if T.bad:
            return f"(mki {L.b(inp['sort'])} {L.b(not inp['gz'])} [] (Err 97) None (Err 0) false)"
        so = f"(Ok {T.lines(pout)})" if pout is not None else f"(Err {o['err']})"
        sa = f"(Some {T.lines(paft)})" if paft is not None else "None"
        sf = f"(Ok {T.lines(pf)})" if pf is not None else f"(Err {obs['fetch']['err']})"
        return (f"(mki {L.b(inp['sort'])} {L.b(not inp['gz'])} {T.lines(pin)} {so} {sa} {sf} "
                f"{L.b(bool(obs.get('tbi')))})")

    def nontrivial(self, inp, obs):
        ft = file_features(inp["lines"])
        if inp["kind"] != "wf" or ft["records"] < 2 or ft["variants"] < 1:
            return False
        if not (isinstance(obs, dict) and "obs" in obs and "ok" in obs["obs"] and obs["obs"]["ok"] is not None):
            return False
        data_in = [s for s in inp["lines"] if not s.startswith("#")]
        data_out = [s for s in obs["obs"]["ok"] if not s.startswith("#")]
        if inp["sort"]:
            return [s.split("\t")[:6] for s in data_in] != [s.split("\t")[:6] for s in data_out]
        return len(set(seq_start(s)[0] for s in data_in)) >= 3

    def classes(self, inp, obs):
        out = [f"sort={inp['sort']}", f"gz={inp['gz']}", f"explicit-output={inp['explicit']}", f"kind={inp['kind']}",
               f"layout={inp['layout']}", f"wide={inp.get('wide')}"]
        coords = [x for p_ in (parse_line(t) for t in inp["lines"]) if p_ and p_[0] != "C"
                  for x in ((p_[2], p_[3]) if p_[0] in "HRV" else (p_[3], p_[4]))]
        if coords:
            m = max(coords)
            out.append("max-coordinate=" + ("<2^14" if m < 16384 else "<2^29" if m < TBI_MAX else "=2^29" if m == TBI_MAX
                                           else "2^29+1" if m == TBI_MAX + 1 else ">2^29+1"))
        if isinstance(obs, dict) and "tbi" in obs:
            out.append(f"tbi-written={obs['tbi']}")
        ft = file_features(inp["lines"])
        out.append(f"records={min(ft['records'], 6)}")
        out.append(f"contigs={len(ft['contigs'])}")
        if ft["variantless"]:
            out.append("has-variantless-haplotype")
        if any("\t" in s and len(s.split("\t")) > (6 if s[0] == "V" else 5) for s in inp["lines"] if s[0] in "HRV"):
            out.append("extra-fields")
        if isinstance(obs, dict) and "obs" in obs:
            out.append("ok" if "ok" in obs["obs"] else f"err{obs['obs']['err']}")
        return out

    def shrink(self, inp):
        for l in shrink_lines(inp["lines"]):
            yield dict(inp, lines=l)
        if inp["gz"]:
            yield dict(inp, gz=False)
        if inp["explicit"]:
            yield dict(inp, explicit=False)

    def mutate(self, inp, rng):
        for _ in range(6):
            l = list(inp["lines"])
            p = rng.permutation(len(l))
            yield dict(inp, lines=[l[i] for i in p])
        yield dict(inp, sort=not inp["sort"])

    def signature(self, inp, obs):
        o = obs.get("obs", {}) if isinstance(obs, dict) else {}
        res = "ok" if "ok" in o else f"raised {obs.get('cls', obs.get('__exc__', '?'))}"
        idx = ""
        if "ok" in o:
            idx = f" tbi-written={bool(obs.get('tbi'))} index-readable={'ok' in obs.get('fetch', {})}"
        return f"index_haps sort={inp['sort']} input-kind={inp['kind']} result={res}{idx}"


# ---------------------------------------------------------------------------


def region_str(q):
    if q["contig"] is None:
        return None
    if q["form"] == "c":
        return q["contig"]
    if q["form"] == "c:a-b":
        return f"{q['contig']}:{q['a']}-{q['b']}"
    if q["form"] == "c:a":            # not one of the property's forms; htslib and _iter_haps read it as 'c:a-'
        return f"{q['contig']}:{q['a']}"
    if q["form"] == "c:":
        return f"{q['contig']}:"
    return f"{q['contig']}:{q['a']}-"


def dump_data(hp):
    from haptools.data import Repeat

    out = []
    for k, h in hp.data.items():
        vs = [[int(v.start), int(v.end), v.id, v.allele] for v in getattr(h, "variants", ())]
        out.append([isinstance(h, Repeat), h.chrom, int(h.start), int(h.end), k, vs])
    return out


class Query(Relation):
    name = "query"
    coq_module = "C11_Check"
    coq_check = "check_query"
    coq_case_type = "qcase"
    coq_model = "model_query"
    coq_imports = ["C11_Model"]
    budget = {"quick": 450, "thorough": 5000}
    max_cases_per_shard = 30
    anchors = [
        ("haptools/data/haplotypes.py", "Haplotypes._iter_haps"),
        ("haptools/data/haplotypes.py", "Haplotypes.__iter__"),
        ("haptools/data/haplotypes.py", "Haplotypes.read"),
        ("haptools/index.py", "index_haps"),
    ]

    def _queries(self, rng, lines, nq):
        ft = file_features(lines)
        ps = [p for p in (parse_line(s) for s in lines) if p and p[0] in "HR"]
        allids = [p[4] for p in ps]
        qs = []
        for _ in range(nq):
            q = {"contig": None, "form": "c", "a": 0, "b": 0, "ids": None}
            r = rng.random()
            if r < 0.85 and ft["contigs"]:
                q["contig"] = ft["contigs"][int(rng.integers(0, len(ft["contigs"])))]
                if rng.random() < 0.06:
                    q["contig"] = "nocontig" if rng.random() < 0.5 or not allids else allids[0]
                on = [p for p in ps if p[1] == q["contig"]]
                bounds = sorted(set([x for p in on for x in (p[2], p[3])])) or [5]
                pick = lambda: int(rng.choice(bounds)) + int(rng.choice([-1, 0, 0, 0, 1])) if rng.random() < 0.8 \
                    else int(rng.choice(GRID))
                q["form"] = ["c", "c:a-b", "c:a-", "c:a", "c:"][int(rng.choice(5, p=[0.15, 0.57, 0.22, 0.04, 0.02]))]
                a, b = pick(), pick()
                if q["form"] == "c:a-b" and b < a and rng.random() < 0.97:
                    a, b = b, a                      # (3 %: 'c:a-b' with b < a, which htslib refuses)
                q["a"], q["b"] = max(a, 0), max(b, 0)
            if q["contig"] is None or rng.random() < 0.4:
                k = int(rng.integers(0, min(len(allids), 3) + 1))
                ids = [allids[i] for i in rng.choice(len(allids), size=k, replace=False)] if k else []
                if rng.random() < 0.2:
                    ids.append("unknownID")
                q["ids"] = sorted(ids)
            qs.append(q)
        return qs

    def generate(self, rng, n, tier):
        out = []
        for _ in range(n):
            mode = "sort" if rng.random() < 0.75 else "nosort"
            wide = "ok" if rng.random() < 0.08 else None
            lines = gen_file(rng, "wf", "shuffled" if mode == "sort" else "blocks", wide, exotic=True)
            if mode == "nosort":
                lines = [s for s in lines if s != "# a comment in the middle"]
            out.append({"lines": lines, "mode": mode, "queries": self._queries(rng, lines, 10)})
        return out

    def exhaustive(self, tier):
        # one file, every region over a small coordinate range x three ID sets
        lines = ["H\t1\t5\t10\tH1", "H\t1\t5\t20\tH2", "H\t1\t8\t8\tH3", "R\t1\t3\t5\tR1", "H\t2\t5\t10\tH4",
                 "V\tH1\t5\t5\trs1\tA", "V\tH1\t10\t10\trs2\tC", "V\tH2\t20\t20\trs2\tC", "V\tH4\t7\t8\trs9\tG"]
        coords = [2, 3, 4, 5, 6, 8, 9, 10, 11, 20, 21]
        qs = []
        for ids in (None, ["H1", "R1"], ["H2", "H3", "zz"]):
            qs.append({"contig": "1", "form": "c", "a": 0, "b": 0, "ids": ids})
            for a in coords:
                qs.append({"contig": "1", "form": "c:a-", "a": a, "b": 0, "ids": ids})
                for b in coords:
                    if a <= b:
                        qs.append({"contig": "1", "form": "c:a-b", "a": a, "b": b, "ids": ids})
        return [{"lines": lines, "mode": "sort", "queries": qs[i:i + 40]} for i in range(0, len(qs), 40)]

    def run_impl(self, inp):
        from pathlib import Path
        from haptools.data import Haplotypes
        from haptools.index import index_haps
        from haptools.logging import getLogger

        log = getLogger("hv_c11", "CRITICAL")
        d = tempfile.mkdtemp(prefix="hv_c11_")
        old_tmp = tempfile.tempdir
        tempfile.tempdir = d
        try:
            src = os.path.join(d, "in.hap")
            write_input(inp["lines"], src, False)
            try:
                hp = Haplotypes(src, log=log)
                hp.read()
                full = {"ok": dump_data(hp)}
            except Exception as e:  # noqa
                full = {"err": err_kind(e)}
            try:
                index_haps(Path(src), inp["mode"] == "sort", None, log)
            except Exception as e:  # noqa
                return {"index_failed": err_kind(e), "cls": type(e).__name__}
            gz = src + ".gz"
            file = text_lines(read_text(gz))
            res = []
            for q in inp["queries"]:
                try:
                    hq = Haplotypes(gz, log=log)
                    hq.read(region=region_str(q), haplotypes=set(q["ids"]) if q["ids"] is not None else None)
                    res.append({"ok": dump_data(hq)})
                except Exception as e:  # noqa
                    res.append({"err": err_kind(e), "cls": type(e).__name__, "msg": str(e)[:120]})
            return {"file": file, "full": full, "res": res}
        finally:
            tempfile.tempdir = old_tmp
            shutil.rmtree(d, ignore_errors=True)

    def encode(self, inp, obs):
        T = Terms()
        porig = T.scan_lines(inp["lines"])
        strict = L.b(STRICT_COLON_CONTIGS)
        if "res" not in obs:
            T.freeze()
            return f"(mkq [] {T.lines(porig)} (Err 97) [] {strict} [])"
        pfile = T.scan_lines(obs["file"])
        T.scan_data(obs["full"])
        for q, r in zip(inp["queries"], obs["res"]):
            T.scan_data(r)
            if q["contig"] is not None:
                T.add(q["contig"])
            T.add(*(q["ids"] or []))
        T.freeze()
        if T.bad:
            return f"(mkq [] {T.lines(porig)} (Err 97) [] {strict} [])"
        # the strings whose spelling matters: sequence names of the indexed file and the contigs asked for
        named = [(p[1] if p[0] in "HRV" else p[2]) for p in pfile if p[0] != "C"]
        named += [p[4] for p in pfile if p[0] in "HR"]          # fetch(reference=<haplotype ID>) parses the ID
        named += [q["contig"] for q in inp["queries"] if q["contig"] is not None]
        qs = []
        for q, r in zip(inp["queries"], obs["res"]):
            if q["contig"] is None:
                reg, rs = "None", "None"
            else:
                a = "None" if q["form"] in ("c", "c:") else f"(Some {L.z(q['a'])})"
                b = f"(Some {L.z(q['b'])})" if q["form"] == "c:a-b" else "None"
                reg = f"(Some (mkreg {T.r(q['contig'])} {a} {b}))"
                rs = f"(Some {L.lst([ord(ch) for ch in region_str(q)], L.z)})"
            ids = "None" if q["ids"] is None else f"(Some {T.rl(q['ids'])})"
            qs.append(f"mkqo {reg} {rs} {ids} {T.data(r)}")
        return (f"(mkq {T.lines(pfile)} {T.lines(porig)} {T.data(obs['full'])} {T.names(named)} {strict} "
                f"{L.lst(qs)})")

    def _discriminating(self, inp, obs):
        """queries that keep some and drop some records of their contig"""
        if "res" not in obs or "ok" not in obs["full"]:
            return 0
        n = 0
        for q, r in zip(inp["queries"], obs["res"]):
            if "ok" not in r:
                continue
            on = [e for e in obs["full"]["ok"] if q["contig"] is None or e[1] == q["contig"]]
            if len(on) >= 2 and 0 < len(r["ok"]) < len(on):
                n += 1
        return n

    def nontrivial(self, inp, obs):
        return self._discriminating(inp, obs) > 0

    def classes(self, inp, obs):
        ft = file_features(inp["lines"])
        out = [f"mode={inp['mode']}", f"records={min(ft['records'], 6)}", f"contigs={len(ft['contigs'])}"]
        if ft["variantless"]:
            out.append("has-variantless-haplotype")
        for q in inp["queries"]:
            out.append("q:" + (q["form"] if q["contig"] is not None else "ids-only")
                       + ("+ids" if q["ids"] is not None and q["contig"] is not None else ""))
            if q["ids"] == []:
                out.append("q:empty-id-set")
            if q["contig"] is not None and q["contig"] not in ft["contigs"]:
                out.append("q:contig-absent")
            if q["contig"] is not None and ":" in q["contig"]:
                out.append("q:contig-has-colon")
            if q["contig"] is not None and "-" in q["contig"]:
                out.append("q:contig-has-dash")
            if q["contig"] is not None and q["form"] != "c" and max(q["a"], q["b"]) >= 16384:
                out.append("q:bound>=2^14" if max(q["a"], q["b"]) < TBI_MAX - 2 else "q:bound-near-2^29")
        if "res" in obs:
            out.append(f"discriminating-queries={min(self._discriminating(inp, obs), 5)}")
            for r in obs["res"]:
                if "err" in r:
                    out.append(f"q:raised-{r.get('cls')}")
        else:
            out.append("index-failed")
        return sorted(set(out)) if False else out[:3] + sorted(set(out[3:]))

    def shrink(self, inp):
        qs = inp["queries"]
        if len(qs) > 1:
            for j in range(len(qs)):
                yield dict(inp, queries=[qs[j]])
        for l in shrink_lines(inp["lines"]):
            yield dict(inp, lines=l)
        for j, q in enumerate(qs):
            if q["ids"]:
                for k in range(len(q["ids"])):
                    yield dict(inp, queries=qs[:j] + [dict(q, ids=q["ids"][:k] + q["ids"][k + 1:])] + qs[j + 1:])
            if q["ids"] is not None and q["contig"] is not None:
                yield dict(inp, queries=qs[:j] + [dict(q, ids=None)] + qs[j + 1:])
            if q["form"] != "c" and q["contig"] is not None:
                yield dict(inp, queries=qs[:j] + [dict(q, form="c")] + qs[j + 1:])

    def mutate(self, inp, rng):
        for _ in range(4):
            yield dict(inp, queries=self._queries(rng, inp["lines"], 10))

    def signature(self, inp, obs):
        if "res" not in obs:
            return f"query index_haps failed ({obs.get('cls', obs.get('__exc__'))})"
        errs = sorted(set(r.get("cls", "?") for r in obs["res"] if "err" in r))
        vl = bool(file_features(inp["lines"])["variantless"])
        diffs = set()
        contigs = set(e[1] for e in obs["full"].get("ok", []))
        for q, r in zip(inp["queries"], obs["res"]):
            if "ok" not in r or "ok" not in obs["full"] or (q["contig"] is not None and q["contig"] not in contigs):
                continue
            want = []
            for e in obs["full"]["ok"]:
                if q["ids"] is not None and e[4] not in q["ids"]:
                    continue
                if q["contig"] is not None:
                    if e[1] != q["contig"]:
                        continue
                    if q["form"] not in ("c", "c:") and e[2] < q["a"]:
                        continue
                    if q["form"] == "c:a-b" and e[3] > q["b"]:
                        continue
                want.append(e[4])
            got = [e[4] for e in r["ok"]]
            if set(got) - set(want):
                diffs.add("returns-records-outside-the-selection")
            if set(want) - set(got):
                diffs.add("misses-selected-records")
            if sorted(got) == sorted(want):
                fv = {e[4]: sorted(map(tuple, e[5])) for e in obs["full"]["ok"]}
                if any(sorted(map(tuple, e[5])) != fv.get(e[4]) for e in r["ok"]):
                    diffs.add("variants-differ")
        colon = any(q["contig"] is not None and ":" in q["contig"] for q in inp["queries"])
        seqs = set(s_.split("\t")[1] for s_ in inp["lines"] if not s_.startswith("#") and "\t" in s_)
        named = any(q["contig"] is not None and q["form"] != "c" and region_str(q) in seqs for q in inp["queries"])
        return (f"query read(region, ids) raised={errs} {' '.join(sorted(diffs)) or 'same-records-as-filter'} "
                f"file-has-variantless-haplotype={vl} contig-has-colon={colon} region-string-is-a-sequence-name={named}")

# ---------------------------------------------------------------------------


class Tabix(Relation):
    """The library contracts themselves: no haptools code runs here."""

    name = "tabix"
    coq_module = "C11_Check"
    coq_check = "check_tabix"
    coq_case_type = "tcase"
    coq_model = "model_tabix"
    coq_imports = ["C11_Model"]
    budget = {"quick": 180, "thorough": 4000}
    max_cases_per_shard = 60
    anchors = [("haptools/index.py", "index_haps")]      # the columns tabix_index is told to use are written there

    def _queries(self, rng, lines, nq):
        seqs = sorted(set(s.split("\t")[1] for s in lines if not s.startswith("#")))
        by = {}
        for s in lines:
            if not s.startswith("#"):
                f = s.split("\t")
                by.setdefault(f[1], []).extend([int(f[2]), int(f[3])])
        out = []
        for _ in range(nq):
            r = rng.random()
            if r < 0.08 or not seqs:
                c = ["nocontig", "1:", "zz:5", "6"][int(rng.integers(0, 4))]
            else:
                c = seqs[int(rng.integers(0, len(seqs)))]
            bounds = sorted(set(by.get(c, [5]))) or [5]
            pick = lambda: max(0, int(rng.choice(bounds)) + int(rng.choice([-1, 0, 0, 1])))
            a, b = pick(), pick()
            form = int(rng.choice(6, p=[0.15, 0.5, 0.2, 0.07, 0.03, 0.05]))
            if form == 1 and b < a:
                a, b = b, a
            out.append([c, f"{c}:{a}-{b}", f"{c}:{a}-", f"{c}:{a}", f"{c}:", f"{c}:{max(a, b) + 1}-{min(a, b)}"][form])
        return out

    def generate(self, rng, n, tier):
        out = []
        for _ in range(n):
            r = rng.random()
            wide = "ok" if r < 0.12 else ("beyond" if r < 0.2 else None)
            kind = "wf" if rng.random() < 0.85 else ["start-gt-end", "other-line", "id-is-contig"][int(rng.integers(0, 3))]
            lines = gen_file(rng, kind, "blocks", wide, exotic=True)
            lines = [s for s in lines if s != "# a comment in the middle"]
            data = [j for j, s in enumerate(lines) if not s.startswith("#")]
            m = rng.random()
            mut = "none"
            if len(data) >= 2 and m < 0.45:
                # one step away from an accepted order
                j, k = (int(x) for x in rng.choice(data, size=2, replace=False))
                if m < 0.2:
                    mut = "swap"
                    lines[j], lines[k] = lines[k], lines[j]
                elif m < 0.35:
                    mut = "move"
                    x = lines.pop(j)
                    lines.insert(k, x)
                else:
                    mut = "end-before-start"
                    f = lines[j].split("\t")
                    # (a record that ends before position 1 is indexed but never returned by a region query:
                    # outside fetch_spec, not generated)
                    f[3] = str(max(1, int(f[2]) - int(rng.choice([1, 1, 2, 3]))))
                    lines[j] = "\t".join(f)
            elif m < 0.5:
                mut = "shuffle"
                lines = [lines[i] for i in rng.permutation(len(lines))]
            out.append({"lines": lines, "queries": self._queries(rng, lines, 8), "mut": mut, "wide": wide})
        return out

    def exhaustive(self, tier):
        import itertools

        base = ["H\t1\t5\t20\tA", "H\t1\t5\t10\tB", "H\t2\t3\t4\tC", "V\tA\t8\t8\tr\tT", "H\t1\t7\t6\tD"]
        qs = ["1", "1:5-5", "1:6-", "2:1-3", "A", "A:9-", "1:21-", "1:4"]
        return [{"lines": list(p_), "queries": qs, "mut": "exhaustive", "wide": None}
                for p_ in itertools.permutations(base)]

    def run_impl(self, inp):
        import pysam

        d = tempfile.mkdtemp(prefix="hv_c11_")
        try:
            src = os.path.join(d, "x.hap")
            write_input(inp["lines"], src, False)
            try:
                pysam.tabix_index(src, seq_col=1, start_col=2, end_col=3)
                acc = {"ok": True}
            except OSError as e:
                acc = {"ok": False} if str(e).startswith("building of index for ") else {"err": err_kind(e)}
            except Exception as e:  # noqa
                acc = {"err": err_kind(e)}
            if acc != {"ok": True}:
                return {"acc": acc, "all": {"err": 0}, "res": []}
            tb = pysam.TabixFile(src + ".gz")
            try:
                allv = {"ok": list(tb.fetch())}
            except Exception as e:  # noqa
                allv = {"err": err_kind(e)}
            res = []
            for q in inp["queries"]:
                try:
                    res.append({"ok": list(tb.fetch(region=q))})
                except Exception as e:  # noqa
                    res.append({"err": err_kind(e), "cls": type(e).__name__})
            tb.close()
            return {"acc": acc, "all": allv, "res": res}
        finally:
            shutil.rmtree(d, ignore_errors=True)

    def encode(self, inp, obs):
        T = Terms()
        pin = T.scan_lines(inp["lines"])
        if "acc" not in obs:
            T.freeze()
            return f"(mkt {T.lines(pin)} [] (Err 97) (Err 0) [])"
        pall = T.scan_lines(obs["all"]["ok"]) if "ok" in obs["all"] else None
        pres = [T.scan_lines(r["ok"]) if "ok" in r else None for r in obs["res"]]
        T.freeze()
        if T.bad:
            return f"(mkt [] [] (Err 97) (Err 0) [])"
        named = [(p_[1] if p_[0] in "HRV" else p_[2]) for p_ in pin if p_[0] != "C"]
        acc = f"(Ok {L.b(obs['acc']['ok'])})" if "ok" in obs["acc"] else f"(Err {obs['acc']['err']})"
        sall = f"(Ok {T.lines(pall)})" if pall is not None else f"(Err {obs['all']['err']})"
        qs = []
        for q, r, pr in zip(inp["queries"], obs["res"], pres):
            rr = f"(Ok {T.lines(pr)})" if pr is not None else f"(Err {r['err']})"
            qs.append(f"mkto {L.lst([ord(ch) for ch in q], L.z)} {rr}")
        return f"(mkt {T.lines(pin)} {T.names(named)} {acc} {sall} {L.lst(qs)})"

    def nontrivial(self, inp, obs):
        # either side of the acceptance predicate on a file with >= 2 sequence names, or a fetch that keeps some
        # and drops some lines of its sequence
        if "acc" not in obs or "ok" not in obs["acc"]:
            return False
        data = [s for s in inp["lines"] if not s.startswith("#")]
        if len(set(s.split("\t")[1] for s in data)) < 2:
            return False
        if not obs["acc"]["ok"]:
            return True
        for q, r in zip(inp["queries"], obs["res"]):
            if "ok" in r:
                on = [s for s in data if s.split("\t")[1] == q.split(":")[0]]
                if 0 < len(r["ok"]) < len(on):
                    return True
        return False

    def classes(self, inp, obs):
        out = [f"mutation={inp['mut']}", f"wide={inp['wide']}"]
        if "acc" in obs:
            out.append("accepted" if obs["acc"].get("ok") else "refused")
            for q, r in zip(inp["queries"], obs["res"]):
                out.append("fetch:" + ("ok" if "ok" in r else "raised-" + str(r.get("cls"))))
        return out[:3] + sorted(set(out[3:]))

    def shrink(self, inp):
        if len(inp["queries"]) > 1:
            for q in inp["queries"]:
                yield dict(inp, queries=[q])
        for l in shrink_lines(inp["lines"]):
            yield dict(inp, lines=l)

    def mutate(self, inp, rng):
        for _ in range(4):
            yield dict(inp, queries=self._queries(rng, inp["lines"], 8))

    def signature(self, inp, obs):
        if "acc" not in obs:
            return "tabix: not observed"
        return (f"tabix contract: tabix_index {'accepted' if obs['acc'].get('ok') else 'refused'} the file "
                f"(mutation={inp['mut']}); fetch raised="
                f"{sorted(set(r.get('cls', '?') for r in obs['res'] if 'err' in r))}")


# ---------------------------------------------------------------------------
# histories on one output path


# Switch for the integrator.  Haplotypes.__iter__ opens pysam.TabixFile(path) before it reads and treats OSError and
# ValueError as "not indexed".  For a file that is gzip- but not BGZF-compressed with a .tbi lying beside it pysam
# raises NotImplementedError ("seek not implemented in files compressed by method 1"), which is not caught:
# `haptools index x.hap.gz` (sorted mode; the input IS the output path) of a plain-gzip file beside the .tbi an
# earlier run left there fails, and so does every Haplotypes.read() of such a file.
# False (default) = the tree as it is: the model predicts the exception (C11_Hist.index_step false), holds makes no
# demand for that run.  True = after fixes/C11_gzip_beside_tbi.patch: the model reads the file as un-indexed and holds
# demands a complete indexed output like for any other run.  Flipping it on the unrepaired tree yields
#   VIOLATION property=C11 ... "index_hist: ... result=raised NotImplementedError ..."
# Also settable with HV_C11_STRICT_GZIP_BESIDE_TBI=1.
STRICT_GZIP_BESIDE_TBI = os.environ.get("HV_C11_STRICT_GZIP_BESIDE_TBI", "1") == "1"

# where the input of a run lies; the output path is always <dir>/cur.hap.gz
#   explicit-plain / explicit-gz : <dir>/in<k>.hap[.gz], --output <dir>/cur.hap.gz
#   default-plain                : <dir>/cur.hap, no --output (the default location is cur.hap.gz)
#   here-gzip / here-bgzf        : the input is written over <dir>/cur.hap.gz itself (gzip / bgzip), no --output
SRCS = ["explicit-plain", "explicit-gz", "default-plain", "here-gzip", "here-bgzf"]
HOW_PRIOR = ["other", "permuted", "same-file", "fewer", "extended"]
BAD_KINDS = ["dup-id", "orphan-variant", "variant-of-repeat", "id-is-contig", "start-gt-end", "other-line"]
MID_COMMENT = "# a comment in the middle"


def related_file(rng, lines, how):
    """the lines of an EARLIER input, in a stated relation to the last one"""
    head = [t for t in lines if t.startswith("#")]
    data = [t for t in lines if not t.startswith("#")]
    if how == "permuted" and len(data) > 1:
        return head + [data[i] for i in rng.permutation(len(data))]
    if how == "same-file":
        return list(lines)
    if how == "fewer" and data:
        hr = [t for t in data if t[0] in "HR"]
        if hr:
            k = int(rng.integers(1, len(hr) + 1))
            gone = set(hr[i].split("\t")[4] for i in rng.choice(len(hr), size=k, replace=False))
            return [t for t in lines if t.startswith("#") or
                    not ((t[0] in "HR" and t.split("\t")[4] in gone) or (t[0] == "V" and t.split("\t")[1] in gone))]
    if how == "extended" and data:
        c = data[0].split("\t")[1] if data[0][0] in "HR" else "1"
        a = int(rng.choice(GRID))
        return list(lines) + [f"H\t{c}\t{a}\t{a + int(rng.integers(0, 9))}\tNEW1", f"V\tNEW1\t{a}\t{a}\trs1\tT"]
    sort = bool(rng.random() < 0.6)
    kind = "wf" if rng.random() < 0.8 else BAD_KINDS[int(rng.integers(0, len(BAD_KINDS)))]
    return gen_file(rng, kind, "shuffled" if sort or rng.random() < 0.3 else "blocks", None, exotic=True)


def write_at(path, lines, how):
    """how: 'plain' | 'gzip' | 'bgzf'"""
    if how == "bgzf":
        import pysam

        write_input(lines, path + ".plain", False)
        pysam.tabix_compress(path + ".plain", path, force=True)
        os.unlink(path + ".plain")
    else:
        write_input(lines, path, how == "gzip")


def rec_set(lines):
    """the mandatory fields of the H, R and V lines, as a sorted list"""
    out = []
    for t in lines or []:
        if t[:1] in ("H", "R", "V"):
            f = t.split("\t")
            out.append(tuple(f[:6] if t[0] == "V" else f[:5]))
    return sorted(out)


class IndexHist(Relation):
    name = "index_hist"
    coq_module = "C11_Hist"
    coq_check = "check_hist"
    coq_case_type = "hcase"
    coq_model = "model_hist"
    coq_imports = ["C11_Model", "C11_Check"]
    budget = {"quick": 110, "thorough": 2500}
    max_cases_per_shard = 20
    anchors = Index.anchors + [
        ("haptools/data/haplotypes.py", "Haplotypes._iter_haps"),
        ("haptools/data/haplotypes.py", "Haplotypes.__iter__"),
    ]

    def _last(self, rng):
        sort = bool(rng.random() < 0.6)
        kind = "wf" if rng.random() < 0.85 else BAD_KINDS[int(rng.integers(0, len(BAD_KINDS)))]
        if sort:
            layout = ["shuffled", "hr-first", "blocks"][int(rng.choice(3, p=[0.6, 0.25, 0.15]))]
        else:
            layout = ["blocks", "shuffled"][int(rng.choice(2, p=[0.8, 0.2]))]
        w = rng.random()
        wide = "ok" if w < 0.05 else ("beyond" if w < 0.09 else None)
        lines = gen_file(rng, kind, layout, wide, exotic=True)
        if not sort and rng.random() < 0.7:
            lines = [t for t in lines if t != MID_COMMENT]
        return lines, sort, kind, layout, wide

    def _wants_queries(self, lines, sort, kind):
        return kind == "wf" and (sort or MID_COMMENT not in lines)

    def generate(self, rng, n, tier):
        out = []
        for _ in range(n):
            lines, sort, kind, layout, wide = self._last(rng)
            ops = []
            nprior = int(rng.choice(4, p=[0.08, 0.55, 0.3, 0.07]))
            for _j in range(nprior):
                how = HOW_PRIOR[int(rng.choice(len(HOW_PRIOR), p=[0.4, 0.15, 0.2, 0.15, 0.1]))]
                psort = (not sort) if (how == "same-file" and rng.random() < 0.8) else bool(rng.random() < 0.65)
                ops.append({"op": "index", "lines": related_file(rng, lines, how), "sort": psort,
                            "src": SRCS[int(rng.choice(5, p=[0.4, 0.15, 0.2, 0.1, 0.15]))], "mtime": "asis",
                            "how": how})
                r = rng.random()
                if r < 0.10:
                    ops.append({"op": "rm", "what": "tbi"})
                elif r < 0.18:
                    ops.append({"op": "rm", "what": "gz"})
                elif r < 0.26:
                    ops.append({"op": "put", "lines": related_file(rng, lines, "same-file" if rng.random() < 0.4 else "other"),
                                "bgzf": bool(rng.random() < 0.5)})
            ops.append({"op": "index", "lines": lines, "sort": sort,
                        "src": SRCS[int(rng.choice(5, p=[0.3, 0.15, 0.2, 0.17, 0.18]))],
                        "mtime": ["older", "asis", "newer"][int(rng.choice(3, p=[0.55, 0.35, 0.1]))]})
            qs = QUERY._queries(rng, lines, 5) if self._wants_queries(lines, sort, kind) else []
            out.append({"ops": ops, "queries": qs, "kind": kind, "layout": layout, "wide": wide})
        return out

    def exhaustive(self, tier):
        # one earlier sorted run of A, everything that can happen to the path afterwards, then B (and A in the
        # other mode) from every place, with every time stamp
        a = ["# a comment", "H\t1\t5\t20\tH2\t0.25", "H\t1\t5\t10\tH10\t0.5", "R\t2\t5\t10\tA", "V\tH2\t8\t8\trs2\tA",
             "V\tH10\t5\t5\trs10\tC"]
        b = ["H\t2\t3\t9\tB2", "H\t1\t4\t30\tH2", "H\t1\t6\t9\tb", "V\tH2\t6\t6\trs1\tG", "V\tb\t7\t7\trs9\tT"]
        b_blocks = [b[1], b[2], b[0], b[3], b[4]]
        qs = [{"contig": "1", "form": "c:a-b", "a": 4, "b": 9, "ids": None},
              {"contig": None, "form": "c", "a": 0, "b": 0, "ids": ["H2"]}]
        out = []
        for between in ([], [{"op": "rm", "what": "tbi"}], [{"op": "rm", "what": "gz"}],
                        [{"op": "put", "lines": b, "bgzf": False}], [{"op": "put", "lines": a, "bgzf": True}]):
            for src in SRCS:
                for mtime in ("older", "asis", "newer"):
                    for lines, sort in ((b, True), (b_blocks, False), (a, False)):
                        ops = [{"op": "index", "lines": a, "sort": True, "src": "explicit-plain", "mtime": "asis",
                                "how": "other"}] + between + \
                              [{"op": "index", "lines": lines, "sort": sort, "src": src, "mtime": mtime}]
                        out.append({"ops": ops, "queries": qs if lines is not a else [], "kind": "wf",
                                    "layout": "exhaustive", "wide": None})
        return out

    def run_impl(self, inp):
        import pysam
        from pathlib import Path
        from haptools.data import Haplotypes
        from haptools.index import index_haps
        from haptools.logging import getLogger

        log = getLogger("hv_c11", "CRITICAL")
        d = tempfile.mkdtemp(prefix="hv_c11_")
        tmpd = os.path.join(d, "tmp")
        os.mkdir(tmpd)
        old_tmp = tempfile.tempdir
        tempfile.tempdir = tmpd        # index_haps leaves its temporary files there when tabix fails
        try:
            P = os.path.join(d, "cur.hap.gz")
            T = P + ".tbi"
            ops = inp["ops"]
            earlier = []
            res = {}
            for i, o in enumerate(ops):
                last = i == len(ops) - 1
                if o["op"] == "rm":
                    victim = T if o["what"] == "tbi" else P
                    if os.path.exists(victim):
                        os.unlink(victim)
                    continue
                if o["op"] == "put":
                    write_at(P, o["lines"], "bgzf" if o["bgzf"] else "gzip")
                    continue
                kind = o["src"]
                if kind.startswith("explicit"):
                    src = os.path.join(d, f"in{i}.hap" + (".gz" if kind == "explicit-gz" else ""))
                elif kind == "default-plain":
                    src = os.path.join(d, "cur.hap")
                else:
                    src = P
                write_at(src, o["lines"], {"explicit-plain": "plain", "default-plain": "plain", "explicit-gz": "gzip",
                                           "here-gzip": "gzip", "here-bgzf": "bgzf"}[kind])
                # the input's modification time against what lies at the output path
                refs = [os.stat(x).st_mtime for x in (P, T) if os.path.exists(x) and x != src]
                if refs and o["mtime"] == "older":
                    os.utime(src, (min(refs) - 100,) * 2)
                elif refs and o["mtime"] == "newer":
                    os.utime(src, (max(refs) + 100,) * 2)
                if last:
                    res["before"] = {"gz": os.path.exists(P), "tbi": os.path.exists(T)}
                    ref = os.path.join(d, "ref.hap")
                    write_input(o["lines"], ref, False)
                    try:
                        hp = Haplotypes(ref, log=log)
                        hp.read()
                        res["full"] = {"ok": dump_data(hp)}
                    except Exception as e:  # noqa
                        res["full"] = {"err": err_kind(e), "cls": type(e).__name__}
                try:
                    index_haps(Path(src), o["sort"], Path(P) if kind.startswith("explicit") else None, log)
                    ret = {"ok": None}
                except Exception as e:  # noqa
                    ret = {"err": err_kind(e), "cls": type(e).__name__, "msg": str(e)[:120]}
                if not last:
                    earlier.append("ok" if "ok" in ret else ret["cls"])
                    continue
                res["ret"] = ret
                res["earlier"] = earlier
                res["data"] = {"lines": text_lines(read_text(P))} if os.path.exists(P) else None
                res["tbi"] = os.path.exists(T)
                res["after"] = text_lines(read_text(src)) if kind.endswith("plain") and os.path.exists(src) else None
                res["fetch"] = {"err": 0}
                res["res"] = []
                if "ok" in ret and res["data"] is not None:
                    try:
                        tb = pysam.TabixFile(P)
                        res["fetch"] = {"ok": list(tb.fetch())}
                        tb.close()
                    except Exception as e:  # noqa
                        res["fetch"] = {"err": err_kind(e), "cls": type(e).__name__}
                    for q in inp["queries"]:
                        try:
                            hq = Haplotypes(P, log=log)
                            hq.read(region=region_str(q), haplotypes=set(q["ids"]) if q["ids"] is not None else None)
                            res["res"].append({"ok": dump_data(hq)})
                        except Exception as e:  # noqa
                            res["res"].append({"err": err_kind(e), "cls": type(e).__name__, "msg": str(e)[:120]})
            return res
        finally:
            tempfile.tempdir = old_tmp
            shutil.rmtree(d, ignore_errors=True)

    def encode(self, inp, obs):
        T = Terms()
        fixed = L.b(STRICT_GZIP_BESIDE_TBI)
        strict = L.b(STRICT_COLON_CONTIGS)
        pops = [T.scan_lines(o["lines"]) if "lines" in o else None for o in inp["ops"]]

        def op(o, pl):
            if o["op"] == "rm":
                return "HRmIndex" if o["what"] == "tbi" else "HRmData"
            if o["op"] == "put":
                return f"HPut {L.b(o['bgzf'])} {T.lines(pl)}"
            src = {"here-gzip": "(Here false)", "here-bgzf": "(Here true)"}.get(o["src"], "Elsewhere")
            return f"HIndex {L.b(o['sort'])} {L.b(o['mtime'] == 'older')} {src} {T.lines(pl)}"

        last = inp["ops"][-1]
        plain = L.b(last["src"].endswith("plain"))
        if not (isinstance(obs, dict) and "ret" in obs and "full" in obs):
            T.freeze()
            ops = L.lst(list(zip(inp["ops"], pops)), lambda x: op(*x))
            return f"(mkhc {fixed} {ops} {plain} false (Err 97) None false (Err 0) None (Err 97) [] {strict} [])"
        pdata = T.scan_lines(obs["data"]["lines"]) if obs["data"] is not None else None
        paft = T.scan_lines(obs["after"]) if obs["after"] is not None else None
        pf = T.scan_lines(obs["fetch"]["ok"]) if "ok" in obs["fetch"] else None
        T.scan_data(obs["full"])
        qs_in = inp["queries"] if obs["res"] else []
        for q, r in zip(qs_in, obs["res"]):
            T.scan_data(r)
            if q["contig"] is not None:
                T.add(q["contig"])
            T.add(*(q["ids"] or []))
        T.freeze()
        if T.bad:
            return f"(mkhc {fixed} [] {plain} false (Err 97) None false (Err 0) None (Err 97) [] {strict} [])"
        ops = L.lst(list(zip(inp["ops"], pops)), lambda x: op(*x))
        ret = "(Ok tt)" if "ok" in obs["ret"] else f"(Err {obs['ret']['err']})"
        sd = f"(Some {T.lines(pdata)})" if pdata is not None else "None"
        sa = f"(Some {T.lines(paft)})" if paft is not None else "None"
        sf = f"(Ok {T.lines(pf)})" if pf is not None else f"(Err {obs['fetch']['err']})"
        # the strings whose spelling matters: as in relation query, of the file that lies at the path
        named = []
        if pdata is not None:
            named += [(p[1] if p[0] in "HRV" else p[2]) for p in pdata if p[0] != "C"]
            named += [p[4] for p in pdata if p[0] in "HR"]
        named += [q["contig"] for q in qs_in if q["contig"] is not None]
        qs = []
        for q, r in zip(qs_in, obs["res"]):
            if q["contig"] is None:
                reg, rs = "None", "None"
            else:
                a = "None" if q["form"] in ("c", "c:") else f"(Some {L.z(q['a'])})"
                b = f"(Some {L.z(q['b'])})" if q["form"] == "c:a-b" else "None"
                reg = f"(Some (mkreg {T.r(q['contig'])} {a} {b}))"
                rs = f"(Some {L.lst([ord(ch) for ch in region_str(q)], L.z)})"
            ids = "None" if q["ids"] is None else f"(Some {T.rl(q['ids'])})"
            qs.append(f"mkqo {reg} {rs} {ids} {T.data(r)}")
        return (f"(mkhc {fixed} {ops} {plain} {L.b(obs['before']['tbi'])} {ret} {sd} {L.b(obs['tbi'])} {sf} {sa} "
                f"{T.data(obs['full'])} {T.names(named)} {strict} {L.lst(qs)})")

    # -- what a history left at the path, from the input alone (for coverage labels) and from the observation

    def _left_before(self, inp):
        """the lines of every earlier operation that wrote to the path"""
        return [(o.get("sort"), o["lines"]) for o in inp["ops"][:-1] if "lines" in o]

    def nontrivial(self, inp, obs):
        last = inp["ops"][-1]
        ft = file_features(last["lines"])
        if inp["kind"] != "wf" or ft["records"] < 2 or ft["variants"] < 1:
            return False
        if not (isinstance(obs, dict) and "ret" in obs and "ok" in obs["ret"] and obs.get("before")):
            return False
        if not (obs["before"]["gz"] or obs["before"]["tbi"]):
            return False
        return any(l != last["lines"] or srt != last["sort"] for srt, l in self._left_before(inp))

    def classes(self, inp, obs):
        last = inp["ops"][-1]
        out = [f"last:sort={last['sort']}", f"last:input-at={last['src']}", f"last:input-mtime={last['mtime']}",
               f"last:kind={inp['kind']}", f"last:wide={inp.get('wide')}",
               f"earlier-index-runs={sum(1 for o in inp['ops'][:-1] if o['op'] == 'index')}"]
        for o in inp["ops"][:-1]:
            if o["op"] == "index":
                out.append(f"earlier:{o.get('how', 'other')}")
                out.append(f"earlier:input-at={o['src']}")
                if o["lines"] == last["lines"] and o["sort"] != last["sort"]:
                    out.append("earlier:same-file-other-mode")
            elif o["op"] == "rm":
                out.append(f"earlier:rm-{o['what']}")
            else:
                out.append("earlier:file-written-over-the-output-" + ("bgzf" if o["bgzf"] else "gzip"))
        if isinstance(obs, dict) and "ret" in obs:
            b = obs["before"]
            out.append("path-before=" + ("gz+tbi" if b["gz"] and b["tbi"] else "gz-only" if b["gz"] else
                                         "tbi-only" if b["tbi"] else "nothing"))
            out.append("last:" + ("ok" if "ok" in obs["ret"] else "raised-" + str(obs["ret"].get("cls"))))
            for e in obs.get("earlier", []):
                out.append("earlier-run:" + e)
            out.append(f"queries={len(obs.get('res', []))}")
        return out[:6] + sorted(set(out[6:]))

    def shrink(self, inp):
        ops = inp["ops"]
        n = len(ops)
        for i in range(n - 1):
            yield dict(inp, ops=ops[:i] + ops[i + 1:])
        qs = inp["queries"]
        if len(qs) > 1:
            for q in qs:
                yield dict(inp, queries=[q])
        if qs:
            yield dict(inp, queries=[])
        for i, o in enumerate(ops):
            if "lines" in o:
                for l in shrink_lines(o["lines"]):
                    yield dict(inp, ops=ops[:i] + [dict(o, lines=l)] + ops[i + 1:])
            if o["op"] == "index" and o["src"] != "explicit-plain":
                yield dict(inp, ops=ops[:i] + [dict(o, src="explicit-plain")] + ops[i + 1:])
            if o["op"] == "index" and i < n - 1 and not o["sort"]:
                yield dict(inp, ops=ops[:i] + [dict(o, sort=True)] + ops[i + 1:])

    def mutate(self, inp, rng):
        ops = inp["ops"]
        last = ops[-1]
        for how in HOW_PRIOR:
            prior = {"op": "index", "lines": related_file(rng, last["lines"], how), "sort": True,
                     "src": "explicit-plain", "mtime": "asis", "how": how}
            for mtime in ("older", "asis"):
                yield dict(inp, ops=[prior, dict(last, mtime=mtime)])
        yield dict(inp, ops=ops[:-1] + [dict(last, sort=not last["sort"])])
        for src in SRCS:
            if src != last["src"]:
                yield dict(inp, ops=ops[:-1] + [dict(last, src=src)])

    def signature(self, inp, obs):
        last = inp["ops"][-1]
        where = "the-output-path-itself" if last["src"].startswith("here") else "another-path"
        if not (isinstance(obs, dict) and "ret" in obs):
            return f"index_hist: a history on one output path could not be observed; last run sort={last['sort']}"
        res = "ok" if "ok" in obs["ret"] else f"raised {obs['ret'].get('cls')}"
        b = obs["before"]
        before = "gz+tbi" if b["gz"] and b["tbi"] else "gz-only" if b["gz"] else "tbi-only" if b["tbi"] else "nothing"
        if obs["data"] is None:
            holds = "no-file"
        else:
            got = rec_set(obs["data"]["lines"])
            if got == rec_set(last["lines"]):
                holds = "the-records-of-the-last-input"
                if not last["sort"] and obs["data"]["lines"] != last["lines"]:
                    holds += "-but-not-its-lines"
            elif any(got == rec_set(l) for _s, l in self._left_before(inp)):
                holds = "the-records-of-an-EARLIER-input"
            else:
                holds = "other-records"
        return (f"index_hist: last run sort={last['sort']} input-at={where} result={res}; path-before={before}; "
                f"in the end the output holds {holds}, tbi={obs['tbi']}, index-readable={'ok' in obs['fetch']}")


QUERY = Query()
RELATIONS = [Index(), QUERY, Tabix(), IndexHist()]

LEVEL_TEXT = (
    "Coq theorems over all .hap contents (no size bound) about a Gallina model of index_haps, the __lt__ orderings, "
    "sort/to_str, the plain and tabix branches of Haplotypes.__iter__/read and the two parsers of a region string "
    "(_iter_haps and htslib, at code-point level); tabix fetch is a Section variable with a stated contract. The model "
    "is tied to /repo on every run by evaluating in Coq model-vs-implementation agreement and the property's finite "
    "checker on generated files (index), ~10 region/ID queries per indexed file (query), and the library contracts "
    "themselves on arbitrary line orders (tabix); and on operation lists on ONE output path - earlier runs, files "
    "written over the output, removed .gz / .tbi, inputs older or newer than what lies there - followed by the run under "
    "test (index_hist; model: a disk with data file and index; theorem: the result of a history is index_output of the "
    "last input)."
)
LEVEL_NOTE = (
    "Partial: bgzip/tabix are a contract (Section hypothesis), exercised against the real library on every case; "
    "strings are order-preserving ranks (plus code points where the spelling matters); header lines are opaque. "
    "Theorems assume a well-formed .hap file (unique IDs, variants belong to haplotypes of the file, start <= end, "
    "haplotype IDs differ from contigs) and, for index, ends <= 2^29 (proved sharp). Region strings on contigs with "
    "':' and haplotype IDs of the form <sequence>:<text> are a defect of the tree as it is "
    "(fixes/C11_colon_names.patch, switch STRICT_COLON_CONTIGS). A sorted run on a gzip (not BGZF) file lying at the "
    "output path beside an earlier .tbi raises NotImplementedError (fixes/C11_gzip_beside_tbi.patch, switch "
    "STRICT_GZIP_BESIDE_TBI)."
)
TECHNIQUE = "Coq proof by induction on line lists + vm_compute-evaluated correspondence against the implementation"
