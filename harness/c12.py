"""C12 - by-ID operations always act on the object's current contents.

Relations (each applies a random history of public operations to a real object AND the objects
that history creates - the copies subset() returns, the objects merge_variants() / merge() build -
and, after every operation, records what is visible: contents, returned object / result, or the
exception; a ValueError is caught and the history goes on, any other exception ends it; for
every by-ID operation, every (re-)load and every merge the same call is also applied to fresh
objects built from the same logical content)
  geno  : Genotypes / GenotypesVCF / GenotypesPLINK / GenotypesAncestry
          (read all|subset, subset in place|copy by samples and/or variants, index,
           check_missing / check_biallelic / check_maf with and without discard, check_sorted,
           PhenoSimulator.run, Haplotypes.transform on the object, merge_variants)
  pheno : Phenotypes / Covariates (read, subset by samples and/or names, index,
          check_missing with and without discard, append of new and of present names)
  haps  : Haplotypes (read all|subset, subset in place|copy, sort, index, transform, merge)
"""
from .c12_geno import Geno
from .c12_haps import Haps
from .c12_pheno import Pheno
from .c12_tv import TRANSLATION, TVIndex  # noqa: F401  (translation validation of index() / append(): c12_tv.py)
from .c12_util import STRICT_APPEND_PRESENT_NAME, STRICT_INDEX_AFTER_DUPLICATES  # noqa: F401  (documented there)

PROP = "C12"
CLAIMED = True
COQ_MODULES = ["GenoTable", "C13_Model", "C13_Check", "C13_Proofs", "C13_Sound", "C12_Model", "C12_Check", "C12_Proofs", "C12_Proofs2",
               "C12_Sound"]
PROPERTY_MODULE = "C12_Property"
ALLOWED_AXIOMS = []
RULE = (
    "histories of 2-12 operations on an object AND the objects the history creates - the copies its subsets return, the "
    "objects merge_variants / merge build - switching between them; a ValueError is caught and the history goes on. "
    "Streams: random with switches; targeted = build an index, change the contents with one chosen mutator (re-read, "
    "in-place subset, QC discard that does discard, append, sort), look IDs up; permuted = index -> in-place subset "
    "keeping every ID reordered -> look-ups; two-objects = index -> copy of one axis -> change one object -> look-ups on "
    "the other; merged = copies by variants (haplotype IDs) -> merge -> change a source or the merged object -> look-ups "
    "on the others; after-error = an operation that raises ValueError (check without discard on an offender, check_sorted "
    "after a reordering subset, merge of objects with different samples, append of a column of the wrong length), then "
    "look-ups; duplicate-ids = a VCF / .pheno file (or an in-memory repeat table, or a merge of overlapping copies) "
    "holding an ID twice: the look-up raises, more look-ups follow; append-present-name = name index built or not, "
    "append() of a name already there, look-ups. Files: 3-4 samples x 3-5 variants VCF.gz+tbi / PGEN written with "
    "pgenlib (missing and multiallelic calls in both) / VCF with POP / in-memory GenotypesTR table; 3-4 x 2-3 "
    ".pheno/.covar; 3-6 record .hap (with an ancestry column for HaplotypesAncestry); first operation a read; requests "
    "mix present IDs, IDs dropped by an earlier step and IDs never present. By-ID operations: subset by sample / variant "
    "/ name / haplotype ID, PhenoSimulator.run (noise-free, beta = 4^k so that the result names the columns used), "
    "Haplotypes.transform (on a haplotypes object, and of a one-haplotype object on the genotypes object). Non-trivial = "
    "the history contains a by-ID operation that comes after an operation which changed the contents since the index "
    "was last built, or a by-ID operation on one object after another object of the history was changed, or a by-ID "
    "operation after a caught exception. Distinct = distinct canonical JSON."
)
TRUSTED = [
    "cyvcf2 / pgenlib / csv readers: the file content the model starts from is what a fresh full read() returns",
    "the fresh object is built by the harness (new instance + copies of the arrays, or new instance + same read())",
    "float64 phenotype values are small integers in the generated files and carried as integers",
    "GenotypesTR objects are handed their arrays in memory (no TRTools-readable VCF is generated): their histories "
    "contain no re-read",
]
ASSUMPTIONS = [
    "a ValueError is caught and the history goes on with the same objects; any other exception ends the history",
    "switch STRICT_INDEX_AFTER_DUPLICATES (off = the tree as it is): index() leaves the dictionary in which it found "
    "duplicate IDs behind when it raises; with the switch off the model does the same and holds does not consult the "
    "fresh object for operations on an object whose index() has raised, until that object is re-read "
    "(fixes/C12_index_duplicates.patch; corpus/C12/*_index_keeps_duplicates_after_valueerror.json)",
    "switch STRICT_APPEND_PRESENT_NAME (off = the tree as it is): Phenotypes.append() of a name the object already "
    "holds points an existing name index at the new column; with the switch off the model does the same and holds does "
    "not consult the fresh object for operations on that object until it is re-read "
    "(fixes/C12_append_present_name.patch; corpus/C12/pheno_append_present_name_with_index.json)",
    "sample IDs are distinct in VCF / PGEN files (the readers refuse anything else); read(variants=...) is given a set",
]

RELATIONS = [Geno(), Pheno(), Haps(), TVIndex()]

LEVEL_TEXT = (
    "Coq refinement proof: concrete objects carrying explicit ID->position caches (snapshots of the ID list they were "
    "built from) versus cache-free abstract tables whose by-ID lookups search the current IDs; invariant cache_valid "
    "(cache absent, or equal to the current duplicate-free IDs) is established by the constructor and preserved by "
    "every operation; hence for every finite history over an object, the copies its subsets return and the objects "
    "merge_variants / merge build, and every by-ID query (subset, PhenoSimulator.run, transform), the concrete run shows "
    "exactly what the abstract run shows (contents, returned objects, query results, exception kinds) - for genotypes "
    "(all classes' operations), phenotypes/covariates and haplotypes objects; a separate specification theorem says "
    "what the abstract by-ID subset returns (exactly the rows / columns held under the requested IDs, request order, "
    "absent IDs dropped). Histories that go on after a caught ValueError: proved for index() as repaired "
    "(C12_refines_geno_poolx, C12_refines_pheno_poolx_fixed) and refuted for the tree as it is "
    "(C12_index_failure_poisons_refuted, C12_append_present_refuted); the histories that stop at the first exception "
    "are proved for the tree as it is. The model is tied to /repo on every run: random histories are applied to the "
    "real objects of nine classes and every step's observation is compared, inside Coq, with the model and with fresh "
    "objects built from the same logical content."
)
LEVEL_NOTE = (
    "Trusted: Coq kernel/vm_compute; the hand-written model (validated differentially on every run); file readers "
    "(the model's file content is what a fresh full read returns); the harness's construction of fresh objects. "
    "Two findings are open in /repo (switches STRICT_INDEX_AFTER_DUPLICATES, STRICT_APPEND_PRESENT_NAME, off by "
    "default): with them off, holds skips the operations applied to an object after its index() raised / after a "
    "present name was appended to it, and the theorem that covers the checked model there is the refinement of the "
    "histories cut at the first exception (C12_pool_run_is_cut) resp. C12_refines_pheno_pool under fresh_appends_pool. "
    "Not covered: GenotypesPLINKTR, reading GenotypesTR from a file, log messages (the 'fewer than requested' warning "
    "is observed only as absence from the result)."
)
TECHNIQUE = "Coq refinement proof (invariant + induction over histories) + vm_compute-evaluated correspondence against the implementation"
