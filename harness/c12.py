"""C12 - by-ID operations always act on the object's current contents.

Relations (each applies a random history of public operations to ONE real object and, after
every operation, records what is visible: contents, returned copy / result, or the exception
that ended the history; for every by-ID operation and every (re-)load the same call is also
applied to a fresh object built from the same logical content)
  geno  : Genotypes / GenotypesVCF / GenotypesPLINK / GenotypesAncestry
          (read all|subset, subset in place|copy by samples and/or variants, index,
           check_missing / check_biallelic / check_maf with discard)
  pheno : Phenotypes / Covariates (read, subset by samples and/or names, index,
          check_missing with discard, append)
  haps  : Haplotypes (read all|subset, subset in place|copy, sort, index, transform)
"""
import copy
import os
import shutil
import tempfile

import numpy as np

from . import coqlit as L
from .c13 import Shared, tab_term, write_anc_vcf, write_vcf
from .core import Relation, err_kind

PROP = "C12"
CLAIMED = True
COQ_MODULES = ["GenoTable", "C13_Model", "C13_Check", "C13_Proofs", "C13_Sound", "C12_Model", "C12_Check", "C12_Proofs", "C12_Sound"]
PROPERTY_MODULE = "C12_Property"
ALLOWED_AXIOMS = []
RULE = (
    "histories of 2-9 operations on an object AND the copies its subsets return (switching between them; streams: "
    "random with switches, permuted = index -> in-place subset keeping every ID reordered -> look-ups, two-objects = "
    "index -> copy of one axis -> change one object -> look-ups on the other; and targeted: build an index, change the contents with one chosen mutator - "
    "re-read, in-place subset, QC discard that does discard, append, sort - then look IDs up) over a generated small file (3-4 samples x 3-5 variants VCF.gz+tbi / PGEN / "
    "VCF with POP; 3-4 x 2-3 .pheno/.covar; 3-6 record .hap), first operation a read; requests mix present IDs, IDs "
    "dropped by an earlier step and IDs never present. Non-trivial = the history contains a by-ID operation (subset / "
    "transform) that comes after an operation which changed the contents since the index was last built (re-read, "
    "in-place subset, discard, append, sort), or a by-ID operation on one object after its copy/parent was changed. Distinct = distinct canonical JSON."
)
TRUSTED = [
    "cyvcf2 / pgenlib / csv readers: the file content the model starts from is what a fresh full read() returns",
    "the fresh object is built by the harness (new instance + copies of the arrays, or new instance + same read())",
    "float64 phenotype values are small integers in the generated files and carried as integers",
]
ASSUMPTIONS = [
    "an exception ends a history (objects are not used after a failed call)",
    "Phenotypes.append is given a name that is not already present (with a duplicate name the code's behaviour "
    "depends on whether the name index was already built; see the report)",
    "IDs in files are distinct",
]
GCLASSES = ["Genotypes", "GenotypesVCF", "GenotypesPLINK", "GenotypesAncestry"]
POPS = ["A", "B", "C"]


def optzl(x):
    return "None" if x is None else f"(Some {L.zl(x)})"


def quiet_log():
    import logging

    log = logging.getLogger("hv_c12")
    log.setLevel(logging.CRITICAL + 1)
    return log


# ---------------------------------------------------------------------------
# genotypes


def gclass(name):
    from haptools import data as hd
    from haptools.transform import GenotypesAncestry

    return {"Genotypes": hd.Genotypes, "GenotypesVCF": hd.GenotypesVCF, "GenotypesPLINK": hd.GenotypesPLINK,
            "GenotypesAncestry": GenotypesAncestry}[name]


def write_geno_file(inp, d):
    from haptools import data as hd

    t = inp["file"]
    if inp["cls"] == "GenotypesAncestry":
        path = os.path.join(d, "in.vcf.gz")
        write_anc_vcf(path, t)
        return path
    path = os.path.join(d, "in.vcf.gz")
    write_vcf(path, t["samples"], t["variants"], t["rows"])
    if inp["cls"] == "GenotypesPLINK":
        g = hd.GenotypesVCF(path, log=quiet_log())
        g.read()
        pg = hd.GenotypesPLINK(os.path.join(d, "in.pgen"), log=quiet_log())
        pg.samples, pg.variants, pg.data = g.samples, g.variants, g.data
        pg.write()
        return os.path.join(d, "in.pgen")
    return path


def gobserve(g, is_anc):
    d = np.asarray(g.data)
    if d.ndim != 3 or len(g.samples) != d.shape[0] or len(g.variants) != d.shape[1]:
        raise AssertionError(f"arrays out of step: samples {len(g.samples)} variants {len(g.variants)} data {d.shape}")
    k = int(d.shape[2])
    di = d.astype(np.int64)
    st = {
        "samples": [int(str(s)[1:]) for s in g.samples],
        "variants": [[int(str(v["id"])[1:]), int(str(v["chrom"])), int(v["pos"])] for v in g.variants],
        "rows": [[[int(c[0]), int(c[1]), int(c[2]) if k >= 3 else 0] for c in r] for r in di],
        "planes": k, "anc": None,
    }
    if is_anc:
        a = np.asarray(g.ancestry)
        if a.shape[:2] != d.shape[:2]:
            raise AssertionError(f"ancestry out of step: {a.shape} vs {d.shape}")
        # population code -> label, through the object's own label table (subset copies share
        # ancestry_labels with their parent but get no popnum_ancestry)
        inv = {int(code): POPS.index(lab) for lab, code in g.ancestry_labels.items()}
        dec = lambda c: inv.get(int(c), 90 + int(c))
        st["anc"] = [[[dec(c[0]), dec(c[1])] for c in r] for r in a]
    return st


def gfresh_copy(g, is_anc):
    f = g.__class__(g.fname, g.log)
    f.samples = tuple(g.samples)
    f.variants = g.variants.copy()
    f.data = g.data.copy()
    if is_anc:
        f.ancestry = g.ancestry.copy()
        f.ancestry_labels = dict(g.ancestry_labels)
        f.popnum_ancestry = dict(g.popnum_ancestry)
    return f


def ids(prefix, l):
    return None if l is None else [f"{prefix}{x}" for x in l]


def gapply(g, op, is_anc, sink=None):
    """returns the observation {'state':..., 'ret':...}; a returned copy is appended to sink"""
    k = op["op"]
    ret = None
    if k == "read":
        g.read(samples=None if op["ss"] is None else set(ids("s", op["ss"])),
               variants=None if op["vs"] is None else set(ids("v", op["vs"])))
    elif k == "subset":
        ss = None if op["ss"] is None else tuple(ids("s", op["ss"]))
        vs = None if op["vs"] is None else tuple(ids("v", op["vs"]))
        r = g.subset(samples=ss, variants=vs, inplace=op["inplace"])
        if not op["inplace"]:
            ret = gobserve(r, is_anc)
            if sink is not None:
                sink.append(r)
    elif k == "index":
        g.index(samples=op["s"], variants=op["v"])
    elif k == "missing":
        g.check_missing(discard_also=True)
    elif k == "biallelic":
        g.check_biallelic(discard_also=True)
    elif k == "maf":
        with np.errstate(all="ignore"):
            g.check_maf(threshold=op["thr"], discard_also=True)
    else:
        raise RuntimeError("unknown op")
    return {"state": gobserve(g, is_anc), "ret": ret}


def guarded(fn):
    try:
        return fn()
    except AssertionError as e:
        return {"err": 98, "msg": str(e)[:200]}
    except Exception as e:  # noqa
        return {"err": err_kind(e), "msg": f"{type(e).__name__}: {e}"[:200]}


def gop_term(op):
    k = op["op"]
    if k == "switch":
        return f"XSwitch {op['k']}%nat"
    return f"XOn ({gop_term1(op)})"


def gop_term1(op):
    k = op["op"]
    if k == "read":
        return f"GRead {optzl(op['ss'])} {optzl(op['vs'])}"
    if k == "subset":
        return f"GSubset {optzl(op['ss'])} {optzl(op['vs'])} {L.b(op['inplace'])}"
    if k == "index":
        return f"GIndex {L.b(op['s'])} {L.b(op['v'])}"
    if k == "missing":
        return "GCheckMissing"
    if k == "biallelic":
        return "GCheckBiallelic"
    return f"GCheckMaf {L.hexfloat(op['thr'])}"


def gobs_term(o, sh):
    if "err" in o:
        return f"GE {L.z(o['err'])}"
    r = "None" if o["ret"] is None else f"(Some {sh(o['ret'])})"
    return f"GO {sh(o['state'])} {r}"


def request(rng, universe, present, absent_extra):
    """an ID request: mostly present IDs, sometimes IDs dropped earlier or never present"""
    pool = list(present) + list(universe) + [absent_extra]
    k = int(rng.integers(1, 4))
    out = []
    for _ in range(k):
        x = int(pool[int(rng.integers(0, len(pool)))])
        if x not in out or rng.random() < 0.04:
            out.append(x)
    return out


def valid_switches(ops, copying=("subset",)):
    """every switch addresses object 0 or a copy made by an earlier copying subset"""
    made = 0
    for op in ops:
        if op["op"] == "switch":
            if not 0 <= op["k"] <= made:
                return False
        elif op["op"] in copying and not op.get("inplace", False):
            made += 1
    return True


def add_switches(rng, ops, p=0.25):
    """let a random history wander between the object and the copies made so far"""
    out, made = [], 0
    for op in ops:
        if made and rng.random() < p:
            out.append({"op": "switch", "k": int(rng.integers(0, made + 1))})
        out.append(op)
        if op["op"] == "subset" and not op.get("inplace", False):
            made += 1
    return out


def other_object_lookup(ops):
    """a by-ID operation on one object after another object of the same history was changed"""
    focus, changed = 0, set()
    made = 0
    for op in ops:
        k = op["op"]
        if k == "switch":
            focus = op["k"]
        elif k == "subset":
            if changed - {focus} and made:
                return True
            if op.get("inplace"):
                changed.add(focus)
            else:
                made += 1
        elif k in ("read", "missing", "biallelic", "maf", "append"):
            changed.add(focus)
    return False


def by_id_after_change(ops, by_id, changing):
    seen_change = False
    seen_lookup = False
    for op in ops:
        if op["op"] in by_id:
            if seen_change and seen_lookup:
                return True
            seen_lookup = True
            if op.get("inplace"):
                seen_change = True
        elif op["op"] in changing:
            if seen_lookup:
                seen_change = True
    return False


class Geno(Relation):
    name = "geno"
    coq_module = "C12_Check"
    coq_check = "check_geno"
    coq_case_type = "gcase"
    coq_model = "model_geno"
    coq_imports = ["GenoTable", "C13_Model", "C12_Model"]
    budget = {"quick": 350, "thorough": 6000}
    max_cases_per_shard = 60
    max_chars_per_shard = 80_000
    anchors = [
        ("haptools/data/genotypes.py", "Genotypes.read"),
        ("haptools/data/genotypes.py", "Genotypes.__iter__"),
        ("haptools/data/genotypes.py", "Genotypes.index"),
        ("haptools/data/genotypes.py", "Genotypes.subset"),
        ("haptools/data/genotypes.py", "GenotypesPLINK.read"),
        ("haptools/data/genotypes.py", "GenotypesPLINK.read_samples"),
        ("haptools/data/genotypes.py", "GenotypesPLINK.read_variants"),
        ("haptools/transform.py", "GenotypesAncestry.read"),
        ("haptools/transform.py", "GenotypesAncestry.subset"),
        ("haptools/data/data.py", "Data.read"),
    ]

    def preamble(self):
        return "From Coq Require Import PrimFloat.\nOpen Scope Z_scope."

    def gen_file(self, rng, cls):
        n = int(rng.integers(3, 5))
        p = int(rng.integers(3, 6))
        sids = sorted(rng.permutation(7)[:n].tolist()) if rng.random() < 0.5 else rng.permutation(7)[:n].tolist()
        vids = rng.permutation(7)[:p].tolist()
        clean = cls == "GenotypesPLINK"
        rows = []
        for i in range(n):
            r = []
            for j in range(p):
                a, b = int(rng.integers(0, 2)), int(rng.integers(0, 2))
                ph = 1
                if not clean and cls != "GenotypesAncestry":
                    u = rng.random()
                    if u < 0.06:
                        a, b, ph = 255, 255, 0
                    elif u < 0.12:
                        a = 2
                r.append([a, b, ph])
            rows.append(r)
        t = {"samples": [int(x) for x in sids], "variants": [[int(vids[j]), 1, 10 + 2 * j] for j in range(p)],
             "rows": rows, "planes": 3, "anc": None}
        if cls == "GenotypesAncestry":
            t["anc"] = [[[int(rng.integers(0, 3)), int(rng.integers(0, 3))] for _ in range(p)] for _ in range(n)]
        return t

    def gen_ops(self, rng, t):
        S = t["samples"]
        V = [v[0] for v in t["variants"]]
        k = int(rng.integers(1, 9))
        ops = [{"op": "read", "ss": None, "vs": None}]
        if rng.random() < 0.3:
            ops[0] = self._read(rng, S, V)
        for _ in range(k):
            u = rng.random()
            if u < 0.10:
                ops.append({"op": "read", "ss": None, "vs": None})
            elif u < 0.30:
                ops.append(self._read(rng, S, V))
            elif u < 0.78:
                which = rng.random()
                ss = request(rng, S, S, 8) if which < 0.6 else None
                vs = request(rng, V, V, 8) if which > 0.4 else None
                ops.append({"op": "subset", "ss": ss, "vs": vs, "inplace": bool(rng.random() < 0.45)})
            elif u < 0.85:
                ops.append({"op": "index", "s": bool(rng.random() < 0.7), "v": bool(rng.random() < 0.7)})
            elif u < 0.90:
                ops.append({"op": "missing"})
            elif u < 0.94:
                ops.append({"op": "biallelic"})
            else:
                ops.append({"op": "maf", "thr": float(rng.choice([0.0, 0.2, 0.3, 0.5]))})
        return ops

    def _read(self, rng, S, V):
        ss = vs = None
        u = rng.random()
        if u < 0.6:
            ss = sorted(set([int(rng.choice(S))] + [int(x) for x in rng.choice(S + [8], size=int(rng.integers(0, 3)))]))
        if u > 0.35:
            vs = sorted(set([int(rng.choice(V))] + [int(x) for x in rng.choice(V + [8], size=int(rng.integers(0, 3)))]))
        return {"op": "read", "ss": ss, "vs": vs}

    def targeted(self, rng, cls, t):
        """build an index, change the contents with one chosen mutator, look IDs up"""
        S = t["samples"]
        V = [v[0] for v in t["variants"]]
        n, p = len(S), len(V)
        build = [{"op": "index", "s": True, "v": True},
                 {"op": "subset", "ss": [int(rng.choice(S))], "vs": [int(rng.choice(V))], "inplace": False}][int(rng.integers(0, 2))]
        muts = ["read", "inplace", "maf"]
        if cls not in ("GenotypesPLINK", "GenotypesAncestry"):
            muts += ["missing", "biallelic"]
        m = str(rng.choice(muts))
        if m == "read":
            mut = self._read(rng, S, V)
        elif m == "inplace":
            mut = {"op": "subset", "ss": request(rng, S, S, 8) if rng.random() < 0.6 else None,
                   "vs": request(rng, V, V, 8) if rng.random() < 0.6 else None, "inplace": True}
            if mut["ss"] is None and mut["vs"] is None:
                mut["vs"] = [int(rng.choice(V))]
        elif m == "missing":
            i, j = int(rng.integers(0, n)), int(rng.integers(0, p))
            t["rows"][i][j] = [255, 255, 0]
            mut = {"op": "missing"}
        elif m == "biallelic":
            i, j = int(rng.integers(0, n)), int(rng.integers(0, p))
            t["rows"][i][j][int(rng.integers(0, 2))] = 2
            mut = {"op": "biallelic"}
        else:
            j = int(rng.integers(0, p))
            for i in range(n):
                t["rows"][i][j][0] = t["rows"][i][j][1] = 0  # a monomorphic variant: MAF 0
            mut = {"op": "maf", "thr": float(rng.choice([0.1, 0.2, 0.3]))}
        look = [{"op": "subset", "ss": request(rng, S, S, 8) if rng.random() < 0.7 else None,
                 "vs": request(rng, V, V, 8) if rng.random() < 0.7 else None, "inplace": bool(rng.random() < 0.3)}
                for _ in range(int(rng.integers(1, 3)))]
        for q in look:
            if q["ss"] is None and q["vs"] is None:
                q["ss"] = list(S)
        first = {"op": "read", "ss": None, "vs": None}
        return [first, build, mut] + look

    def permuted(self, rng, t):
        """build an index, in-place subset that keeps EVERY current ID but reorders them, look IDs up"""
        S = list(t["samples"])
        V = [v[0] for v in t["variants"]]
        ops = [{"op": "read", "ss": None, "vs": None}]
        if rng.random() < 0.3:   # start from fewer IDs so that "all current IDs" is not "all file IDs"
            ops[0] = self._read(rng, S, V)
            S = [x for x in S if ops[0]["ss"] is None or x in ops[0]["ss"]]
            V = [x for x in V if ops[0]["vs"] is None or x in ops[0]["vs"]]
        ops.append([{"op": "index", "s": True, "v": True},
                    {"op": "subset", "ss": [int(rng.choice(S))], "vs": [int(rng.choice(V))], "inplace": False}][int(rng.integers(0, 2))])

        def perm(l):
            l = list(l)
            if len(l) < 2:
                return l
            while True:
                q = [int(x) for x in rng.permutation(l)]
                if q != l:
                    return q

        which = rng.random()
        ss = perm(S) if which < 0.65 else None
        vs = perm(V) if which > 0.35 else None
        ops.append({"op": "subset", "ss": ss, "vs": vs, "inplace": True})
        for _ in range(int(rng.integers(1, 3))):
            q = {"op": "subset", "ss": request(rng, S, S, 8) if (ss is not None or rng.random() < 0.3) else None,
                 "vs": request(rng, V, V, 8) if (vs is not None or rng.random() < 0.3) else None,
                 "inplace": bool(rng.random() < 0.3)}
            ops.append(q)
        return ops

    def shared(self, rng, cls, t):
        """index the object, take a copy that subsets ONE axis, change one of the two objects,
        look IDs up on the other one (on the axis the copy did not subset, and on the other)"""
        S = list(t["samples"])
        V = [v[0] for v in t["variants"]]
        n, p = len(S), len(V)
        ops = [{"op": "read", "ss": None, "vs": None}, {"op": "index", "s": True, "v": True}]
        by_samples = rng.random() < 0.5
        ops.append({"op": "subset", "ss": request(rng, S, S, 8) if by_samples else None,
                    "vs": None if by_samples else request(rng, V, V, 8), "inplace": False})
        change_copy = rng.random() < 0.5
        if change_copy:
            ops.append({"op": "switch", "k": 1})
        muts = ["read", "inplace", "perm"]
        if cls not in ("GenotypesPLINK", "GenotypesAncestry") and not change_copy:
            muts += ["biallelic", "missing"]
        m = str(rng.choice(muts))
        if m == "read":
            ops.append(self._read(rng, S, V))
        elif m == "inplace":
            ops.append({"op": "subset", "ss": request(rng, S, S, 8) if rng.random() < 0.5 else None,
                        "vs": request(rng, V, V, 8), "inplace": True})
        elif m == "perm":
            ops.append({"op": "subset", "ss": [int(x) for x in rng.permutation(S)] if rng.random() < 0.5 else None,
                        "vs": [int(x) for x in rng.permutation(V)], "inplace": True})
        elif m == "missing":
            t["rows"][int(rng.integers(0, n))][int(rng.integers(0, p))] = [255, 255, 0]
            ops.append({"op": "missing"})
        else:
            t["rows"][int(rng.integers(0, n))][int(rng.integers(0, p))][0] = 2
            ops.append({"op": "biallelic"})
        ops.append({"op": "switch", "k": 0 if change_copy else 1})
        for _ in range(int(rng.integers(1, 3))):
            ops.append({"op": "subset", "ss": request(rng, S, S, 8) if rng.random() < 0.6 else None,
                        "vs": request(rng, V, V, 8), "inplace": False})
        return ops

    def generate(self, rng, n, tier):
        out = []
        for i in range(n):
            cls = GCLASSES[int(rng.integers(0, 4))]
            t = self.gen_file(rng, cls)
            u = rng.random()
            if u < 0.30:
                ops, kind = self.targeted(rng, cls, t), "targeted"
            elif u < 0.45:
                ops, kind = self.permuted(rng, t), "permuted"
            elif u < 0.60:
                ops, kind = self.shared(rng, cls, t), "two-objects"
            else:
                ops, kind = add_switches(rng, self.gen_ops(rng, t)), "random"
            out.append({"cls": cls, "file": t, "ops": ops, "kind": kind})
        return out

    def exhaustive(self, tier):
        # all histories of length <= 3 after the initial read over a small alphabet, 3 x 3 file
        import itertools

        t = {"samples": [0, 1, 2], "variants": [[0, 1, 10], [1, 1, 12], [2, 1, 14]],
             "rows": [[[0, 1, 1], [1, 1, 1], [0, 0, 1]], [[1, 0, 1], [0, 0, 1], [1, 1, 1]], [[1, 1, 1], [0, 1, 1], [1, 0, 1]]],
             "planes": 3, "anc": None}
        alpha = [
            {"op": "read", "ss": None, "vs": None},
            {"op": "read", "ss": None, "vs": [1, 2]},
            {"op": "read", "ss": [1, 2], "vs": None},
            {"op": "subset", "ss": None, "vs": [1], "inplace": False},
            {"op": "subset", "ss": [1], "vs": None, "inplace": False},
            {"op": "subset", "ss": None, "vs": [2, 0], "inplace": True},
            {"op": "subset", "ss": [2, 0], "vs": None, "inplace": True},
            {"op": "index", "s": True, "v": True},
            {"op": "subset", "ss": [2, 0, 1], "vs": None, "inplace": True},
            {"op": "switch", "k": 1},
            {"op": "switch", "k": 0},
        ]
        out = []
        depth = 3 if tier == "thorough" else 2
        for k in range(1, depth + 1):
            for seq in itertools.product(alpha, repeat=k):
                ops = [alpha[0]] + list(seq)
                if valid_switches(ops):
                    out.append({"cls": "GenotypesVCF", "file": t, "ops": ops, "kind": "exhaustive"})
        return out

    def run_impl(self, inp):
        import warnings

        warnings.simplefilter("ignore")
        is_anc = inp["cls"] == "GenotypesAncestry"
        d = tempfile.mkdtemp(prefix="hv_c12_")
        try:
            path = write_geno_file(inp, d)
            cls = gclass(inp["cls"])
            kw = {"log": quiet_log()}
            full = cls(path, **kw)
            full.read()
            filetab = gobserve(full, is_anc)
            objs = [cls(path, **kw)]   # the object and the copies its subsets returned
            g = objs[0]
            steps = []
            for op in inp["ops"]:
                fresh = None
                if op["op"] == "switch":
                    g = objs[op["k"]]
                    steps.append({"obs": guarded(lambda: {"state": gobserve(g, is_anc), "ret": None}), "fresh": None})
                    continue
                if op["op"] == "read":
                    fo = cls(path, **kw)
                    fresh = guarded(lambda: gapply(fo, op, is_anc))
                elif op["op"] == "subset":
                    fo = gfresh_copy(g, is_anc)
                    fresh = guarded(lambda: gapply(fo, op, is_anc))
                o = guarded(lambda: gapply(g, op, is_anc, objs))
                steps.append({"obs": o, "fresh": fresh})
                if "err" in o:
                    break
            return {"file": filetab, "steps": steps}
        finally:
            shutil.rmtree(d, ignore_errors=True)

    def encode(self, inp, obs):
        sh = Shared()
        anc = L.b(inp["cls"] == "GenotypesAncestry")
        if not isinstance(obs, dict) or "steps" not in obs:
            k = obs.get("kind", 99) if isinstance(obs, dict) else 99
            return sh.wrap(f"mkgcase {anc} false {sh(inp['file'])} [({gop_term(inp['ops'][0])}, GE {L.z(k)}, None)]")
        parts = []
        for op, st in zip(inp["ops"], obs["steps"]):
            fr = "None" if st["fresh"] is None else f"(Some ({gobs_term(st['fresh'], sh)}))"
            parts.append(f"({gop_term(op)}, {gobs_term(st['obs'], sh)}, {fr})")
        return sh.wrap(f"mkgcase {anc} false {sh(obs['file'])} {L.lst(parts)}")

    def nontrivial(self, inp, obs):
        return (by_id_after_change(inp["ops"], {"subset"}, {"read", "missing", "biallelic", "maf"})
                or other_object_lookup(inp["ops"]))

    def classes(self, inp, obs):
        out = [inp["cls"], f"len={len(inp['ops'])}", f"stream={inp.get('kind', 'corpus')}"]
        if other_object_lookup(inp["ops"]):
            out.append("lookup-after-other-object-changed")
        out += sorted({op["op"] + ("-inplace" if op.get("inplace") else "") for op in inp["ops"]})
        if isinstance(obs, dict) and "steps" in obs:
            for st in obs["steps"]:
                if "err" in st["obs"]:
                    out.append(f"ended-by-err{st['obs']['err']}")
            if any(op["op"] == "subset" and st["obs"].get("ret") is not None and
                   len(st["obs"]["ret"]["samples"]) < len(op["ss"] or []) for op, st in zip(inp["ops"], obs["steps"])):
                out.append("requested-id-absent")
        return out

    def shrink(self, inp):
        for c in self._shrink(inp):
            if valid_switches(c["ops"]):
                yield c

    def _shrink(self, inp):
        ops = inp["ops"]
        for j in range(1, len(ops)):
            yield dict(inp, ops=ops[:j] + ops[j + 1:])
        if inp["cls"] != "GenotypesVCF" and inp["cls"] != "GenotypesAncestry":
            yield dict(inp, cls="GenotypesVCF")
        for j, op in enumerate(ops):
            for key in ("ss", "vs"):
                if op.get(key) and len(op[key]) > 1:
                    for q in range(len(op[key])):
                        yield dict(inp, ops=ops[:j] + [dict(op, **{key: op[key][:q] + op[key][q + 1:]})] + ops[j + 1:])
                if op.get(key) is not None and op["op"] == "subset" and (op["ss"] is not None and op["vs"] is not None):
                    yield dict(inp, ops=ops[:j] + [dict(op, **{key: None})] + ops[j + 1:])

    def mutate(self, inp, rng):
        ops = inp["ops"]
        V = [v[0] for v in inp["file"]["variants"]]
        S = inp["file"]["samples"]
        for _ in range(10):
            extra = [self._read(rng, S, V), {"op": "subset", "ss": None, "vs": request(rng, V, V, 8), "inplace": False}]
            yield dict(inp, ops=ops + extra)

    def signature(self, inp, obs):
        return f"geno {self._sig(inp, obs)}"

    def _sig(self, inp, obs):
        if not isinstance(obs, dict) or "steps" not in obs:
            return "harness-level failure"
        reread = False
        seen_lookup = False
        for j, (op, st) in enumerate(zip(inp["ops"], obs["steps"])):
            if st["fresh"] is not None and st["fresh"] != st["obs"]:
                what = "wrong exception" if "err" in st["obs"] else "wrong rows/columns"
                if op["op"] == "read":
                    return "re-read object differs from a freshly read one"
                if other_object_lookup(inp["ops"][:j + 1]):
                    return f"by-ID subset on one object after its copy/parent was changed differs from a fresh object's ({what})"
                return f"by-ID subset after {'a re-read' if reread else 'earlier operations'} differs from a fresh object's ({what})"
            if op["op"] == "read" and seen_lookup:
                reread = True
            if op["op"] in ("subset", "index"):
                seen_lookup = True
        return "history object and model disagree"


# ---------------------------------------------------------------------------
# phenotypes


def pclass(name):
    from haptools import data as hd

    return {"Phenotypes": hd.Phenotypes, "Covariates": hd.Covariates}[name]


def pobserve(p):
    d = np.asarray(p.data)
    if d.ndim != 2 or d.shape[0] != len(p.samples) or d.shape[1] != len(p.names):
        raise AssertionError(f"arrays out of step: samples {len(p.samples)} names {len(p.names)} data {d.shape}")
    rows = []
    for r in d.tolist():
        rr = []
        for x in r:
            if float(x) != int(x):
                raise AssertionError("non-integer value")
            rr.append(int(x))
        rows.append(rr)
    return {"samples": [int(str(s)[1:]) for s in p.samples], "names": [int(str(s)[1:]) for s in p.names], "rows": rows}


def pfresh_copy(p):
    f = p.__class__(p.fname, p.log)
    f.samples = tuple(p.samples)
    f.names = tuple(p.names)
    f.data = p.data.copy()
    return f


def papply(p, op, sink=None):
    k = op["op"]
    ret = None
    if k == "read":
        p.read(samples=None if op["ss"] is None else set(ids("s", op["ss"])))
    elif k == "subset":
        ss = None if op["ss"] is None else tuple(ids("s", op["ss"]))
        ns = None if op["ns"] is None else tuple(ids("p", op["ns"]))
        r = p.subset(samples=ss, names=ns, inplace=op["inplace"])
        if not op["inplace"]:
            ret = pobserve(r)
            if sink is not None:
                sink.append(r)
    elif k == "index":
        p.index(samples=op["s"], names=op["n"])
    elif k == "missing":
        p.check_missing(discard_also=True)
    elif k == "append":
        p.append(f"p{op['name']}", np.array(op["col"], dtype=np.float64))
    else:
        raise RuntimeError("unknown op")
    return {"state": pobserve(p), "ret": ret}


def ptab_term(t):
    return f"(mkp {L.zl(t['samples'])} {L.zl(t['names'])} {L.lst(t['rows'], L.zl)})"


class PShared(Shared):
    def __call__(self, t):
        key = ptab_term(t)
        if key not in self.names:
            self.names[key] = f"t{len(self.names)}"
            self.defs.append((self.names[key], key))
        return self.names[key]


def pop_term(op):
    k = op["op"]
    if k == "switch":
        return f"XSwitch {op['k']}%nat"
    return f"XOn ({pop_term1(op)})"


def pop_term1(op):
    k = op["op"]
    if k == "read":
        return f"PRead {optzl(op['ss'])}"
    if k == "subset":
        return f"PSubset {optzl(op['ss'])} {optzl(op['ns'])} {L.b(op['inplace'])}"
    if k == "index":
        return f"PIndex {L.b(op['s'])} {L.b(op['n'])}"
    if k == "missing":
        return "PCheckMissing"
    return f"PAppend {L.z(op['name'])} {L.zl(op['col'])}"


def pobs_term(o, sh):
    if "err" in o:
        return f"PE {L.z(o['err'])}"
    r = "None" if o["ret"] is None else f"(Some {sh(o['ret'])})"
    return f"PO {sh(o['state'])} {r}"


class Pheno(Relation):
    name = "pheno"
    coq_module = "C12_Check"
    coq_check = "check_pheno"
    coq_case_type = "pcase"
    coq_model = "model_pheno"
    coq_imports = ["GenoTable", "C13_Model", "C12_Model"]
    budget = {"quick": 300, "thorough": 6000}
    max_cases_per_shard = 100
    max_chars_per_shard = 80_000
    anchors = [
        ("haptools/data/phenotypes.py", "Phenotypes.read"),
        ("haptools/data/phenotypes.py", "Phenotypes.index"),
        ("haptools/data/phenotypes.py", "Phenotypes.subset"),
        ("haptools/data/phenotypes.py", "Phenotypes.append"),
        ("haptools/data/phenotypes.py", "Phenotypes.check_missing"),
    ]

    def generate(self, rng, n, tier):
        out = []
        for i in range(n):
            ns, nn = int(rng.integers(3, 5)), int(rng.integers(2, 4))
            S = rng.permutation(7)[:ns].tolist()
            N = rng.permutation(5)[:nn].tolist()
            rows = [[int(rng.choice([-9, 0, 1, 2, 3, 5, 7, -1], p=[.08, .12, .15, .15, .15, .15, .1, .1])) for _ in range(nn)]
                    for _ in range(ns)]
            f = {"samples": [int(x) for x in S], "names": [int(x) for x in N], "rows": rows}
            ops = [{"op": "read", "ss": None}]
            cur_n = ns  # tracked only to give appended columns the right length most of the time
            nxt = 5
            for _ in range(int(rng.integers(1, 9))):
                u = rng.random()
                if u < 0.10:
                    ops.append({"op": "read", "ss": None})
                elif u < 0.28:
                    ss = sorted(set([int(rng.choice(S))] + [int(x) for x in rng.choice(S + [8], size=int(rng.integers(0, 3)))]))
                    ops.append({"op": "read", "ss": ss})
                elif u < 0.72:
                    which = rng.random()
                    ss = request(rng, S, S, 8) if which < 0.6 else None
                    nsq = request(rng, N + [5, 6], N, 9) if which > 0.4 else None
                    ops.append({"op": "subset", "ss": ss, "ns": nsq, "inplace": bool(rng.random() < 0.45)})
                elif u < 0.80:
                    ops.append({"op": "index", "s": bool(rng.random() < 0.7), "n": bool(rng.random() < 0.7)})
                elif u < 0.87:
                    ops.append({"op": "missing"})
                else:
                    ops.append({"op": "append", "name": nxt, "col": None})
                    nxt += 1
            kind = "random"
            u0 = rng.random()
            if u0 >= 0.65:
                ops = add_switches(rng, ops)
            elif u0 < 0.15:
                kind = "permuted"
                # build an index, in-place subset keeping EVERY current ID but reordered, look IDs up
                def perm(l):
                    l = list(l)
                    while True:
                        q = [int(x) for x in rng.permutation(l)]
                        if q != l or len(l) < 2:
                            return q
                which = rng.random()
                pss = perm(S) if which < 0.65 else None
                pns = perm(N) if which > 0.35 else None
                build = [{"op": "index", "s": True, "n": True},
                         {"op": "subset", "ss": [int(rng.choice(S))], "ns": [int(rng.choice(N))], "inplace": False}][int(rng.integers(0, 2))]
                ops = [{"op": "read", "ss": None}, build, {"op": "subset", "ss": pss, "ns": pns, "inplace": True}]
                for _ in range(int(rng.integers(1, 3))):
                    ops.append({"op": "subset", "ss": request(rng, S, S, 8) if (pss is not None or rng.random() < 0.3) else None,
                                "ns": request(rng, N, N, 9) if (pns is not None or rng.random() < 0.3) else None,
                                "inplace": bool(rng.random() < 0.3)})
            elif u0 < 0.35:
                kind = "two-objects"
                # names and/or samples indexed on the parent; a copy that subsets ONE axis; one of the two
                # objects (or both) changes - append, in-place subset, re-read, discard; by-ID look-ups on the OTHER
                build = [{"op": "index", "s": True, "n": True}, {"op": "index", "s": False, "n": True},
                         {"op": "subset", "ss": None, "ns": [int(rng.choice(N))], "inplace": False}][int(rng.integers(0, 3))]
                ops = [{"op": "read", "ss": None}, build]
                made = 1 if build["op"] == "subset" else 0
                by_samples = rng.random() < 0.7
                ops.append({"op": "subset", "ss": request(rng, S, S, 8) if by_samples else None,
                            "ns": None if by_samples else request(rng, N, N, 9), "inplace": False})
                made += 1
                copy_k = made
                first, second = (copy_k, 0) if rng.random() < 0.5 else (0, copy_k)

                def change(name):
                    m = str(rng.choice(["append", "append", "append", "inplace", "read", "missing"]))
                    if m == "append":
                        return {"op": "append", "name": name, "col": None}
                    if m == "inplace":
                        return {"op": "subset", "ss": None, "ns": [int(x) for x in rng.permutation(N)][:int(rng.integers(1, nn + 1))], "inplace": True}
                    if m == "read":
                        return {"op": "read", "ss": sorted({int(rng.choice(S)), int(rng.choice(S))})}
                    return {"op": "missing"}

                ops += [{"op": "switch", "k": first}, change(5)]
                if rng.random() < 0.5:
                    ops += [{"op": "switch", "k": second}, change(6)]
                else:
                    ops += [{"op": "switch", "k": second}]
                for _ in range(int(rng.integers(1, 3))):
                    ops.append({"op": "subset", "ss": request(rng, S, S, 8) if rng.random() < 0.3 else None,
                                "ns": request(rng, N + [5, 6], N + [5, 6], 9), "inplace": False})
                if rng.random() < 0.5:
                    ops += [{"op": "switch", "k": first},
                            {"op": "subset", "ss": None, "ns": request(rng, N + [5, 6], N + [5, 6], 9), "inplace": False}]
            elif u0 < 0.65:
                kind = "targeted"
                # build an index, change the contents with one chosen mutator, look IDs up
                build = [{"op": "index", "s": True, "n": True},
                         {"op": "subset", "ss": [int(rng.choice(S))], "ns": [int(rng.choice(N))], "inplace": False}][int(rng.integers(0, 2))]
                m = str(rng.choice(["read", "inplace", "missing", "append"]))
                if m == "read":
                    mut = {"op": "read", "ss": sorted({int(rng.choice(S)), int(rng.choice(S))})}
                elif m == "inplace":
                    mut = {"op": "subset", "ss": request(rng, S, S, 8) if rng.random() < 0.6 else None,
                           "ns": request(rng, N, N, 9) if rng.random() < 0.6 else None, "inplace": True}
                    if mut["ss"] is None and mut["ns"] is None:
                        mut["ns"] = [int(rng.choice(N))]
                elif m == "missing":
                    rows[int(rng.integers(0, ns))][int(rng.integers(0, nn))] = -9
                    mut = {"op": "missing"}
                else:
                    mut = {"op": "append", "name": 5, "col": None}
                look = [{"op": "subset", "ss": request(rng, S, S, 8) if rng.random() < 0.7 else None,
                         "ns": request(rng, N + [5], N, 9) if rng.random() < 0.7 else None, "inplace": bool(rng.random() < 0.3)}
                        for _ in range(int(rng.integers(1, 3)))]
                for q in look:
                    if q["ss"] is None and q["ns"] is None:
                        q["ss"] = list(S)
                ops = [{"op": "read", "ss": None}, build, mut] + look
            out.append({"cls": ["Phenotypes", "Covariates"][int(rng.integers(0, 2))], "file": f, "ops": ops,
                        "seed": int(rng.integers(0, 2**31)), "kind": kind})
        return out

    def run_impl(self, inp):
        import warnings

        warnings.simplefilter("ignore")
        d = tempfile.mkdtemp(prefix="hv_c12_")
        try:
            f = inp["file"]
            ext = "pheno" if inp["cls"] == "Phenotypes" else "covar"
            path = os.path.join(d, f"in.{ext}")
            with open(path, "w") as fh:
                fh.write("#IID\t" + "\t".join(f"p{x}" for x in f["names"]) + "\n")
                for s, r in zip(f["samples"], f["rows"]):
                    fh.write(f"s{s}\t" + "\t".join(str(x) for x in r) + "\n")
            cls = pclass(inp["cls"])
            objs = [cls(path, log=quiet_log())]   # the object and the copies its subsets returned
            p = objs[0]
            rng = np.random.default_rng(inp.get("seed", 0))
            steps, ops_done = [], []
            for op in inp["ops"]:
                if op["op"] == "switch":
                    p = objs[op["k"]]
                    steps.append({"obs": guarded(lambda: {"state": pobserve(p), "ret": None}), "fresh": None})
                    ops_done.append(op)
                    continue
                if op["op"] == "append" and op.get("col") is None:
                    # a column of the current length (3% of the time one too long: ValueError)
                    n = len(p.samples) + (1 if rng.random() < 0.03 else 0)
                    op = dict(op, col=[int(x) for x in rng.integers(-3, 9, size=n)])
                fresh = None
                if op["op"] == "read":
                    fo = cls(path, log=quiet_log())
                    fresh = guarded(lambda: papply(fo, op))
                elif op["op"] == "subset":
                    fo = pfresh_copy(p)
                    fresh = guarded(lambda: papply(fo, op))
                o = guarded(lambda: papply(p, op, objs))
                steps.append({"obs": o, "fresh": fresh})
                ops_done.append(op)
                if "err" in o:
                    break
            return {"steps": steps, "ops": ops_done}
        finally:
            shutil.rmtree(d, ignore_errors=True)

    def encode(self, inp, obs):
        sh = PShared()
        if not isinstance(obs, dict) or "steps" not in obs:
            k = obs.get("kind", 99) if isinstance(obs, dict) else 99
            return sh.wrap(f"mkpcase false {sh(inp['file'])} [(PRead None, PE {L.z(k)}, None)]")
        parts = []
        for op, st in zip(obs["ops"], obs["steps"]):
            fr = "None" if st["fresh"] is None else f"(Some ({pobs_term(st['fresh'], sh)}))"
            parts.append(f"({pop_term(op)}, {pobs_term(st['obs'], sh)}, {fr})")
        return sh.wrap(f"mkpcase false {sh(inp['file'])} {L.lst(parts)}")

    def nontrivial(self, inp, obs):
        return (by_id_after_change(inp["ops"], {"subset"}, {"read", "missing", "append"})
                or other_object_lookup(inp["ops"]))

    def classes(self, inp, obs):
        out = [inp["cls"], f"len={len(inp['ops'])}", f"stream={inp.get('kind', 'corpus')}"]
        if other_object_lookup(inp["ops"]):
            out.append("lookup-after-other-object-changed")
        out += sorted({op["op"] + ("-inplace" if op.get("inplace") else "") for op in inp["ops"]})
        if isinstance(obs, dict) and "steps" in obs:
            for st in obs["steps"]:
                if "err" in st["obs"]:
                    out.append(f"ended-by-err{st['obs']['err']}")
        return out

    def shrink(self, inp):
        for c in self._shrink(inp):
            if valid_switches(c["ops"]):
                yield c

    def _shrink(self, inp):
        ops = inp["ops"]
        for j in range(1, len(ops)):
            yield dict(inp, ops=ops[:j] + ops[j + 1:])
        for j, op in enumerate(ops):
            for key in ("ss", "ns"):
                if op.get(key) and len(op[key]) > 1:
                    for q in range(len(op[key])):
                        yield dict(inp, ops=ops[:j] + [dict(op, **{key: op[key][:q] + op[key][q + 1:]})] + ops[j + 1:])
                if op["op"] == "subset" and op.get("ss") is not None and op.get("ns") is not None:
                    yield dict(inp, ops=ops[:j] + [dict(op, **{key: None})] + ops[j + 1:])

    def mutate(self, inp, rng):
        S = inp["file"]["samples"]
        for _ in range(10):
            extra = [{"op": "read", "ss": [int(rng.choice(S))]},
                     {"op": "subset", "ss": request(rng, S, S, 8), "ns": None, "inplace": False}]
            yield dict(inp, ops=inp["ops"] + extra)

    def signature(self, inp, obs):
        if not isinstance(obs, dict) or "steps" not in obs:
            return "pheno harness-level failure"
        reread = False
        seen_lookup = False
        for j, (op, st) in enumerate(zip(obs["ops"], obs["steps"])):
            if st["fresh"] is not None and st["fresh"] != st["obs"]:
                what = "wrong exception" if "err" in st["obs"] else "wrong rows/columns"
                if op["op"] == "read":
                    return "pheno re-read object differs from a freshly read one"
                if other_object_lookup(obs["ops"][:j + 1]):
                    return f"pheno by-ID subset on one object after its copy/parent was changed differs from a fresh object's ({what})"
                return f"pheno by-ID subset after {'a re-read' if reread else 'earlier operations'} differs from a fresh object's ({what})"
            if op["op"] == "read" and seen_lookup:
                reread = True
            if op["op"] in ("subset", "index"):
                seen_lookup = True
        return "pheno history object and model disagree"


# ---------------------------------------------------------------------------
# haplotypes

HAP_IDS = {1: "H1", 2: "H2", 3: "H3", 4: "H4", 5: "H5", 11: "R1", 12: "R2"}
HAP_NUM = {v: k for k, v in HAP_IDS.items()}
NVAR = 6


def hobserve_data(h):
    from haptools.data import Haplotype

    out = []
    for key, rec in h.data.items():
        if key != rec.id:
            raise AssertionError("dict key differs from record id")
        is_hap = isinstance(rec, Haplotype)
        vs = sorted(int(v.id[1:]) for v in rec.variants) if is_hap else []
        out.append([HAP_NUM[rec.id], bool(is_hap), int(rec.chrom), int(rec.start), int(rec.end), vs])
    return out


def hfresh_copy(h):
    f = h.__class__(h.fname, log=h.log)
    f.data = {k: copy.deepcopy(v) for k, v in h.data.items()}
    return f


def transform_gts():
    from haptools import data as hd

    g = hd.GenotypesVCF(fname=None, log=quiet_log())
    g.samples = ("s0", "s1")
    g.variants = np.array([(f"v{j}", "1", 10 + j, ("A", "T")) for j in range(NVAR)], dtype=g.variants.dtype)
    g.data = np.array([[[(i + j) % 2, (i * j) % 2] for j in range(NVAR)] for i in range(2)], dtype=np.uint8)
    return g


def happly(h, op):
    k = op["op"]
    ret = None
    if k == "read":
        h.read(haplotypes=None if op["ids"] is None else {HAP_IDS[x] for x in op["ids"]})
    elif k == "subset":
        r = h.subset(haplotypes=tuple(HAP_IDS[x] for x in op["ids"]), inplace=op["inplace"])
        if not op["inplace"]:
            ret = {"copy": hobserve_data(r)}
    elif k == "sort":
        h.sort()
    elif k == "index":
        h.index()
    elif k == "transform":
        r = h.transform(transform_gts())
        ret = {"haps": [HAP_NUM[str(x)] for x in r.variants["id"]]}
    else:
        raise RuntimeError("unknown op")
    return {"state": hobserve_data(h), "ret": ret}


def hrec_term(r):
    return f"mkh {r[0]} {L.b(r[1])} {r[2]} {r[3]} {r[4]} {L.zl(r[5])}"


def hdata_term(d):
    return L.lst(d, hrec_term)


class HShared(Shared):
    def __call__(self, t):
        key = hdata_term(t)
        if key not in self.names:
            self.names[key] = f"d{len(self.names)}"
            self.defs.append((self.names[key], key))
        return self.names[key]


def hop_term(op):
    k = op["op"]
    if k == "read":
        return f"HRead {optzl(op['ids'])}"
    if k == "subset":
        return f"HSubset {L.zl(op['ids'])} {L.b(op['inplace'])}"
    return {"sort": "HSort", "index": "HIndex", "transform": "HTransform"}[k]


def hobs_term(o, sh):
    if "err" in o:
        return f"HE {L.z(o['err'])}"
    r = o["ret"]
    if r is None:
        rt = "HNone"
    elif "copy" in r:
        rt = f"(HCopy {sh(r['copy'])})"
    else:
        rt = f"(HHaps {L.zl(r['haps'])})"
    return f"HO {sh(o['state'])} {rt}"


class Haps(Relation):
    name = "haps"
    coq_module = "C12_Check"
    coq_check = "check_haps"
    coq_case_type = "hcase"
    coq_model = "model_haps"
    coq_imports = ["GenoTable", "C13_Model", "C12_Model"]
    budget = {"quick": 300, "thorough": 6000}
    max_cases_per_shard = 100
    max_chars_per_shard = 80_000
    anchors = [
        ("haptools/data/haplotypes.py", "Haplotypes.read"),
        ("haptools/data/haplotypes.py", "Haplotypes.index"),
        ("haptools/data/haplotypes.py", "Haplotypes.subset"),
        ("haptools/data/haplotypes.py", "Haplotypes.sort"),
        ("haptools/data/haplotypes.py", "Haplotypes.transform"),
    ]

    def generate(self, rng, n, tier):
        out = []
        for i in range(n):
            k = int(rng.integers(3, 7))
            keys = rng.permutation(list(HAP_IDS))[:k].tolist()
            recs = []
            for x in keys:
                is_hap = x < 10
                start = int(rng.choice([10, 10, 12, 14]))
                end = start + int(rng.choice([2, 2, 4]))
                vs = sorted(rng.permutation(NVAR)[:int(rng.integers(1, 4))].tolist()) if is_hap else []
                recs.append([int(x), bool(is_hap), int(rng.integers(1, 3)), start, end, [int(v) for v in vs]])
            ops = [{"op": "read", "ids": None}]
            if rng.random() < 0.3:
                ops[0] = {"op": "read", "ids": sorted({int(rng.choice(keys)), int(rng.choice(keys))})}
            for _ in range(int(rng.integers(1, 9))):
                u = rng.random()
                if u < 0.10:
                    ops.append({"op": "read", "ids": None})
                elif u < 0.30:
                    ops.append({"op": "read", "ids": sorted(set([int(rng.choice(keys))] + [int(x) for x in rng.choice(keys + [5, 12], size=int(rng.integers(0, 3)))]))})
                elif u < 0.55:
                    ops.append({"op": "subset", "ids": request(rng, keys, keys, 12), "inplace": bool(rng.random() < 0.5)})
                elif u < 0.65:
                    ops.append({"op": "sort"})
                elif u < 0.72:
                    ops.append({"op": "index"})
                else:
                    ops.append({"op": "transform"})
            if rng.random() < 0.4:
                # let type_ids be built, change the contents with one chosen mutator, use type_ids
                build = [{"op": "index"}, {"op": "transform"}][int(rng.integers(0, 2))]
                m = str(rng.choice(["read", "inplace", "sort"]))
                if m == "read":
                    mut = {"op": "read", "ids": sorted({int(rng.choice(keys)), int(rng.choice(keys))})}
                elif m == "inplace":
                    mut = {"op": "subset", "ids": request(rng, keys, keys, 12), "inplace": True}
                else:
                    mut = {"op": "sort"}
                ops = [ops[0], build, mut, {"op": "transform"}]
                if rng.random() < 0.5:
                    ops.append({"op": "subset", "ids": request(rng, keys, keys, 12), "inplace": False})
            out.append({"file": recs, "ops": ops})
        return out

    def run_impl(self, inp):
        import warnings

        from haptools import data as hd

        warnings.simplefilter("ignore")
        d = tempfile.mkdtemp(prefix="hv_c12_")
        try:
            path = os.path.join(d, "in.hap")
            with open(path, "w") as fh:
                fh.write("#\tversion\t0.2.0\n")
                for r in inp["file"]:
                    fh.write(f"{'H' if r[1] else 'R'}\t{r[2]}\t{r[3]}\t{r[4]}\t{HAP_IDS[r[0]]}\n")
                for r in inp["file"]:
                    for v in r[5]:
                        fh.write(f"V\t{HAP_IDS[r[0]]}\t{10 + v}\t{11 + v}\tv{v}\t{'AT'[v % 2]}\n")
            h = hd.Haplotypes(path, log=quiet_log())
            steps = []
            for op in inp["ops"]:
                fresh = None
                if op["op"] == "read":
                    fo = hd.Haplotypes(path, log=quiet_log())
                    fresh = guarded(lambda: happly(fo, op))
                elif op["op"] in ("subset", "transform"):
                    fo = hfresh_copy(h)
                    fresh = guarded(lambda: happly(fo, op))
                o = guarded(lambda: happly(h, op))
                steps.append({"obs": o, "fresh": fresh})
                if "err" in o:
                    break
            return {"steps": steps}
        finally:
            shutil.rmtree(d, ignore_errors=True)

    def encode(self, inp, obs):
        sh = HShared()
        if not isinstance(obs, dict) or "steps" not in obs:
            k = obs.get("kind", 99) if isinstance(obs, dict) else 99
            return sh.wrap(f"mkhcase false {sh(inp['file'])} [(HIndex, HE {L.z(k)}, None)]")
        parts = []
        for op, st in zip(inp["ops"], obs["steps"]):
            fr = "None" if st["fresh"] is None else f"(Some ({hobs_term(st['fresh'], sh)}))"
            parts.append(f"({hop_term(op)}, {hobs_term(st['obs'], sh)}, {fr})")
        return sh.wrap(f"mkhcase false {sh(inp['file'])} {L.lst(parts)}")

    def nontrivial(self, inp, obs):
        return by_id_after_change(inp["ops"], {"subset", "transform"}, {"read", "sort"})

    def classes(self, inp, obs):
        out = [f"len={len(inp['ops'])}"]
        out += sorted({op["op"] + ("-inplace" if op.get("inplace") else "") for op in inp["ops"]})
        if isinstance(obs, dict) and "steps" in obs:
            for st in obs["steps"]:
                if "err" in st["obs"]:
                    out.append(f"ended-by-err{st['obs']['err']}")
        return out

    def shrink(self, inp):
        ops = inp["ops"]
        for j in range(1, len(ops)):
            yield dict(inp, ops=ops[:j] + ops[j + 1:])
        if len(inp["file"]) > 1:
            for j in range(len(inp["file"])):
                yield dict(inp, file=inp["file"][:j] + inp["file"][j + 1:])
        for j, op in enumerate(ops):
            if op.get("ids") and len(op["ids"]) > 1:
                for q in range(len(op["ids"])):
                    yield dict(inp, ops=ops[:j] + [dict(op, ids=op["ids"][:q] + op["ids"][q + 1:])] + ops[j + 1:])

    def mutate(self, inp, rng):
        keys = [r[0] for r in inp["file"]]
        for _ in range(10):
            yield dict(inp, ops=inp["ops"] + [{"op": "read", "ids": [int(rng.choice(keys))]}, {"op": "transform"}])

    def signature(self, inp, obs):
        if not isinstance(obs, dict) or "steps" not in obs:
            return "haps harness-level failure"
        nread = 0
        for op, st in zip(inp["ops"], obs["steps"]):
            if st["fresh"] is not None and st["fresh"] != st["obs"]:
                what = "exception" if "err" in st["obs"] else "wrong haplotype list"
                return f"haps {op['op']} after {'a re-read' if nread > 1 else 'earlier operations'} differs from a fresh object's ({what})"
            if op["op"] == "read":
                nread += 1
        return "haps history object and model disagree"


RELATIONS = [Geno(), Pheno(), Haps()]

LEVEL_TEXT = (
    "Coq refinement proof: concrete objects carrying explicit ID->position caches (snapshots of the ID list they were "
    "built from) versus cache-free abstract tables whose by-ID lookups search the current IDs; invariant cache_valid "
    "(cache absent, or equal to the current duplicate-free IDs) is established by the constructor and preserved by "
    "every operation; hence for every finite history and every by-ID query the concrete run shows exactly what the "
    "abstract run shows (contents, returned copies, exception kinds) - for genotypes (all four classes' operations), "
    "phenotypes/covariates and haplotypes objects. The model is tied to /repo on every run: random histories are "
    "applied to the real objects of all seven classes and every step's observation is compared, inside Coq, with the "
    "model and with a fresh object built from the same logical content."
)
LEVEL_NOTE = (
    "Trusted: Coq kernel/vm_compute; the hand-written model (validated differentially on every run); file readers "
    "(the model's file content is what a fresh full read returns); the harness's construction of fresh objects. "
    "Histories end at the first exception. Merge operations and PhenoSimulator.run are not in the model "
    "(merge_variants/merge build a new object whose caches start empty; PhenoSimulator.run looks IDs up through "
    "subset(), which is modelled). Phenotypes.append of an already present name is outside the theorem's precondition."
)
TECHNIQUE = "Coq refinement proof (invariant + induction over histories) + vm_compute-evaluated correspondence against the implementation"
