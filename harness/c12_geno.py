"""C12 - relation geno: histories on Genotypes / GenotypesVCF / GenotypesPLINK / GenotypesAncestry objects,
the copies their subsets return and the objects merge_variants builds."""
import itertools
import os
import shutil
import tempfile

import numpy as np

from . import coqlit as L
from . import c12_util as U
from .c12_util import add_switches, guarded, ids, nats, optzl, quiet_log, request, valid_switches
from .c13 import Shared, write_anc_vcf, write_pgen, write_vcf
from .core import Relation

GCLASSES = ["Genotypes", "GenotypesVCF", "GenotypesPLINK", "GenotypesAncestry"]
POPS = ["A", "B", "C"]
RAISING = {"missingN": "GCheckMissingN", "biallelicN": "GCheckBiallelicN", "sorted": "GCheckSorted"}


def make_multi(cls, c, k=0):
    """turn the call c = [a, b, phased] into a multiallelic one (never half-missing: a PGEN cannot hold that)"""
    c[k] = 2
    if c[1 - k] >= 254:
        c[1 - k] = 1
    if cls == "GenotypesPLINK":
        c[2] = 1 if c[0] != c[1] else 0


def gclass(name):
    from haptools import data as hd
    from haptools.transform import GenotypesAncestry

    return {"Genotypes": hd.Genotypes, "GenotypesVCF": hd.GenotypesVCF, "GenotypesPLINK": hd.GenotypesPLINK,
            "GenotypesAncestry": GenotypesAncestry, "GenotypesTR": hd.GenotypesTR}[name]


def load_table(g, t):
    """GenotypesTR objects are not read from a file here (that needs a TRTools-readable VCF): the first 'read' of
    their histories hands them the arrays of the generated table, as a loader would, and the history goes on from
    there (no further read).  This also lets a table hold a SAMPLE twice, which no VCF / PGEN reader accepts."""
    g.samples = tuple(f"s{i}" for i in t["samples"])
    g.variants = np.array([(f"v{v[0]}", str(v[1]), v[2]) for v in t["variants"]], dtype=g.variants.dtype)
    g.data = np.array(t["rows"], dtype=np.uint8).reshape(len(t["samples"]), len(t["variants"]), 3)
    g._samp_idx = None
    g._var_idx = None


def tr_sanitize(ops):
    """GenotypesTR: no re-read (see load_table), no check_biallelic / check_maf (not implemented for repeats), no
    transform (no alleles)"""
    out = []
    for j, op in enumerate(ops):
        k = op["op"]
        if j == 0:
            op = {"op": "read", "ss": None, "vs": None}
        elif k == "read":
            op = {"op": "index", "s": True, "v": True}
        elif k in ("biallelic", "maf"):
            op = {"op": "missing"}
        elif k in ("biallelicN", "mafN"):
            op = {"op": "missingN"}
        elif k == "transform":
            op = {"op": "sim", "ids": op["vids"]}
        out.append(op)
    return out


def write_geno_file(inp, d):
    t = inp["file"]
    if inp["cls"] == "GenotypesAncestry":
        path = os.path.join(d, "in.vcf.gz")
        write_anc_vcf(path, t)
        return path
    if inp["cls"] == "GenotypesPLINK":
        path = os.path.join(d, "in.pgen")
        write_pgen(path, t)      # with pgenlib itself: missing and multiallelic calls allowed
        return path
    path = os.path.join(d, "in.vcf.gz")
    write_vcf(path, t["samples"], t["variants"], t["rows"])
    return path


def gobserve(g, is_anc):
    d = np.asarray(g.data)
    if d.ndim != 3 or len(g.samples) != d.shape[0] or len(g.variants) != d.shape[1]:
        raise AssertionError(f"arrays out of step: samples {len(g.samples)} variants {len(g.variants)} data {d.shape}")
    k = int(d.shape[2])
    di = d.astype(np.int64)
    st = {
        "samples": [int(str(s)[1:]) for s in g.samples],
        "variants": [[int(str(v["id"])[1:]), int(str(v["chrom"])), int(v["pos"])] for v in g.variants],
        "rows": [[[int(c[0]), int(c[1]), int(c[2]) if k >= 3 else 0] for c in r] for r in di],
        "planes": k, "anc": None,
    }
    if is_anc:
        a = np.asarray(g.ancestry)
        if a.shape[:2] != d.shape[:2]:
            raise AssertionError(f"ancestry out of step: {a.shape} vs {d.shape}")
        # population code -> label, through the object's own label table (subset copies share
        # ancestry_labels with their parent but get no popnum_ancestry)
        inv = {int(code): POPS.index(lab) for lab, code in g.ancestry_labels.items()}
        dec = lambda c: inv.get(int(c), 90 + int(c))
        st["anc"] = [[[dec(c[0]), dec(c[1])] for c in r] for r in a]
    return st


def gfresh_copy(g, is_anc):
    f = g.__class__(g.fname, g.log)
    f.samples = tuple(g.samples)
    f.variants = g.variants.copy()
    f.data = g.data.copy()
    if is_anc:
        f.ancestry = g.ancestry.copy()
        f.ancestry_labels = dict(g.ancestry_labels)
        f.popnum_ancestry = dict(g.popnum_ancestry)
    return f


def one_haplotype(vids):
    """a Haplotypes object holding one haplotype whose variant lines are vids, allele = first ALT"""
    from haptools import data as hd

    h = hd.Haplotypes(fname=None, log=quiet_log())
    hap = hd.Haplotype(chrom="1", start=10, end=40, id="H1")
    hap.variants = tuple(hd.Variant(start=10 + v, end=11 + v, id=f"v{v}", allele="T") for v in vids)
    h.data = {"H1": hap}
    return h


def gapply(g, op, is_anc, sink=None):
    """returns the observation {'state':..., 'ret':...}; a returned copy is appended to sink"""
    k = op["op"]
    ret = None
    if k == "read" and op.get("table") is not None:
        load_table(g, op["table"])
    elif k == "read":
        g.read(samples=None if op["ss"] is None else set(ids("s", op["ss"])),
               variants=None if op["vs"] is None else set(ids("v", op["vs"])))
    elif k == "subset":
        ss = None if op["ss"] is None else tuple(ids("s", op["ss"]))
        vs = None if op["vs"] is None else tuple(ids("v", op["vs"]))
        r = g.subset(samples=ss, variants=vs, inplace=op["inplace"])
        if not op["inplace"]:
            ret = {"copy": gobserve(r, is_anc)}
            if sink is not None:
                sink.append(r)
    elif k == "index":
        g.index(samples=op["s"], variants=op["v"])
    elif k in ("missing", "missingN"):
        g.check_missing(discard_also=(k == "missing"))
    elif k in ("biallelic", "biallelicN"):
        g.check_biallelic(discard_also=(k == "biallelic"))
    elif k in ("maf", "mafN"):
        with np.errstate(all="ignore"):
            g.check_maf(threshold=op["thr"], discard_also=(k == "maf"))
    elif k == "sorted":
        g.check_sorted()
    elif k == "sim":
        # noise-free, un-normalised: pt[s] = sum over the effects found of 4^k * dosage(s, v_k)
        from haptools.sim_phenotype import Effect, PhenoSimulator

        sim = PhenoSimulator(g, output=os.devnull, seed=0, log=quiet_log())
        with np.errstate(all="ignore"):
            pt = sim.run([Effect(f"v{x}", float(4 ** x)) for x in op["ids"]], environment=0.0, normalize=False)
        name = sim.phens.names[-1]
        found = [int(x[1:]) for x in name.split("-")] if name else []
        vals = []
        for x in np.asarray(pt).tolist():
            if float(x) != int(x):
                raise AssertionError("non-integer phenotype")
            vals.append(int(x))
        ret = {"sim": [found, vals]}
    elif k == "transform":
        h = one_haplotype(op["vids"])
        try:
            r = h.transform(g)
        except IndexError:
            # Haplotypes.transform after gts.subset(variants=...) returned fewer columns than it asked for
            ret = {"trans": None}
        else:
            dd = np.asarray(r.data).astype(np.int64)
            if dd.shape[1:] != (1, 2) or tuple(r.samples) != tuple(g.samples):
                raise AssertionError(f"unexpected transform result {dd.shape}")
            ret = {"trans": [int(c[0][0] + 2 * c[0][1]) for c in dd]}
    else:
        raise RuntimeError("unknown op")
    return {"state": gobserve(g, is_anc), "ret": ret}


def gop_term(op):
    k = op["op"]
    if k == "switch":
        return f"XSwitch {op['k']}%nat"
    if k == "merge":
        return f"XMerge {nats(op['ks'])}"
    return f"XOn ({gop_term1(op)})"


def gop_term1(op):
    k = op["op"]
    if k == "read":
        return f"GRead {optzl(op['ss'])} {optzl(op['vs'])}"
    if k == "subset":
        return f"GSubset {optzl(op['ss'])} {optzl(op['vs'])} {L.b(op['inplace'])}"
    if k == "index":
        return f"GIndex {L.b(op['s'])} {L.b(op['v'])}"
    if k == "missing":
        return "GCheckMissing"
    if k == "biallelic":
        return "GCheckBiallelic"
    if k == "maf":
        return f"GCheckMaf {L.hexfloat(op['thr'])}"
    if k == "mafN":
        return f"GCheckMafN {L.hexfloat(op['thr'])}"
    if k == "sim":
        return f"GSim {L.zl(op['ids'])}"
    if k == "transform":
        return f"GTransform {L.zl(op['vids'])}"
    return RAISING[k]


def gret_term(r, sh):
    if r is None:
        return "ONone"
    if "copy" in r:
        return f"(OCopy {sh(r['copy'])})"
    if "sim" in r:
        return f"(OView (GVSim {L.zl(r['sim'][0])} {L.zl(r['sim'][1])}))"
    t = r["trans"]
    return "(OView (GVTrans " + ("None" if t is None else f"(Some {L.zl(t)})") + "))"


def gobs_term(o, sh):
    if "err" in o:
        return f"GE {L.z(o['err'])}"
    return f"GO {sh(o['state'])} {gret_term(o['ret'], sh)}"


class Geno(Relation):
    name = "geno"
    coq_module = "C12_Check"
    coq_check = "check_geno"
    coq_case_type = "gcase"
    coq_model = "model_geno"
    coq_imports = ["GenoTable", "C13_Model", "C12_Model"]
    budget = {"quick": 380, "thorough": 6000}
    max_cases_per_shard = 60
    max_chars_per_shard = 80_000
    anchors = [
        ("haptools/data/genotypes.py", "Genotypes.read"),
        ("haptools/data/genotypes.py", "Genotypes.__iter__"),
        ("haptools/data/genotypes.py", "Genotypes._iterate"),
        ("haptools/data/genotypes.py", "Genotypes.index"),
        ("haptools/data/genotypes.py", "Genotypes.subset"),
        ("haptools/data/genotypes.py", "Genotypes.merge_variants"),
        ("haptools/data/genotypes.py", "GenotypesPLINK.read"),
        ("haptools/data/genotypes.py", "GenotypesPLINK.read_samples"),
        ("haptools/data/genotypes.py", "GenotypesPLINK.read_variants"),
        ("haptools/transform.py", "GenotypesAncestry.read"),
        ("haptools/transform.py", "GenotypesAncestry.subset"),
        ("haptools/sim_phenotype.py", "PhenoSimulator.run"),
        ("haptools/data/data.py", "Data.read"),
    ]

    def preamble(self):
        return "From Coq Require Import PrimFloat.\nOpen Scope Z_scope."

    # ---- files -----------------------------------------------------------------

    def gen_file(self, rng, cls, dup=False):
        n = int(rng.integers(3, 5))
        p = int(rng.integers(3, 6))
        sids = sorted(rng.permutation(7)[:n].tolist()) if rng.random() < 0.5 else rng.permutation(7)[:n].tolist()
        vids = rng.permutation(7)[:p].tolist()
        if dup:  # one variant ID occurs twice (VCF readers only)
            a, b = sorted(rng.choice(p, size=2, replace=False).tolist())
            vids[b] = vids[a]
            if cls == "GenotypesTR" and rng.random() < 0.5:   # tables handed over in memory: a sample twice
                vids = rng.permutation(7)[:p].tolist()
                a, b = sorted(rng.choice(n, size=2, replace=False).tolist())
                sids[b] = sids[a]
        rows = []
        for i in range(n):
            r = []
            for j in range(p):
                a, b = int(rng.integers(0, 2)), int(rng.integers(0, 2))
                ph = 1
                if cls != "GenotypesAncestry":
                    u = rng.random()
                    if u < 0.05:
                        a, b, ph = 255, 255, 0
                    elif u < 0.10:
                        a = 2
                if cls == "GenotypesPLINK" and a == b:
                    ph = 0   # what a PGEN keeps of the phase flag of a homozygous call is not C12's business
                r.append([a, b, ph])
            rows.append(r)
        t = {"samples": [int(x) for x in sids], "variants": [[int(vids[j]), 1, 10 + 2 * j] for j in range(p)],
             "rows": rows, "planes": 3, "anc": None}
        if cls == "GenotypesAncestry":
            t["anc"] = [[[int(rng.integers(0, 3)), int(rng.integers(0, 3))] for _ in range(p)] for _ in range(n)]
        return t

    # ---- operations ---------------------------------------------------------------

    def _read(self, rng, S, V):
        ss = vs = None
        u = rng.random()
        if u < 0.6:
            ss = sorted(set([int(rng.choice(S))] + [int(x) for x in rng.choice(S + [8], size=int(rng.integers(0, 3)))]))
        if u > 0.35:
            vs = sorted(set([int(rng.choice(V))] + [int(x) for x in rng.choice(V + [8], size=int(rng.integers(0, 3)))]))
        return {"op": "read", "ss": ss, "vs": vs}

    def _lookup(self, rng, cls, S, V, p_inplace=0.3):
        """one by-ID operation: subset, PhenoSimulator.run or Haplotypes.transform"""
        u = rng.random()
        if u < 0.18:
            return {"op": "sim", "ids": request(rng, V, V, 8)}
        if u < 0.30 and cls != "Genotypes":
            return {"op": "transform", "vids": sorted(set(request(rng, V, V, 8)))}
        q = {"op": "subset", "ss": request(rng, S, S, 8) if rng.random() < 0.6 else None,
             "vs": request(rng, V, V, 8) if rng.random() < 0.7 else None, "inplace": bool(rng.random() < p_inplace)}
        if q["ss"] is None and q["vs"] is None:
            q["vs"] = [int(rng.choice(V))]
        return q

    def gen_ops(self, rng, cls, t):
        S = t["samples"]
        V = sorted({v[0] for v in t["variants"]})
        k = int(rng.integers(1, 9))
        ops = [{"op": "read", "ss": None, "vs": None}]
        if rng.random() < 0.3:
            ops[0] = self._read(rng, S, V)
        made = 0
        for _ in range(k):
            u = rng.random()
            if u < 0.08:
                ops.append({"op": "read", "ss": None, "vs": None})
            elif u < 0.24:
                ops.append(self._read(rng, S, V))
            elif u < 0.62:
                which = rng.random()
                ss = request(rng, S, S, 8) if which < 0.6 else None
                vs = request(rng, V, V, 8) if which > 0.4 else None
                ops.append({"op": "subset", "ss": ss, "vs": vs, "inplace": bool(rng.random() < 0.45)})
                made += 0 if ops[-1]["inplace"] else 1
            elif u < 0.68:
                ops.append({"op": "index", "s": bool(rng.random() < 0.7), "v": bool(rng.random() < 0.7)})
            elif u < 0.72:
                ops.append({"op": "missing"})
            elif u < 0.75:
                ops.append({"op": "biallelic"})
            elif u < 0.79:
                ops.append({"op": "maf", "thr": float(rng.choice([0.0, 0.2, 0.3, 0.5]))})
            elif u < 0.86:
                ops.append({"op": "sim", "ids": request(rng, V, V, 8)})
            elif u < 0.90 and cls != "Genotypes":
                ops.append({"op": "transform", "vids": sorted(set(request(rng, V, V, 8)))})
            elif u < 0.94 and cls != "GenotypesAncestry":
                ops.append({"op": "merge", "ks": [int(x) for x in rng.integers(0, made + 1, size=int(rng.integers(1, 4)))]})
                made += 1
            else:
                ops.append([{"op": "missingN"}, {"op": "biallelicN"}, {"op": "sorted"},
                            {"op": "mafN", "thr": float(rng.choice([0.2, 0.3, 0.5]))}][int(rng.integers(0, 4))])
        return ops

    def targeted(self, rng, cls, t):
        """build an index, change the contents with one chosen mutator, look IDs up"""
        S = t["samples"]
        V = [v[0] for v in t["variants"]]
        n, p = len(S), len(V)
        build = [{"op": "index", "s": True, "v": True},
                 {"op": "subset", "ss": [int(rng.choice(S))], "vs": [int(rng.choice(V))], "inplace": False},
                 {"op": "sim", "ids": [int(rng.choice(V))]}][int(rng.integers(0, 3))]
        muts = ["read", "inplace", "maf"]
        if cls != "GenotypesAncestry":
            muts += ["missing", "biallelic"]
        if cls == "GenotypesTR":
            muts = ["inplace", "missing"]
        m = str(rng.choice(muts))
        if m == "read":
            mut = self._read(rng, S, V)
        elif m == "inplace":
            mut = {"op": "subset", "ss": request(rng, S, S, 8) if rng.random() < 0.6 else None,
                   "vs": request(rng, V, V, 8) if rng.random() < 0.6 else None, "inplace": True}
            if mut["ss"] is None and mut["vs"] is None:
                mut["vs"] = [int(rng.choice(V))]
        elif m == "missing":
            i, j = int(rng.integers(0, n)), int(rng.integers(0, p))
            t["rows"][i][j] = [255, 255, 0]
            mut = {"op": "missing"}
        elif m == "biallelic":
            i, j = int(rng.integers(0, n)), int(rng.integers(0, p))
            make_multi(cls, t["rows"][i][j], int(rng.integers(0, 2)))
            mut = {"op": "biallelic"}
        else:
            j = int(rng.integers(0, p))
            for i in range(n):
                t["rows"][i][j][0] = t["rows"][i][j][1] = 0  # a monomorphic variant: MAF 0
                if cls == "GenotypesPLINK":
                    t["rows"][i][j][2] = 0
            mut = {"op": "maf", "thr": float(rng.choice([0.1, 0.2, 0.3]))}
        look = [self._lookup(rng, cls, S, V) for _ in range(int(rng.integers(1, 3)))]
        first = {"op": "read", "ss": None, "vs": None}
        return [first, build, mut] + look

    def permuted(self, rng, cls, t):
        """build an index, in-place subset that keeps EVERY current ID but reorders them, look IDs up"""
        S = list(t["samples"])
        V = [v[0] for v in t["variants"]]
        ops = [{"op": "read", "ss": None, "vs": None}]
        if rng.random() < 0.3:   # start from fewer IDs so that "all current IDs" is not "all file IDs"
            ops[0] = self._read(rng, S, V)
            S = [x for x in S if ops[0]["ss"] is None or x in ops[0]["ss"]]
            V = [x for x in V if ops[0]["vs"] is None or x in ops[0]["vs"]]
        ops.append([{"op": "index", "s": True, "v": True},
                    {"op": "subset", "ss": [int(rng.choice(S))], "vs": [int(rng.choice(V))], "inplace": False},
                    {"op": "sim", "ids": [int(rng.choice(V))]}][int(rng.integers(0, 3))])

        def perm(l):
            l = list(l)
            if len(l) < 2:
                return l
            while True:
                q = [int(x) for x in rng.permutation(l)]
                if q != l:
                    return q

        which = rng.random()
        ss = perm(S) if which < 0.65 and ops[1]["op"] != "sim" else None
        vs = perm(V) if which > 0.35 or ss is None else None
        ops.append({"op": "subset", "ss": ss, "vs": vs, "inplace": True})
        for _ in range(int(rng.integers(1, 3))):
            u = rng.random()
            if vs is not None and u < 0.25:
                ops.append({"op": "sim", "ids": request(rng, V, V, 8)})
            elif vs is not None and u < 0.4 and cls != "Genotypes":
                ops.append({"op": "transform", "vids": sorted(set(request(rng, V, V, 8)))})
            else:
                ops.append({"op": "subset", "ss": request(rng, S, S, 8) if (ss is not None or rng.random() < 0.3) else None,
                            "vs": request(rng, V, V, 8) if (vs is not None or rng.random() < 0.3) else None,
                            "inplace": bool(rng.random() < 0.3)})
        return ops

    def shared(self, rng, cls, t):
        """index the object, take a copy that subsets ONE axis, change one of the two objects,
        look IDs up on the other one (on the axis the copy did not subset, and on the other)"""
        S = list(t["samples"])
        V = [v[0] for v in t["variants"]]
        n, p = len(S), len(V)
        ops = [{"op": "read", "ss": None, "vs": None}, {"op": "index", "s": True, "v": True}]
        by_samples = rng.random() < 0.5
        ops.append({"op": "subset", "ss": request(rng, S, S, 8) if by_samples else None,
                    "vs": None if by_samples else request(rng, V, V, 8), "inplace": False})
        change_copy = rng.random() < 0.5
        if change_copy:
            ops.append({"op": "switch", "k": 1})
        muts = ["read", "inplace", "perm"]
        if cls != "GenotypesAncestry" and not change_copy:
            muts += ["biallelic", "missing"]
        if cls == "GenotypesTR":
            muts = ["inplace", "perm"] + ([] if change_copy else ["missing"])
        m = str(rng.choice(muts))
        if m == "read":
            ops.append(self._read(rng, S, V))
        elif m == "inplace":
            ops.append({"op": "subset", "ss": request(rng, S, S, 8) if rng.random() < 0.5 else None,
                        "vs": request(rng, V, V, 8), "inplace": True})
        elif m == "perm":
            ops.append({"op": "subset", "ss": [int(x) for x in rng.permutation(S)] if rng.random() < 0.5 else None,
                        "vs": [int(x) for x in rng.permutation(V)], "inplace": True})
        elif m == "missing":
            t["rows"][int(rng.integers(0, n))][int(rng.integers(0, p))] = [255, 255, 0]
            ops.append({"op": "missing"})
        else:
            make_multi(cls, t["rows"][int(rng.integers(0, n))][int(rng.integers(0, p))])
            ops.append({"op": "biallelic"})
        ops.append({"op": "switch", "k": 0 if change_copy else 1})
        for _ in range(int(rng.integers(1, 3))):
            if rng.random() < 0.25:
                ops.append({"op": "sim", "ids": request(rng, V, V, 8)})
            else:
                ops.append({"op": "subset", "ss": request(rng, S, S, 8) if rng.random() < 0.6 else None,
                            "vs": request(rng, V, V, 8), "inplace": False})
        return ops

    def duplicated(self, rng, cls, t):
        """an object holding an ID twice (a file with a repeated variant ID, or a merge of overlapping
        objects): the first by-ID look-up raises; the history goes on with more look-ups"""
        S = list(t["samples"])
        V = sorted({v[0] for v in t["variants"]})
        ops = [{"op": "read", "ss": None, "vs": None}]
        if len(V) == len(t["variants"]):
            # distinct IDs in the file: two overlapping copies, merged
            a = sorted(set(request(rng, V, V, 8)) | {int(rng.choice(V))})
            b = sorted(set(request(rng, V, V, 8)) | {int(rng.choice(a))})
            ops += [{"op": "subset", "ss": None, "vs": a, "inplace": False},
                    {"op": "subset", "ss": None, "vs": b, "inplace": False},
                    {"op": "merge", "ks": [1, 2]}, {"op": "switch", "k": 3}]
        if rng.random() < 0.3:
            ops.append({"op": "index", "s": bool(rng.random() < 0.5), "v": True})
        for _ in range(int(rng.integers(2, 5))):
            u = rng.random()
            if u < 0.12:
                ops.append({"op": "index", "s": True, "v": True})
            elif u < 0.2:
                ops.append({"op": "subset", "ss": request(rng, S, S, 8), "vs": None, "inplace": bool(rng.random() < 0.5)})
            elif u < 0.26:
                ops.append({"op": "maf", "thr": 0.5} if rng.random() < 0.5 else {"op": "biallelic"})
            else:
                ops.append(self._lookup(rng, cls, S, V, p_inplace=0.2))
        return ops

    def merged(self, rng, cls, t):
        """copies by variants, merged; then change a source or the merged object and look IDs up on the others"""
        S = list(t["samples"])
        V = [v[0] for v in t["variants"]]
        h = max(1, len(V) // 2)
        a, b = V[:h], V[h:]
        if rng.random() < 0.3:
            b = b + [int(rng.choice(a))] if rng.random() < 0.5 else b
            a = [int(x) for x in rng.permutation(a)]
        ops = [{"op": "read", "ss": None, "vs": None}]
        if rng.random() < 0.45:
            # the object itself (indexed, then narrowed in place, then indexed again by a look-up) is a source
            ops += [{"op": "index", "s": True, "v": True}, {"op": "subset", "ss": None, "vs": b, "inplace": False},
                    {"op": "subset", "ss": None, "vs": a, "inplace": True}, self._lookup(rng, cls, S, V, p_inplace=0.0),
                    {"op": "merge", "ks": [0, 1] if rng.random() < 0.7 else [1, 0]}]
            made = 1 + sum(1 for o in ops if o["op"] == "subset" and not o["inplace"])   # 0, copies; the merged one is `made`
            ops.append({"op": "switch", "k": made})
            for _ in range(int(rng.integers(1, 4))):
                ops.append(self._lookup(rng, cls, S, V))
            if rng.random() < 0.5:
                ops += [{"op": "switch", "k": 0}, self._lookup(rng, cls, S, V)]
            return ops
        if rng.random() < 0.5:
            ops.append({"op": "index", "s": True, "v": True})
        ops += [{"op": "subset", "ss": None, "vs": a, "inplace": False},
                {"op": "subset", "ss": request(rng, S, S, 8) if rng.random() < 0.25 else None, "vs": b, "inplace": False},
                {"op": "merge", "ks": [1, 2] if rng.random() < 0.8 else [2, 1, 0][:int(rng.integers(2, 4))]}]
        top = 3 if ops[-2]["ss"] is None else 2   # samples differ: the merge raises, there is no object 3
        for _ in range(int(rng.integers(1, 3))):
            k = int(rng.integers(0, top + 1))
            ops.append({"op": "switch", "k": k})
            u = rng.random()
            if u < 0.3:
                ops.append({"op": "subset", "ss": None, "vs": [int(x) for x in rng.permutation(V)][:int(rng.integers(1, len(V) + 1))],
                            "inplace": True})
            elif u < 0.45:
                ops.append(self._read(rng, S, V))
            ops.append(self._lookup(rng, cls, S, V))
        ops.append({"op": "switch", "k": top})
        ops.append(self._lookup(rng, cls, S, V))
        if rng.random() < 0.3:
            ops.append({"op": "merge", "ks": [int(x) for x in rng.integers(0, top + 1, size=2)]})
        return ops

    def after_error(self, rng, cls, t):
        """index built; an operation that raises ValueError (a check without discard on a file with an
        offender, check_sorted after a reordering subset, a merge of objects with different samples);
        then look-ups"""
        S = list(t["samples"])
        V = [v[0] for v in t["variants"]]
        n, p = len(S), len(V)
        ops = [{"op": "read", "ss": None, "vs": None}]
        if rng.random() < 0.7:
            ops.append({"op": "index", "s": True, "v": True})
        m = str(rng.choice(["missingN", "sorted", "merge"] if cls == "GenotypesTR" else
                           ["missingN", "biallelicN", "mafN", "sorted", "merge"] if cls != "GenotypesAncestry"
                           else ["mafN", "sorted"]))
        if m == "missingN":
            t["rows"][int(rng.integers(0, n))][int(rng.integers(0, p))] = [255, 255, 0]
            ops.append({"op": "missingN"})
        elif m == "biallelicN":
            make_multi(cls, t["rows"][int(rng.integers(0, n))][int(rng.integers(0, p))])
            ops.append({"op": "biallelicN"})
        elif m == "mafN":
            j = int(rng.integers(0, p))
            for i in range(n):
                t["rows"][i][j][0] = t["rows"][i][j][1] = 0
                if cls == "GenotypesPLINK":
                    t["rows"][i][j][2] = 0
            ops.append({"op": "mafN", "thr": 0.2})
        elif m == "sorted":
            ops += [{"op": "subset", "ss": None, "vs": list(reversed(V)), "inplace": True}, {"op": "sorted"}]
        else:
            ops += [{"op": "subset", "ss": S[:-1], "vs": None, "inplace": False}, {"op": "merge", "ks": [0, 1]}]
        for _ in range(int(rng.integers(1, 4))):
            ops.append(self._lookup(rng, cls, S, V))
        if rng.random() < 0.4:
            ops.append({"op": {"missingN": "missing", "biallelicN": "biallelic"}.get(m, "index"), "s": True, "v": True})
            ops.append(self._lookup(rng, cls, S, V))
        return ops

    def generate(self, rng, n, tier):
        out = []
        for i in range(n):
            cls = GCLASSES[int(rng.integers(0, 4))] if rng.random() < 0.93 else "GenotypesTR"
            u = rng.random()
            dup = cls in ("Genotypes", "GenotypesVCF", "GenotypesTR") and (0.60 <= u < 0.66 or (u >= 0.78 and rng.random() < 0.12))
            t = self.gen_file(rng, cls, dup=dup)
            if u < 0.22:
                ops, kind = self.targeted(rng, cls, t), "targeted"
            elif u < 0.34:
                ops, kind = self.permuted(rng, cls, t), "permuted"
            elif u < 0.46:
                ops, kind = self.shared(rng, cls, t), "two-objects"
            elif u < 0.54 and cls != "GenotypesAncestry":
                ops, kind = self.merged(rng, cls, t), "merged"
            elif u < 0.60:
                ops, kind = self.after_error(rng, cls, t), "after-error"
            elif u < 0.70 and cls != "GenotypesAncestry":
                ops, kind = self.duplicated(rng, cls, t), "duplicate-ids"
            else:
                ops, kind = add_switches(rng, self.gen_ops(rng, cls, t)), "random"
            if cls == "GenotypesTR":
                ops = tr_sanitize(ops)
            out.append({"cls": cls, "file": t, "ops": ops, "kind": kind})
        return out

    def exhaustive(self, tier):
        # all histories of length <= 3 after the initial read over a small alphabet, 3 x 3 file
        t = {"samples": [0, 1, 2], "variants": [[0, 1, 10], [1, 1, 12], [2, 1, 14]],
             "rows": [[[0, 1, 1], [1, 1, 1], [0, 0, 1]], [[1, 0, 1], [0, 0, 1], [1, 1, 1]], [[1, 1, 1], [0, 1, 1], [1, 0, 1]]],
             "planes": 3, "anc": None}
        alpha = [
            {"op": "read", "ss": None, "vs": None},
            {"op": "read", "ss": None, "vs": [1, 2]},
            {"op": "read", "ss": [1, 2], "vs": None},
            {"op": "subset", "ss": None, "vs": [1], "inplace": False},
            {"op": "subset", "ss": [1], "vs": None, "inplace": False},
            {"op": "subset", "ss": None, "vs": [2, 0], "inplace": True},
            {"op": "subset", "ss": [2, 0], "vs": None, "inplace": True},
            {"op": "index", "s": True, "v": True},
            {"op": "subset", "ss": [2, 0, 1], "vs": None, "inplace": True},
            {"op": "switch", "k": 1},
            {"op": "switch", "k": 0},
            {"op": "sim", "ids": [1, 0]},
            {"op": "merge", "ks": [0, 1]},
        ]
        out = []
        depth = 3 if tier == "thorough" else 2
        for k in range(1, depth + 1):
            for seq in itertools.product(alpha, repeat=k):
                ops = [alpha[0]] + list(seq)
                if valid_switches(ops):
                    out.append({"cls": "GenotypesVCF", "file": t, "ops": ops, "kind": "exhaustive"})
        return out

    # ---- running the implementation --------------------------------------------------

    def run_impl(self, inp):
        import warnings

        warnings.simplefilter("ignore")
        is_anc = inp["cls"] == "GenotypesAncestry"
        d = tempfile.mkdtemp(prefix="hv_c12_")
        try:
            cls = gclass(inp["cls"])
            kw = {"log": quiet_log()}
            in_memory = inp["cls"] == "GenotypesTR"
            if in_memory:
                path = None
                full = cls(path, **kw)
                load_table(full, inp["file"])
            else:
                path = write_geno_file(inp, d)
                full = cls(path, **kw)
                full.read()
            filetab = gobserve(full, is_anc)
            # simphenotype merges its (repeat) genotypes with the base class' merge_variants
            merger = gclass("Genotypes") if in_memory else cls
            objs = [cls(path, **kw)]   # the object, the copies its subsets returned, the merged objects
            cur = 0
            doubted = set()            # objects whose index() has raised (see STRICT_INDEX_AFTER_DUPLICATES)
            steps = []
            for op in inp["ops"]:
                g = objs[cur]
                fresh = None
                k = op["op"]
                if (k == "switch" and not 0 <= op["k"] < len(objs)) or \
                        (k == "merge" and not (op["ks"] and all(0 <= j < len(objs) for j in op["ks"]))):
                    steps.append({"obs": {"err": 2, "msg": "no such object"}, "fresh": None})
                    break
                if k == "switch":
                    cur = op["k"]
                    g = objs[cur]
                    steps.append({"obs": guarded(lambda: {"state": gobserve(g, is_anc), "ret": None}), "fresh": None})
                    continue
                if k == "merge":
                    def merge_of(srcs):
                        r = merger.merge_variants(tuple(srcs), fname=path, log=quiet_log())
                        return r, {"state": gobserve(g, is_anc), "ret": {"copy": gobserve(r, is_anc)}}
                    fresh = guarded(lambda: merge_of([gfresh_copy(objs[j], is_anc) for j in op["ks"]])[1])

                    def real():
                        r, o = merge_of([objs[j] for j in op["ks"]])
                        objs.append(r)
                        return o
                    o = guarded(real)
                else:
                    if k == "read":
                        if in_memory:
                            op = dict(op, table=inp["file"])
                        fo = cls(path, **kw)
                        fresh = guarded(lambda: gapply(fo, op, is_anc))
                    elif k in ("subset", "index", "sim", "transform"):
                        fo = gfresh_copy(g, is_anc)
                        fresh = guarded(lambda: gapply(fo, op, is_anc))
                        if cur in doubted and not U.STRICT_INDEX_AFTER_DUPLICATES:
                            fresh = None
                    o = guarded(lambda: gapply(g, op, is_anc, objs))
                steps.append({"obs": o, "fresh": fresh})
                if "err" in o:
                    if o["err"] != U.E_VALUE:
                        break
                    if k in ("subset", "index", "sim", "transform"):
                        doubted.add(cur)
                elif k == "read":
                    doubted.discard(cur)
            return {"file": filetab, "steps": steps}
        finally:
            shutil.rmtree(d, ignore_errors=True)

    def encode(self, inp, obs):
        sh = Shared()
        anc = L.b(inp["cls"] == "GenotypesAncestry")
        heal = L.b(U.STRICT_INDEX_AFTER_DUPLICATES)
        if not isinstance(obs, dict) or "steps" not in obs:
            k = obs.get("kind", 99) if isinstance(obs, dict) else 99
            return sh.wrap(f"mkgcase {anc} false {heal} {sh(inp['file'])} [({gop_term(inp['ops'][0])}, GE {L.z(k)}, None)]")
        parts = []
        for op, st in zip(inp["ops"], obs["steps"]):
            fr = "None" if st["fresh"] is None else f"(Some ({gobs_term(st['fresh'], sh)}))"
            parts.append(f"({gop_term(op)}, {gobs_term(st['obs'], sh)}, {fr})")
        return sh.wrap(f"mkgcase {anc} false {heal} {sh(obs['file'])} {L.lst(parts)}")

    def nontrivial(self, inp, obs):
        ops = inp["ops"]
        if (U.by_id_after_change(ops, set(U.BY_ID), {"read", "missing", "biallelic", "maf"}) or U.other_object_lookup(ops)):
            return True
        return isinstance(obs, dict) and "steps" in obs and U.lookup_after_error(ops, obs["steps"])

    def classes(self, inp, obs):
        out = [inp["cls"], f"len={len(inp['ops'])}", f"stream={inp.get('kind', 'corpus')}"]
        if U.other_object_lookup(inp["ops"]):
            out.append("lookup-after-other-object-changed")
        out += sorted({op["op"] + ("-inplace" if op.get("inplace") else "") for op in inp["ops"]})
        if len({v[0] for v in inp["file"]["variants"]}) < len(inp["file"]["variants"]):
            out.append("file-with-duplicate-id")
        if len(set(inp["file"]["samples"])) < len(inp["file"]["samples"]):
            out.append("table-with-duplicate-sample")
        if isinstance(obs, dict) and "steps" in obs:
            for op, st in zip(inp["ops"], obs["steps"]):
                if "err" in st["obs"]:
                    out.append(f"{op['op']}-raised-err{st['obs']['err']}")
                r = st["obs"].get("ret")
                if r and "trans" in r:
                    out.append("transform-indexerror" if r["trans"] is None else "transform-ok")
                if r and "copy" in r and op["op"] == "merge":
                    out.append("merge-ok")
            if U.lookup_after_error(inp["ops"], obs["steps"]):
                out.append("lookup-after-caught-exception")
            if any(op["op"] == "subset" and (st["obs"].get("ret") or {}).get("copy") is not None and
                   len(st["obs"]["ret"]["copy"]["samples"]) < len(op["ss"] or []) for op, st in zip(inp["ops"], obs["steps"])):
                out.append("requested-id-absent")
        return out

    def shrink(self, inp):
        for c in self._shrink(inp):
            if valid_switches(c["ops"]):
                yield c

    def _shrink(self, inp):
        ops = inp["ops"]
        for j in range(1, len(ops)):
            yield dict(inp, ops=ops[:j] + ops[j + 1:])
        if inp["cls"] not in ("GenotypesVCF", "GenotypesAncestry", "GenotypesTR"):
            yield dict(inp, cls="GenotypesVCF")
        for j, op in enumerate(ops):
            for key in ("ss", "vs", "ids", "vids"):
                if op.get(key) and len(op[key]) > 1:
                    for q in range(len(op[key])):
                        yield dict(inp, ops=ops[:j] + [dict(op, **{key: op[key][:q] + op[key][q + 1:]})] + ops[j + 1:])
                if key in ("ss", "vs") and op.get(key) is not None and op["op"] == "subset" and \
                        (op["ss"] is not None and op["vs"] is not None):
                    yield dict(inp, ops=ops[:j] + [dict(op, **{key: None})] + ops[j + 1:])

    def mutate(self, inp, rng):
        ops = inp["ops"]
        V = [v[0] for v in inp["file"]["variants"]]
        S = inp["file"]["samples"]
        for _ in range(10):
            extra = [self._read(rng, S, V), {"op": "subset", "ss": None, "vs": request(rng, V, V, 8), "inplace": False}]
            if inp["cls"] == "GenotypesTR":
                extra[0] = {"op": "subset", "ss": request(rng, S, S, 8), "vs": request(rng, V, V, 8), "inplace": True}
            yield dict(inp, ops=ops + extra)

    def signature(self, inp, obs):
        if not isinstance(obs, dict) or "steps" not in obs:
            return "geno harness-level failure"
        return U.describe_difference("geno", inp["ops"], obs["steps"])
