"""C12 - relation haps: histories on a Haplotypes object, the copies its subsets return and the objects
Haplotypes.merge builds."""
import copy
import os
import shutil
import tempfile

import numpy as np

from . import coqlit as L
from . import c12_util as U
from .c12_util import guarded, nats, optzl, quiet_log, request, valid_switches
from .c13 import Shared
from .core import Relation

HAP_IDS = {1: "H1", 2: "H2", 3: "H3", 4: "H4", 5: "H5", 11: "R1", 12: "R2"}
HAP_NUM = {v: k for k, v in HAP_IDS.items()}
NVAR = 6


def hobserve_data(h):
    from haptools.data import Haplotype

    out = []
    for key, rec in h.data.items():
        if key != rec.id:
            raise AssertionError("dict key differs from record id")
        is_hap = isinstance(rec, Haplotype)
        vs = sorted(int(v.id[1:]) for v in rec.variants) if is_hap else []
        out.append([HAP_NUM[rec.id], bool(is_hap), int(rec.chrom), int(rec.start), int(rec.end), vs])
    return out


def hclass(name):
    from haptools import data as hd
    from haptools.transform import HaplotypesAncestry

    return {"Haplotypes": hd.Haplotypes, "HaplotypesAncestry": HaplotypesAncestry}[name]


def hfresh_copy(h):
    f = h.__class__(h.fname, log=quiet_log())
    f.data = {k: copy.deepcopy(v) for k, v in h.data.items()}
    return f


def transform_gts(anc=False):
    from haptools import data as hd
    from haptools.transform import GenotypesAncestry

    g = (GenotypesAncestry if anc else hd.GenotypesVCF)(fname=None, log=quiet_log())
    g.samples = ("s0", "s1")
    g.variants = np.array([(f"v{j}", "1", 10 + j, ("A", "T")) for j in range(NVAR)], dtype=g.variants.dtype)
    g.data = np.array([[[(i + j) % 2, (i * j) % 2] for j in range(NVAR)] for i in range(2)], dtype=np.uint8)
    if anc:
        g.ancestry = np.array([[[(i + j) % 2, j % 2] for j in range(NVAR)] for i in range(2)], dtype=np.uint8)
        g.ancestry_labels = {"YRI": 0, "CEU": 1}
    return g


def happly(h, op, sink=None):
    k = op["op"]
    ret = None
    if k == "read":
        h.read(haplotypes=None if op["ids"] is None else {HAP_IDS[x] for x in op["ids"]})
    elif k == "subset":
        r = h.subset(haplotypes=tuple(HAP_IDS[x] for x in op["ids"]), inplace=op["inplace"])
        if not op["inplace"]:
            ret = {"copy": hobserve_data(r)}
            if sink is not None:
                sink.append(r)
    elif k == "sort":
        h.sort()
    elif k == "index":
        h.index()
    elif k == "transform":
        r = h.transform(transform_gts(anc=h.__class__.__name__ == "HaplotypesAncestry"))
        ret = {"haps": [HAP_NUM[str(x)] for x in r.variants["id"]]}
    else:
        raise RuntimeError("unknown op")
    return {"state": hobserve_data(h), "ret": ret}


def hrec_term(r):
    return f"mkh {r[0]} {L.b(r[1])} {r[2]} {r[3]} {r[4]} {L.zl(r[5])}"


def hdata_term(d):
    return L.lst(d, hrec_term)


class HShared(Shared):
    def __call__(self, t):
        key = hdata_term(t)
        if key not in self.names:
            self.names[key] = f"d{len(self.names)}"
            self.defs.append((self.names[key], key))
        return self.names[key]


def hop_term(op):
    k = op["op"]
    if k == "switch":
        return f"HXSwitch {op['k']}%nat"
    if k == "merge":
        return f"HXMerge {nats(op['ks'])}"
    if k == "read":
        return f"HXOn (HRead {optzl(op['ids'])})"
    if k == "subset":
        return f"HXOn (HSubset {L.zl(op['ids'])} {L.b(op['inplace'])})"
    return "HXOn " + {"sort": "HSort", "index": "HIndex", "transform": "HTransform"}[k]


def hobs_term(o, sh):
    if "err" in o:
        return f"HE {L.z(o['err'])}"
    r = o["ret"]
    if r is None:
        rt = "HNone"
    elif "copy" in r:
        rt = f"(HCopy {sh(r['copy'])})"
    else:
        rt = f"(HHaps {L.zl(r['haps'])})"
    return f"HO {sh(o['state'])} {rt}"


class Haps(Relation):
    name = "haps"
    coq_module = "C12_Check"
    coq_check = "check_haps"
    coq_case_type = "hcase"
    coq_model = "model_haps"
    coq_imports = ["GenoTable", "C13_Model", "C12_Model"]
    budget = {"quick": 300, "thorough": 6000}
    max_cases_per_shard = 100
    max_chars_per_shard = 80_000
    anchors = [
        ("haptools/data/haplotypes.py", "Haplotypes.read"),
        ("haptools/data/haplotypes.py", "Haplotypes.index"),
        ("haptools/data/haplotypes.py", "Haplotypes.subset"),
        ("haptools/data/haplotypes.py", "Haplotypes.sort"),
        ("haptools/data/haplotypes.py", "Haplotypes.transform"),
        ("haptools/data/haplotypes.py", "Haplotypes.merge"),
    ]

    def generate(self, rng, n, tier):
        out = []
        for i in range(n):
            k = int(rng.integers(3, 7))
            keys = rng.permutation(list(HAP_IDS))[:k].tolist()
            recs = []
            for x in keys:
                is_hap = x < 10
                start = int(rng.choice([10, 10, 12, 14]))
                end = start + int(rng.choice([2, 2, 4]))
                vs = sorted(rng.permutation(NVAR)[:int(rng.integers(1, 4))].tolist()) if is_hap else []
                recs.append([int(x), bool(is_hap), int(rng.integers(1, 3)), start, end, [int(v) for v in vs]])
            ops = [{"op": "read", "ids": None}]
            if rng.random() < 0.3:
                ops[0] = {"op": "read", "ids": sorted({int(rng.choice(keys)), int(rng.choice(keys))})}
            made = 0
            for _ in range(int(rng.integers(1, 9))):
                u = rng.random()
                if made and rng.random() < 0.2:
                    ops.append({"op": "switch", "k": int(rng.integers(0, made + 1))})
                if u < 0.10:
                    ops.append({"op": "read", "ids": None})
                elif u < 0.28:
                    ops.append({"op": "read", "ids": sorted(set([int(rng.choice(keys))] + [int(x) for x in rng.choice(keys + [5, 12], size=int(rng.integers(0, 3)))]))})
                elif u < 0.53:
                    ops.append({"op": "subset", "ids": request(rng, keys, keys, 12), "inplace": bool(rng.random() < 0.5)})
                    made += 0 if ops[-1]["inplace"] else 1
                elif u < 0.62:
                    ops.append({"op": "sort"})
                elif u < 0.68:
                    ops.append({"op": "index"})
                elif u < 0.76:
                    ops.append({"op": "merge", "ks": [int(x) for x in rng.integers(0, made + 1, size=int(rng.integers(1, 4)))]})
                    made += 1
                else:
                    ops.append({"op": "transform"})
            kind = "random"
            u0 = rng.random()
            if u0 < 0.3:
                kind = "targeted"
                # let type_ids be built, change the contents with one chosen mutator, use type_ids
                build = [{"op": "index"}, {"op": "transform"}][int(rng.integers(0, 2))]
                m = str(rng.choice(["read", "inplace", "sort"]))
                if m == "read":
                    mut = {"op": "read", "ids": sorted({int(rng.choice(keys)), int(rng.choice(keys))})}
                elif m == "inplace":
                    mut = {"op": "subset", "ids": request(rng, keys, keys, 12), "inplace": True}
                else:
                    mut = {"op": "sort"}
                ops = [ops[0], build, mut, {"op": "transform"}]
                if rng.random() < 0.5:
                    ops.append({"op": "subset", "ids": request(rng, keys, keys, 12), "inplace": False})
            elif u0 < 0.5:
                kind = "two-objects"
                # a copy, then one of the two objects changes, then transform / subset on the other and on it
                ops = [{"op": "read", "ids": None}]
                if rng.random() < 0.5:
                    ops.append({"op": "transform"})
                ops.append({"op": "subset", "ids": request(rng, keys, keys, 12), "inplace": False})
                first, second = (1, 0) if rng.random() < 0.5 else (0, 1)
                m = str(rng.choice(["read", "inplace", "sort"]))
                mut = ({"op": "read", "ids": sorted({int(rng.choice(keys)), int(rng.choice(keys))})} if m == "read" else
                       {"op": "subset", "ids": request(rng, keys, keys, 12), "inplace": True} if m == "inplace" else {"op": "sort"})
                ops += [{"op": "switch", "k": first}, mut, {"op": "switch", "k": second}, {"op": "transform"},
                        {"op": "subset", "ids": request(rng, keys, keys, 12), "inplace": False}]
                if rng.random() < 0.5:
                    ops += [{"op": "switch", "k": first}, {"op": "transform"}]
            elif u0 < 0.7:
                kind = "merged"
                # two copies (disjoint or overlapping), merged; a source or the merged object changes; look-ups
                perm = [int(x) for x in rng.permutation(keys)]
                h = max(1, len(perm) // 2)
                a, b = perm[:h], perm[h:] or perm[:1]
                overlap = rng.random() < 0.3
                if overlap:
                    b = b + [a[0]]      # overlapping: the merge raises ValueError, the history goes on
                ops = [{"op": "read", "ids": None}, {"op": "subset", "ids": a, "inplace": False},
                       {"op": "subset", "ids": b, "inplace": False}, {"op": "merge", "ks": [1, 2]}]
                ops += [{"op": "merge", "ks": [2, 1]}] if rng.random() < 0.3 else []
                made = 3 if overlap else len(ops)         # objects that exist: 0, the two copies, the merged ones
                for _ in range(int(rng.integers(1, 4))):
                    ops.append({"op": "switch", "k": int(rng.integers(0, made))})
                    u = rng.random()
                    if u < 0.3:
                        ops.append({"op": "subset", "ids": request(rng, keys, keys, 12), "inplace": True})
                    elif u < 0.45:
                        ops.append({"op": "read", "ids": sorted({int(rng.choice(keys)), int(rng.choice(keys))})})
                    elif u < 0.55:
                        ops.append({"op": "sort"})
                    ops.append({"op": "transform"})
                ops += [{"op": "switch", "k": made - 1}, {"op": "transform"},
                        {"op": "subset", "ids": request(rng, keys, keys, 12), "inplace": False}]
            if not valid_switches(ops):
                ops = [op for op in ops if op["op"] not in ("switch", "merge")]
            out.append({"cls": "Haplotypes" if rng.random() < 0.8 else "HaplotypesAncestry", "file": recs, "ops": ops, "kind": kind})
        return out

    def run_impl(self, inp):
        import warnings

        from haptools import data as hd

        warnings.simplefilter("ignore")
        d = tempfile.mkdtemp(prefix="hv_c12_")
        try:
            path = os.path.join(d, "in.hap")
            cls = hclass(inp.get("cls", "Haplotypes"))
            anc = inp.get("cls") == "HaplotypesAncestry"
            with open(path, "w") as fh:
                if anc:
                    fh.write("#\torderH\tancestry\n")
                fh.write("#\tversion\t0.2.0\n")
                if anc:
                    fh.write("#H\tancestry\ts\tLocal ancestry\n")
                for r in inp["file"]:
                    extra = f"\t{['YRI', 'CEU'][r[0] % 2]}" if anc and r[1] else ""
                    fh.write(f"{'H' if r[1] else 'R'}\t{r[2]}\t{r[3]}\t{r[4]}\t{HAP_IDS[r[0]]}{extra}\n")
                for r in inp["file"]:
                    for v in r[5]:
                        fh.write(f"V\t{HAP_IDS[r[0]]}\t{10 + v}\t{11 + v}\tv{v}\t{'AT'[v % 2]}\n")
            objs = [cls(path, log=quiet_log())]
            cur = 0
            steps = []
            for op in inp["ops"]:
                h = objs[cur]
                k = op["op"]
                fresh = None
                if k == "switch":
                    if not 0 <= op["k"] < len(objs):
                        steps.append({"obs": {"err": 2, "msg": "no such object"}, "fresh": None})
                        break
                    cur = op["k"]
                    h = objs[cur]
                    steps.append({"obs": guarded(lambda: {"state": hobserve_data(h), "ret": None}), "fresh": None})
                    continue
                if k == "merge":
                    if not all(0 <= j < len(objs) for j in op["ks"]):
                        steps.append({"obs": {"err": 2, "msg": "no such object"}, "fresh": None})
                        break

                    def merge_of(srcs):
                        r = cls.merge(tuple(srcs), fname=path, log=quiet_log())
                        return r, {"state": hobserve_data(h), "ret": {"copy": hobserve_data(r)}}
                    fresh = guarded(lambda: merge_of([hfresh_copy(objs[j]) for j in op["ks"]])[1])

                    def real():
                        r, o = merge_of([objs[j] for j in op["ks"]])
                        objs.append(r)
                        return o
                    o = guarded(real)
                else:
                    if k == "read":
                        fo = cls(path, log=quiet_log())
                        fresh = guarded(lambda: happly(fo, op))
                    elif k in ("subset", "transform"):
                        fo = hfresh_copy(h)
                        fresh = guarded(lambda: happly(fo, op))
                    o = guarded(lambda: happly(h, op, objs))
                steps.append({"obs": o, "fresh": fresh})
                if "err" in o and o["err"] != U.E_VALUE:
                    break
            return {"steps": steps}
        finally:
            shutil.rmtree(d, ignore_errors=True)

    def encode(self, inp, obs):
        sh = HShared()
        if not isinstance(obs, dict) or "steps" not in obs:
            k = obs.get("kind", 99) if isinstance(obs, dict) else 99
            return sh.wrap(f"mkhcase false {sh(inp['file'])} [(HXOn HIndex, HE {L.z(k)}, None)]")
        parts = []
        for op, st in zip(inp["ops"], obs["steps"]):
            fr = "None" if st["fresh"] is None else f"(Some ({hobs_term(st['fresh'], sh)}))"
            parts.append(f"({hop_term(op)}, {hobs_term(st['obs'], sh)}, {fr})")
        return sh.wrap(f"mkhcase false {sh(inp['file'])} {L.lst(parts)}")

    def nontrivial(self, inp, obs):
        return (U.by_id_after_change(inp["ops"], {"subset", "transform"}, {"read", "sort"})
                or U.other_object_lookup(inp["ops"]))

    def classes(self, inp, obs):
        out = [inp.get("cls", "Haplotypes"), f"len={len(inp['ops'])}", f"stream={inp.get('kind', 'corpus')}"]
        out += sorted({op["op"] + ("-inplace" if op.get("inplace") else "") for op in inp["ops"]})
        if U.other_object_lookup(inp["ops"]):
            out.append("lookup-after-other-object-changed")
        if isinstance(obs, dict) and "steps" in obs:
            for op, st in zip(inp["ops"], obs["steps"]):
                if "err" in st["obs"]:
                    out.append(f"{op['op']}-raised-err{st['obs']['err']}")
                elif op["op"] == "merge":
                    out.append("merge-ok")
        return out

    def shrink(self, inp):
        for c in self._shrink(inp):
            if valid_switches(c["ops"]):
                yield c

    def _shrink(self, inp):
        ops = inp["ops"]
        for j in range(1, len(ops)):
            yield dict(inp, ops=ops[:j] + ops[j + 1:])
        if len(inp["file"]) > 1:
            for j in range(len(inp["file"])):
                yield dict(inp, file=inp["file"][:j] + inp["file"][j + 1:])
        for j, op in enumerate(ops):
            if op.get("ids") and len(op["ids"]) > 1:
                for q in range(len(op["ids"])):
                    yield dict(inp, ops=ops[:j] + [dict(op, ids=op["ids"][:q] + op["ids"][q + 1:])] + ops[j + 1:])

    def mutate(self, inp, rng):
        keys = [r[0] for r in inp["file"]]
        for _ in range(10):
            yield dict(inp, ops=inp["ops"] + [{"op": "read", "ids": [int(rng.choice(keys))]}, {"op": "transform"}])

    def signature(self, inp, obs):
        if not isinstance(obs, dict) or "steps" not in obs:
            return "haps harness-level failure"
        j = U.first_difference(inp["ops"], obs["steps"])
        if j is None:
            return "haps history object and model disagree"
        op, st = inp["ops"][j], obs["steps"][j]
        what = "exception" if "err" in st["obs"] else "wrong haplotype list"
        nread = sum(1 for o in inp["ops"][:j + 1] if o["op"] == "read")
        if U.other_object_lookup(inp["ops"][:j + 1]):
            return f"haps {op['op']} on one object after another object of the history was changed differs from a fresh object's ({what})"
        return f"haps {op['op']} after {'a re-read' if nread > 1 else 'earlier operations'} differs from a fresh object's ({what})"
