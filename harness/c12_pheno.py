"""C12 - relation pheno: histories on Phenotypes / Covariates objects and the copies their subsets return."""
import os
import shutil
import tempfile

import numpy as np

from . import coqlit as L
from . import c12_util as U
from .c12_util import add_switches, guarded, ids, optzl, quiet_log, request, valid_switches
from .c13 import Shared
from .core import Relation


def pclass(name):
    from haptools import data as hd

    return {"Phenotypes": hd.Phenotypes, "Covariates": hd.Covariates}[name]


def pobserve(p):
    d = np.asarray(p.data)
    if d.ndim != 2 or d.shape[0] != len(p.samples) or d.shape[1] != len(p.names):
        raise AssertionError(f"arrays out of step: samples {len(p.samples)} names {len(p.names)} data {d.shape}")
    rows = []
    for r in d.tolist():
        rr = []
        for x in r:
            if float(x) != int(x):
                raise AssertionError("non-integer value")
            rr.append(int(x))
        rows.append(rr)
    return {"samples": [int(str(s)[1:]) for s in p.samples], "names": [int(str(s)[1:]) for s in p.names], "rows": rows}


def pfresh_copy(p):
    f = p.__class__(p.fname, p.log)
    f.samples = tuple(p.samples)
    f.names = tuple(p.names)
    f.data = p.data.copy()
    return f


def papply(p, op, sink=None):
    k = op["op"]
    ret = None
    if k == "read":
        p.read(samples=None if op["ss"] is None else set(ids("s", op["ss"])))
    elif k == "subset":
        ss = None if op["ss"] is None else tuple(ids("s", op["ss"]))
        ns = None if op["ns"] is None else tuple(ids("p", op["ns"]))
        r = p.subset(samples=ss, names=ns, inplace=op["inplace"])
        if not op["inplace"]:
            ret = {"copy": pobserve(r)}
            if sink is not None:
                sink.append(r)
    elif k == "index":
        p.index(samples=op["s"], names=op["n"])
    elif k in ("missing", "missingN"):
        p.check_missing(discard_also=(k == "missing"))
    elif k == "append":
        p.append(f"p{op['name']}", np.array(op["col"], dtype=np.float64))
    else:
        raise RuntimeError("unknown op")
    return {"state": pobserve(p), "ret": ret}


def ptab_term(t):
    return f"(mkp {L.zl(t['samples'])} {L.zl(t['names'])} {L.lst(t['rows'], L.zl)})"


class PShared(Shared):
    def __call__(self, t):
        key = ptab_term(t)
        if key not in self.names:
            self.names[key] = f"t{len(self.names)}"
            self.defs.append((self.names[key], key))
        return self.names[key]


def pop_term(op):
    k = op["op"]
    if k == "switch":
        return f"XSwitch {op['k']}%nat"
    return f"XOn ({pop_term1(op)})"


def pop_term1(op):
    k = op["op"]
    if k == "read":
        return f"PRead {optzl(op['ss'])}"
    if k == "subset":
        return f"PSubset {optzl(op['ss'])} {optzl(op['ns'])} {L.b(op['inplace'])}"
    if k == "index":
        return f"PIndex {L.b(op['s'])} {L.b(op['n'])}"
    if k == "missing":
        return "PCheckMissing"
    if k == "missingN":
        return "PCheckMissingN"
    return f"PAppend {L.z(op['name'])} {L.zl(op['col'])}"


def pobs_term(o, sh):
    if "err" in o:
        return f"PE {L.z(o['err'])}"
    r = "ONone" if o["ret"] is None else f"(OCopy {sh(o['ret']['copy'])})"
    return f"PO {sh(o['state'])} {r}"


class Pheno(Relation):
    name = "pheno"
    coq_module = "C12_Check"
    coq_check = "check_pheno"
    coq_case_type = "pcase"
    coq_model = "model_pheno"
    coq_imports = ["GenoTable", "C13_Model", "C12_Model"]
    budget = {"quick": 320, "thorough": 6000}
    max_cases_per_shard = 100
    max_chars_per_shard = 80_000
    anchors = [
        ("haptools/data/phenotypes.py", "Phenotypes.read"),
        ("haptools/data/phenotypes.py", "Phenotypes.index"),
        ("haptools/data/phenotypes.py", "Phenotypes.subset"),
        ("haptools/data/phenotypes.py", "Phenotypes.append"),
        ("haptools/data/phenotypes.py", "Phenotypes.check_missing"),
    ]

    def generate(self, rng, n, tier):
        return [self.gen_one(rng) for _ in range(n)]

    def gen_one(self, rng):
        ns, nn = int(rng.integers(3, 5)), int(rng.integers(2, 4))
        S = rng.permutation(7)[:ns].tolist()
        N = rng.permutation(5)[:nn].tolist()
        rows = [[int(rng.choice([-9, 0, 1, 2, 3, 5, 7, -1], p=[.08, .12, .15, .15, .15, .15, .1, .1])) for _ in range(nn)]
                for _ in range(ns)]
        f = {"samples": [int(x) for x in S], "names": [int(x) for x in N], "rows": rows}
        ops = [{"op": "read", "ss": None}]
        nxt = 5
        for _ in range(int(rng.integers(1, 9))):
            u = rng.random()
            if u < 0.10:
                ops.append({"op": "read", "ss": None})
            elif u < 0.28:
                ss = sorted(set([int(rng.choice(S))] + [int(x) for x in rng.choice(S + [8], size=int(rng.integers(0, 3)))]))
                ops.append({"op": "read", "ss": ss})
            elif u < 0.70:
                which = rng.random()
                ss = request(rng, S, S, 8) if which < 0.6 else None
                nsq = request(rng, N + [5, 6], N, 9) if which > 0.4 else None
                ops.append({"op": "subset", "ss": ss, "ns": nsq, "inplace": bool(rng.random() < 0.45)})
            elif u < 0.78:
                ops.append({"op": "index", "s": bool(rng.random() < 0.7), "n": bool(rng.random() < 0.7)})
            elif u < 0.84:
                ops.append({"op": "missing"})
            elif u < 0.87:
                ops.append({"op": "missingN"})
            elif u < 0.97:
                ops.append({"op": "append", "name": nxt, "col": None})
                nxt += 1
            else:
                # a name that may well be there already (what PhenoSimulator.run does on every replicate)
                ops.append({"op": "append", "name": int(rng.choice(N + [5])), "col": None})
        kind = "random"
        u0 = rng.random()
        if u0 >= 0.72:
            ops = add_switches(rng, ops)
        elif u0 < 0.12:
            kind = "permuted"
            # build an index, in-place subset keeping EVERY current ID but reordered, look IDs up
            def perm(l):
                l = list(l)
                while True:
                    q = [int(x) for x in rng.permutation(l)]
                    if q != l or len(l) < 2:
                        return q
            which = rng.random()
            pss = perm(S) if which < 0.65 else None
            pns = perm(N) if which > 0.35 else None
            build = [{"op": "index", "s": True, "n": True},
                     {"op": "subset", "ss": [int(rng.choice(S))], "ns": [int(rng.choice(N))], "inplace": False}][int(rng.integers(0, 2))]
            ops = [{"op": "read", "ss": None}, build, {"op": "subset", "ss": pss, "ns": pns, "inplace": True}]
            for _ in range(int(rng.integers(1, 3))):
                ops.append({"op": "subset", "ss": request(rng, S, S, 8) if (pss is not None or rng.random() < 0.3) else None,
                            "ns": request(rng, N, N, 9) if (pns is not None or rng.random() < 0.3) else None,
                            "inplace": bool(rng.random() < 0.3)})
        elif u0 < 0.30:
            kind = "two-objects"
            # names and/or samples indexed on the parent; a copy that subsets ONE axis; one of the two
            # objects (or both) changes - append, in-place subset, re-read, discard; by-ID look-ups on the OTHER
            build = [{"op": "index", "s": True, "n": True}, {"op": "index", "s": False, "n": True},
                     {"op": "subset", "ss": None, "ns": [int(rng.choice(N))], "inplace": False}][int(rng.integers(0, 3))]
            ops = [{"op": "read", "ss": None}, build]
            made = 1 if build["op"] == "subset" else 0
            by_samples = rng.random() < 0.7
            ops.append({"op": "subset", "ss": request(rng, S, S, 8) if by_samples else None,
                        "ns": None if by_samples else request(rng, N, N, 9), "inplace": False})
            made += 1
            copy_k = made
            first, second = (copy_k, 0) if rng.random() < 0.5 else (0, copy_k)

            def change(name):
                m = str(rng.choice(["append", "append", "append", "inplace", "read", "missing"]))
                if m == "append":
                    return {"op": "append", "name": name, "col": None}
                if m == "inplace":
                    return {"op": "subset", "ss": None, "ns": [int(x) for x in rng.permutation(N)][:int(rng.integers(1, nn + 1))], "inplace": True}
                if m == "read":
                    return {"op": "read", "ss": sorted({int(rng.choice(S)), int(rng.choice(S))})}
                return {"op": "missing"}

            ops += [{"op": "switch", "k": first}, change(5)]
            if rng.random() < 0.5:
                ops += [{"op": "switch", "k": second}, change(6)]
            else:
                ops += [{"op": "switch", "k": second}]
            for _ in range(int(rng.integers(1, 3))):
                ops.append({"op": "subset", "ss": request(rng, S, S, 8) if rng.random() < 0.3 else None,
                            "ns": request(rng, N + [5, 6], N + [5, 6], 9), "inplace": False})
            if rng.random() < 0.5:
                ops += [{"op": "switch", "k": first},
                        {"op": "subset", "ss": None, "ns": request(rng, N + [5, 6], N + [5, 6], 9), "inplace": False}]
        elif u0 < 0.52:
            kind = "targeted"
            # build an index, change the contents with one chosen mutator, look IDs up
            build = [{"op": "index", "s": True, "n": True},
                     {"op": "subset", "ss": [int(rng.choice(S))], "ns": [int(rng.choice(N))], "inplace": False}][int(rng.integers(0, 2))]
            m = str(rng.choice(["read", "inplace", "missing", "append"]))
            if m == "read":
                mut = {"op": "read", "ss": sorted({int(rng.choice(S)), int(rng.choice(S))})}
            elif m == "inplace":
                mut = {"op": "subset", "ss": request(rng, S, S, 8) if rng.random() < 0.6 else None,
                       "ns": request(rng, N, N, 9) if rng.random() < 0.6 else None, "inplace": True}
                if mut["ss"] is None and mut["ns"] is None:
                    mut["ns"] = [int(rng.choice(N))]
            elif m == "missing":
                rows[int(rng.integers(0, ns))][int(rng.integers(0, nn))] = -9
                mut = {"op": "missing"}
            else:
                mut = {"op": "append", "name": 5, "col": None}
            look = [{"op": "subset", "ss": request(rng, S, S, 8) if rng.random() < 0.7 else None,
                     "ns": request(rng, N + [5], N, 9) if rng.random() < 0.7 else None, "inplace": bool(rng.random() < 0.3)}
                    for _ in range(int(rng.integers(1, 3)))]
            for q in look:
                if q["ss"] is None and q["ns"] is None:
                    q["ss"] = list(S)
            ops = [{"op": "read", "ss": None}, build, mut] + look
        elif u0 < 0.62:
            kind = "append-present-name"
            # the name index built or not; append() of a name the object already holds; look-ups by name,
            # twice (the first may raise), on the object and on a copy
            x = int(rng.choice(N))
            ops = [{"op": "read", "ss": None}]
            b = rng.random()
            if b < 0.4:
                ops.append({"op": "index", "s": bool(rng.random() < 0.5), "n": True})
            elif b < 0.7:
                ops.append({"op": "subset", "ss": None, "ns": [int(rng.choice(N))], "inplace": False})
            ops.append({"op": "append", "name": x, "col": None})
            if rng.random() < 0.3:
                ops.append({"op": "append", "name": x if rng.random() < 0.5 else 5, "col": None})
            for _ in range(int(rng.integers(1, 4))):
                u = rng.random()
                if u < 0.15:
                    ops.append({"op": "index", "s": True, "n": True})
                elif u < 0.3:
                    ops.append({"op": "subset", "ss": request(rng, S, S, 8), "ns": None, "inplace": bool(rng.random() < 0.5)})
                else:
                    ops.append({"op": "subset", "ss": None, "ns": [x] + ([int(rng.choice(N + [5]))] if rng.random() < 0.5 else []),
                                "inplace": bool(rng.random() < 0.25)})
            ops = add_switches(rng, ops, p=0.15)
        elif u0 < 0.72:
            kind = "duplicate-ids-in-file"
            # a sample row or a column name occurs twice in the file
            if rng.random() < 0.5:
                j = int(rng.integers(0, ns))
                f["samples"].append(f["samples"][j])
                rows.append([int(x) for x in rng.integers(0, 8, size=nn)])
            else:
                j = int(rng.integers(0, nn))
                f["names"].append(f["names"][j])
                for r in rows:
                    r.append(int(rng.integers(0, 8)))
            ops = [{"op": "read", "ss": None}]
            for _ in range(int(rng.integers(2, 5))):
                u = rng.random()
                if u < 0.15:
                    ops.append({"op": "index", "s": True, "n": True})
                elif u < 0.25:
                    ops.append({"op": "missing"})
                elif u < 0.33:
                    ops.append({"op": "read", "ss": sorted({int(rng.choice(S)), int(rng.choice(S))})})
                else:
                    which = rng.random()
                    ops.append({"op": "subset", "ss": request(rng, S, S, 8) if which < 0.6 else None,
                                "ns": request(rng, N, N, 9) if which > 0.4 else None, "inplace": bool(rng.random() < 0.3)})
            ops = add_switches(rng, ops, p=0.15)
        return {"cls": ["Phenotypes", "Covariates"][int(rng.integers(0, 2))], "file": f, "ops": ops,
                "seed": int(rng.integers(0, 2**31)), "kind": kind}

    def run_impl(self, inp):
        import warnings

        warnings.simplefilter("ignore")
        d = tempfile.mkdtemp(prefix="hv_c12_")
        try:
            f = inp["file"]
            ext = "pheno" if inp["cls"] == "Phenotypes" else "covar"
            path = os.path.join(d, f"in.{ext}")
            with open(path, "w") as fh:
                fh.write("#IID\t" + "\t".join(f"p{x}" for x in f["names"]) + "\n")
                for s, r in zip(f["samples"], f["rows"]):
                    fh.write(f"s{s}\t" + "\t".join(str(x) for x in r) + "\n")
            cls = pclass(inp["cls"])
            objs = [cls(path, log=quiet_log())]   # the object and the copies its subsets returned
            cur = 0
            doubted = set()    # objects whose index() has raised / that were appended a name they held
            rng = np.random.default_rng(inp.get("seed", 0))
            steps, ops_done = [], []
            for op in inp["ops"]:
                p = objs[cur]
                k = op["op"]
                if k == "switch" and not 0 <= op["k"] < len(objs):
                    steps.append({"obs": {"err": 2, "msg": "no such object"}, "fresh": None})
                    ops_done.append(op)
                    break
                if k == "switch":
                    cur = op["k"]
                    p = objs[cur]
                    steps.append({"obs": guarded(lambda: {"state": pobserve(p), "ret": None}), "fresh": None})
                    ops_done.append(op)
                    continue
                if k == "append":
                    if op.get("col") is None:
                        # a column of the current length (3% of the time one too long: ValueError)
                        n = len(p.samples) + (1 if rng.random() < 0.03 else 0)
                        op = dict(op, col=[int(x) for x in rng.integers(-3, 9, size=n)])
                    op = dict(op, present=bool(f"p{op['name']}" in tuple(p.names)))
                fresh = None
                if k == "read":
                    fo = cls(path, log=quiet_log())
                    fresh = guarded(lambda: papply(fo, op))
                elif k in ("subset", "index"):
                    fo = pfresh_copy(p)
                    fresh = guarded(lambda: papply(fo, op))
                    if cur in doubted:
                        fresh = None
                o = guarded(lambda: papply(p, op, objs))
                steps.append({"obs": o, "fresh": fresh})
                ops_done.append(op)
                if "err" in o:
                    if o["err"] != U.E_VALUE:
                        break
                    if k in ("subset", "index") and not U.STRICT_INDEX_AFTER_DUPLICATES:
                        doubted.add(cur)
                elif k == "read":
                    doubted.discard(cur)
                elif k == "append" and op["present"] and not U.STRICT_APPEND_PRESENT_NAME:
                    doubted.add(cur)
            return {"steps": steps, "ops": ops_done}
        finally:
            shutil.rmtree(d, ignore_errors=True)

    def encode(self, inp, obs):
        sh = PShared()
        flags = f"false {L.b(U.STRICT_APPEND_PRESENT_NAME)} {L.b(U.STRICT_INDEX_AFTER_DUPLICATES)}"
        if not isinstance(obs, dict) or "steps" not in obs:
            k = obs.get("kind", 99) if isinstance(obs, dict) else 99
            return sh.wrap(f"mkpcase {flags} {sh(inp['file'])} [(XOn (PRead None), PE {L.z(k)}, None)]")
        parts = []
        for op, st in zip(obs["ops"], obs["steps"]):
            fr = "None" if st["fresh"] is None else f"(Some ({pobs_term(st['fresh'], sh)}))"
            parts.append(f"({pop_term(op)}, {pobs_term(st['obs'], sh)}, {fr})")
        return sh.wrap(f"mkpcase {flags} {sh(inp['file'])} {L.lst(parts)}")

    def nontrivial(self, inp, obs):
        if (U.by_id_after_change(inp["ops"], {"subset"}, {"read", "missing", "append"}) or U.other_object_lookup(inp["ops"])):
            return True
        return isinstance(obs, dict) and "steps" in obs and U.lookup_after_error(obs["ops"], obs["steps"])

    def classes(self, inp, obs):
        out = [inp["cls"], f"len={len(inp['ops'])}", f"stream={inp.get('kind', 'corpus')}"]
        if U.other_object_lookup(inp["ops"]):
            out.append("lookup-after-other-object-changed")
        out += sorted({op["op"] + ("-inplace" if op.get("inplace") else "") for op in inp["ops"]})
        f = inp["file"]
        if len(set(f["samples"])) < len(f["samples"]) or len(set(f["names"])) < len(f["names"]):
            out.append("file-with-duplicate-id")
        if isinstance(obs, dict) and "steps" in obs:
            for op, st in zip(obs["ops"], obs["steps"]):
                if "err" in st["obs"]:
                    out.append(f"{op['op']}-raised-err{st['obs']['err']}")
                if op["op"] == "append" and op.get("present"):
                    out.append("append-of-present-name")
            if U.lookup_after_error(obs["ops"], obs["steps"]):
                out.append("lookup-after-caught-exception")
        return out

    def shrink(self, inp):
        for c in self._shrink(inp):
            if valid_switches(c["ops"]):
                yield c

    def _shrink(self, inp):
        ops = inp["ops"]
        for j in range(1, len(ops)):
            yield dict(inp, ops=ops[:j] + ops[j + 1:])
        for j, op in enumerate(ops):
            for key in ("ss", "ns"):
                if op.get(key) and len(op[key]) > 1:
                    for q in range(len(op[key])):
                        yield dict(inp, ops=ops[:j] + [dict(op, **{key: op[key][:q] + op[key][q + 1:]})] + ops[j + 1:])
                if op["op"] == "subset" and op.get("ss") is not None and op.get("ns") is not None:
                    yield dict(inp, ops=ops[:j] + [dict(op, **{key: None})] + ops[j + 1:])

    def mutate(self, inp, rng):
        S = inp["file"]["samples"]
        for _ in range(10):
            extra = [{"op": "read", "ss": [int(rng.choice(S))]},
                     {"op": "subset", "ss": request(rng, S, S, 8), "ns": None, "inplace": False}]
            yield dict(inp, ops=inp["ops"] + extra)

    def signature(self, inp, obs):
        if not isinstance(obs, dict) or "steps" not in obs:
            return "pheno harness-level failure"
        return U.describe_difference("pheno", obs["ops"], obs["steps"])
