"""C12 - translation validation of the ID-index maintenance: Genotypes.index, Phenotypes.index and the index part of
Phenotypes.append are regenerated from $HAPTOOLS_REPO's current source (HVG.Gen_Index) and proved equal to
C12_Model's cache snapshot semantics (coq/translated/TV_C12.v); relation tv_index evaluates the translated code on
histories of direct calls against what the real methods leave in the objects."""
import numpy as np

from . import coqlit as L
from .core import Relation, err_kind

_G = "haptools/data/genotypes.py"
_P = "haptools/data/phenotypes.py"
_D = "haptools/data/data.py"

TRANSLATION = {
    "spec": {
        "module": "Gen_Index",
        "rhs_first_stores": True,
        "functions": [
            # the whole body of Genotypes.index: self._samp_idx / self._var_idx are variables of the slice, self.samples a
            # read-only parameter, the numpy column self.variants["id"] the list of its elements; a raise statement
            # records its kind in "$raised" and returns, so that the attributes AT the raise are visible
            (_G, "index", {"name": "geno_index", "top": True, "in_class": "Genotypes",
                           "start": {"first": True}, "stop": {"to_end": True},
                           "params": ["samples", "variants", "self__samp_idx", "self__var_idx", "self_samples",
                                      "self_variants_id"],
                           "result": None, "raise_state": "$raised",
                           "self_state": {"_samp_idx": "self__samp_idx", "_var_idx": "self__var_idx"},
                           "self_attrs": {"samples": "self_samples"},
                           "struct_cols": {"variants": {"id": "self_variants_id"}},
                           "class_chain": [(_G, "Genotypes"), (_D, "Data")]}),
            (_P, "index", {"name": "pheno_index", "top": True, "in_class": "Phenotypes",
                           "start": {"first": True}, "stop": {"to_end": True},
                           "params": ["samples", "names", "self__samp_idx", "self__name_idx", "self_samples", "self_names"],
                           "result": None, "raise_state": "$raised",
                           "self_state": {"_samp_idx": "self__samp_idx", "_name_idx": "self__name_idx"},
                           "self_attrs": {"samples": "self_samples", "names": "self_names"},
                           "class_chain": [(_P, "Phenotypes"), (_D, "Data")]}),
            # Phenotypes.append from `if self._name_idx is not None:` to the end (the numpy part above it is not translated)
            (_P, "append", {"name": "pheno_append_index", "top": True, "in_class": "Phenotypes",
                            "start": {"if_attr_is_not_none": "_name_idx"}, "stop": {"to_end": True},
                            "params": ["name", "self__name_idx", "self_names"], "result": None,
                            "self_state": {"_name_idx": "self__name_idx", "names": "self_names"},
                            "class_chain": [(_P, "Phenotypes"), (_D, "Data")]}),
        ],
    },
    "models": ["TVM_C12"],
    "proofs": ["TV_C12"],
}


def _sid(k):
    return f"id{int(k)}"


def _unsid(s):
    s = str(s)
    return int(s[2:]) if s.startswith("id") and s[2:].isdigit() else -1


class TVIndex(Relation):
    """Histories of direct calls on an object built in memory: index(b1, b2) (any flags, repeated, after a failed call),
    Phenotypes.append(name, column) of new and of present names, and the harness replacing the ID lists (with or without
    resetting the two index attributes) - ID lists with and without duplicates.  After every step the two index
    attributes (None, or the dictionary's items in iteration order), the second ID list and the exception are recorded.
    agree = the code translated from the current source, interpreted along the same history, leaves exactly those
    dictionaries / names / exception kinds, and the caches of C12_Model (ensure / Push / Reset) denote the same
    dictionaries.  holds is not judged here."""
    name = "tv_index"
    coq_lib = "HVG"
    coq_module = "TVM_C12"
    coq_check = "check_tv_index"
    coq_case_type = "ticase"
    coq_model = "tv_model_index"
    coq_imports = ["GenoTable", "MiniPy", "C12_Model"]
    budget = {"quick": 160, "thorough": 3000}
    anchors = [(_G, "Genotypes.index"), (_P, "Phenotypes.index"), (_P, "Phenotypes.append")]

    # ---- generation
    @staticmethod
    def _ids(rng, n, dup):
        pool = [int(x) for x in rng.permutation(12)]
        out = pool[:n]
        if dup and n >= 2:
            for _ in range(int(rng.integers(1, 3))):
                i, j = (int(x) for x in rng.choice(n, 2, replace=False))
                out[i] = out[j]
        return out

    def _random_case(self, rng):
        cls = int(rng.integers(0, 2))
        mk = lambda: self._ids(rng, int(rng.integers(0, 7)), bool(rng.random() < 0.4))
        ids1, ids2 = mk(), mk()
        steps = []
        cur1, cur2 = list(ids1), list(ids2)
        for _ in range(int(rng.integers(1, 6))):
            r = rng.random()
            if r < 0.6:
                steps.append(["index", bool(rng.integers(0, 2)), bool(rng.integers(0, 2))])
            elif r < 0.8 and cls == 1 and len(cur1) > 0:
                # the model's Push presumes a name cache that is absent or current: after a non-resetting "set" of the
                # names no append is generated (see _appendable)
                if self._appendable(steps):
                    x = int(rng.choice(cur2)) if cur2 and rng.random() < 0.4 else int(rng.integers(0, 14))
                    steps.append(["append", x])
                    cur2 = cur2 + [x]
            else:
                cur1, cur2 = mk(), mk()
                steps.append(["set", bool(rng.random() < 0.5), cur1, cur2])
        if not steps:
            steps = [["index", True, True]]
        return {"cls": cls, "ids1": ids1, "ids2": ids2, "steps": steps}

    @staticmethod
    def _appendable(steps):
        return not any(s[0] == "set" and not s[1] for s in steps)

    def _targeted(self, rng):
        a = [int(x) for x in rng.permutation(10)[:4]]
        b = [int(x) for x in rng.permutation(10)[:3]]
        dup_a = a[:3] + [a[0]]
        dup_b = [b[0], b[1], b[0]]
        out = []
        for cls in (0, 1):
            # a failed call, the same call again, then the IDs repaired without touching the caches, then a good call
            out.append({"cls": cls, "ids1": dup_a, "ids2": b, "steps": [
                ["index", True, True], ["index", True, True], ["index", False, True],
                ["set", cls == 1, a, b], ["index", True, True], ["index", True, True]]})
            out.append({"cls": cls, "ids1": a, "ids2": dup_b, "steps": [
                ["index", True, True], ["index", False, True], ["index", True, False],
                ["set", True, a, b], ["index", False, True]]})
            # both axes hold duplicates: the first is reported, the second has not been looked at
            out.append({"cls": cls, "ids1": dup_a, "ids2": dup_b, "steps": [
                ["index", True, True], ["index", False, True], ["index", True, False]]})
        # a stale cache is left alone by index() (Genotypes: caches not reset by the harness)
        out.append({"cls": 0, "ids1": a, "ids2": b, "steps": [
            ["index", True, True], ["set", False, dup_a, dup_b], ["index", True, True],
            ["set", True, dup_a, b], ["index", False, True], ["index", True, False]]})
        # append: new name with / without a name index, a present name with the index (discarded), then index() reports it
        out.append({"cls": 1, "ids1": a, "ids2": b, "steps": [
            ["index", True, True], ["append", 11], ["append", b[0]], ["index", False, True], ["append", 12],
            ["index", True, False]]})
        out.append({"cls": 1, "ids1": a, "ids2": b, "steps": [
            ["append", 11], ["index", False, True], ["append", 13], ["append", 13], ["index", False, True]]})
        out.append({"cls": 1, "ids1": a, "ids2": [], "steps": [
            ["index", True, True], ["append", 3], ["append", 4], ["append", 3], ["index", True, True]]})
        return out

    def _wide(self, rng):
        # width boundary: more than 256 IDs, the duplicate at positions 0 and 256
        n = 257
        ids = list(range(100, 100 + n))
        dup = ids[:-1] + [ids[0]]
        cls = int(rng.integers(0, 2))
        return {"cls": cls, "ids1": ids if cls == 0 else ids[:3], "ids2": dup, "steps": [
            ["index", True, True], ["set", True, ids[:3], ids], ["index", True, True]]}

    def generate(self, rng, n, tier):
        out = self._targeted(rng) + [self._wide(rng)]
        while len(out) < n:
            out.append(self._random_case(rng))
        return out

    def exhaustive(self, tier):
        import itertools
        out = []
        lists = [list(t) for k in range(0, 4) for t in itertools.product([0, 1], repeat=k)]
        for cls in (0, 1):
            for ids1 in lists:
                for ids2 in lists[:7]:
                    for b1, b2 in itertools.product([False, True], repeat=2):
                        out.append({"cls": cls, "ids1": ids1, "ids2": ids2,
                                    "steps": [["index", b1, b2], ["index", True, True]]})
        return out

    # ---- the implementation
    def run_impl(self, inp):
        import logging

        from haptools.data import Genotypes, Phenotypes

        log = logging.getLogger("hv_c12_tv")
        log.setLevel(logging.CRITICAL + 1)
        cls = inp["cls"]

        def put(obj, ids1, ids2):
            obj.samples = tuple(_sid(k) for k in ids1)
            if cls == 0:
                dt = obj.variants.dtype if obj.variants is not None else [("id", "U50"), ("chrom", "U10"), ("pos", np.uint32)]
                obj.variants = np.array([(_sid(k), "1", 10 + i) for i, k in enumerate(ids2)], dtype=dt)
                obj.data = np.zeros((len(ids1), len(ids2), 2), dtype=np.uint8)
            else:
                obj.names = tuple(_sid(k) for k in ids2)
                obj.data = np.zeros((len(ids1), len(ids2)), dtype=np.float64)

        obj = Genotypes(fname=None, log=log) if cls == 0 else Phenotypes(fname=None, log=log)
        put(obj, inp["ids1"], inp["ids2"])

        def cache(d):
            if d is None:
                return None
            if not isinstance(d, dict):
                return "?"
            return [[_unsid(k), int(v)] for k, v in d.items()]

        def observe(raised):
            c2 = obj._var_idx if cls == 0 else obj._name_idx
            ids2 = [_unsid(x) for x in (obj.variants["id"] if cls == 0 else obj.names)]
            struct_ok = True if cls != 0 else len(obj.variants) == len(obj.variants["id"])
            return {"c1": cache(obj._samp_idx), "c2": cache(c2), "ids2": ids2, "raised": raised, "struct_ok": bool(struct_ok)}

        steps = []
        for st in inp["steps"]:
            raised = None
            try:
                if st[0] == "index":
                    obj.index(st[1], st[2])
                elif st[0] == "append":
                    obj.append(_sid(st[1]), np.zeros(len(obj.samples), dtype=np.float64))
                else:
                    put(obj, st[2], st[3])
                    if st[1]:
                        obj._samp_idx = None
                        if cls == 0:
                            obj._var_idx = None
                        else:
                            obj._name_idx = None
            except Exception as e:  # noqa: the kind is part of the observation
                raised = err_kind(e)
            steps.append(observe(raised))
        return {"steps": steps}

    # ---- Coq literals
    def encode(self, inp, obs):
        def op(st):
            if st[0] == "index":
                return f"(TIndex {L.b(st[1])} {L.b(st[2])})"
            if st[0] == "append":
                return f"(TAppend {L.z(st[1])})"
            return f"(TSet {L.b(st[1])} {L.zl(st[2])} {L.zl(st[3])})"

        def cache(c):
            if c is None:
                return "None"
            if c == "?":
                return "(Some [(-1, -1)])"
            return "(Some " + L.lst(c, lambda p: f"({L.z(p[0])}, {L.z(p[1])})") + ")"

        steps = []
        got = obs.get("steps") if isinstance(obs, dict) else None
        for i, st in enumerate(inp["steps"]):
            if got is None or i >= len(got):
                # the run could not be observed: a step nothing can agree with
                steps.append(f"(mkts {op(st)} (Some [(-1, -1)]) None [] (Some 97))")
                continue
            o = got[i]
            raised = o["raised"] if o["struct_ok"] else 97
            steps.append(f"(mkts {op(st)} {cache(o['c1'])} {cache(o['c2'])} {L.zl(o['ids2'])} {L.opt(raised, L.z)})")
        return f"(mkti {L.z(inp['cls'])} {L.zl(inp['ids1'])} {L.zl(inp['ids2'])} {L.lst(steps, lambda s: s)})"

    def nontrivial(self, inp, obs):
        return any(s[0] == "index" and (s[1] or s[2]) for s in inp["steps"])

    def classes(self, inp, obs):
        out = ["geno" if inp["cls"] == 0 else "pheno"]
        got = obs.get("steps", []) if isinstance(obs, dict) else []
        if any(o.get("raised") == 1 for o in got):
            out.append("index raised ValueError")
        if any(o.get("raised") == 1 for o in got[:-1]):
            out.append("calls after a failed call")
        if any(s[0] == "append" for s in inp["steps"]):
            out.append("append")
        if any(s[0] == "set" and not s[1] for s in inp["steps"]):
            out.append("stale cache")
        if max(len(inp["ids1"]), len(inp["ids2"])) > 256:
            out.append("more than 256 IDs")
        return out

    def shrink(self, inp):
        out = []
        st = inp["steps"]
        for i in range(len(st)):
            if len(st) > 1:
                out.append(dict(inp, steps=st[:i] + st[i + 1:]))
        for key in ("ids1", "ids2"):
            for i in range(len(inp[key])):
                out.append(dict(inp, **{key: inp[key][:i] + inp[key][i + 1:]}))
        return out

    def mutate(self, inp, rng):
        out = []
        for _ in range(6):
            c = self._random_case(rng)
            out.append(dict(c, ids1=inp["ids1"], ids2=inp["ids2"], cls=inp["cls"]))
        return out

    def signature(self, inp, obs):
        return ("tv_index: the index()/append() code translated from the current source leaves other index "
                "dictionaries / exception kinds than the real methods (or than C12_Model's caches)")
