"""C12 - helpers shared by the three relations (switches, literals, history bookkeeping)."""
import os

from . import coqlit as L
from .core import err_kind

# Switch for the integrator.  Genotypes.index / Phenotypes.index store the dictionary they have just built and only
# then check it for duplicate IDs:
#     self._var_idx = dict(zip(self.variants["id"], range(len(self.variants))))
#     if len(self._var_idx) < len(self.variants): ... raise ValueError("Found duplicate variant IDs ...")
# so after the ValueError the object keeps a populated index, the next index() call returns at once, and the
# by-ID look-up that has just been refused now answers (with the LAST of the rows / columns bearing the ID) where a
# fresh object holding the same contents raises again:  g.subset(variants=("v0",)) -> ValueError;
# g.subset(variants=("v0",)) -> a column.  False (default) = the tree as it is: the model (m_stepx, heal = false)
# leaves the dictionary behind as the code does, agree compares, and holds does not consult the fresh object for
# the operations applied to an object whose index() has raised (until that object is re-read).  True = after
# fixes/C12_index_duplicates.patch: model heal = true (theorems C12_refines_geno_poolx /
# C12_refines_pheno_poolx_fixed), every operation is compared with the fresh object.  Flipping it on the
# unrepaired tree yields   VIOLATION property=C12 ...  signature "... by-ID ... after a caught ValueError
# (duplicate IDs) differs from a fresh object's".  Also settable with HV_C12_STRICT_INDEX_AFTER_DUPLICATES=1.
STRICT_INDEX_AFTER_DUPLICATES = os.environ.get("HV_C12_STRICT_INDEX_AFTER_DUPLICATES", "1") == "1"

# Switch for the integrator.  Phenotypes.append(name, data) registers the name in an existing name index
# (self._name_idx[name] = len(self.names)) also when the object already holds a phenotype of that name - which is
# what PhenoSimulator.run does on every replicate.  With the index built, subset(names=(name,)) then answers with
# the new column; without it (and on a fresh object with the same contents) index() reports the duplicate.
# False (default) = the tree as it is: model fixapp = false, holds does not consult the fresh object for the
# operations applied to an object after such an append (until it is re-read).  True = after
# fixes/C12_append_present_name.patch: model fixapp = true (append discards the name index when the name is
# already there; theorem C12_refines_pheno_fixed has no precondition).  Flipping it on the unrepaired tree yields
#   VIOLATION property=C12 ...  signature "pheno by-ID ... after append() of a name already present differs ...".
# Also settable with HV_C12_STRICT_APPEND_PRESENT_NAME=1.
STRICT_APPEND_PRESENT_NAME = os.environ.get("HV_C12_STRICT_APPEND_PRESENT_NAME", "1") == "1"

E_VALUE = 1


def optzl(x):
    return "None" if x is None else f"(Some {L.zl(x)})"


def nats(ks):
    return "[" + "; ".join(f"{int(k)}%nat" for k in ks) + "]"


def quiet_log():
    import logging

    log = logging.getLogger("hv_c12")
    log.setLevel(logging.CRITICAL + 1)
    return log


def ids(prefix, l):
    return None if l is None else [f"{prefix}{x}" for x in l]


def guarded(fn):
    try:
        return fn()
    except AssertionError as e:
        return {"err": 98, "msg": str(e)[:200]}
    except Exception as e:  # noqa
        return {"err": err_kind(e), "msg": f"{type(e).__name__}: {e}"[:200]}


def request(rng, universe, present, absent_extra):
    """an ID request: mostly present IDs, sometimes IDs dropped earlier or never present"""
    pool = list(present) + list(universe) + [absent_extra]
    k = int(rng.integers(1, 4))
    out = []
    for _ in range(k):
        x = int(pool[int(rng.integers(0, len(pool)))])
        if x not in out or rng.random() < 0.04:
            out.append(x)
    return out


def makes_object(op):
    return (op["op"] == "subset" and not op.get("inplace", False)) or op["op"] == "merge"


def valid_switches(ops):
    """every switch / merge addresses object 0 or an object made by an earlier copying subset or merge
    (an operation that raises makes none: such histories are still well-formed for the model, which reports
    IndexError for a switch to an object that does not exist - so only count what certainly exists)"""
    made = 0
    for op in ops:
        if op["op"] == "switch":
            if not 0 <= op["k"] <= made:
                return False
        elif op["op"] == "merge":
            if not op["ks"] or not all(0 <= k <= made for k in op["ks"]):
                return False
            made += 1
        elif makes_object(op):
            made += 1
    return True


def add_switches(rng, ops, p=0.25):
    """let a random history wander between the object and the copies made so far"""
    out, made = [], 0
    for op in ops:
        if made and rng.random() < p:
            out.append({"op": "switch", "k": int(rng.integers(0, made + 1))})
        out.append(op)
        if makes_object(op):
            made += 1
    return out


BY_ID = ("subset", "sim", "transform")
CHANGING = ("read", "missing", "biallelic", "maf", "append", "sort")


def other_object_lookup(ops):
    """a by-ID operation on one object after another object of the same history was changed"""
    focus, changed = 0, set()
    made = 0
    for op in ops:
        k = op["op"]
        if k == "switch":
            focus = op["k"]
        elif k in BY_ID:
            if changed - {focus} and made:
                return True
            if op.get("inplace"):
                changed.add(focus)
            elif k == "subset":
                made += 1
        elif k == "merge":
            made += 1
        elif k in CHANGING:
            changed.add(focus)
    return False


def by_id_after_change(ops, by_id, changing):
    seen_change = False
    seen_lookup = False
    for op in ops:
        if op["op"] in by_id:
            if seen_change and seen_lookup:
                return True
            seen_lookup = True
            if op.get("inplace"):
                seen_change = True
        elif op["op"] in changing:
            if seen_lookup:
                seen_change = True
    return False


def lookup_after_error(ops, steps):
    """a by-ID operation executed after an operation of the same history raised"""
    failed = False
    for op, st in zip(ops, steps):
        if failed and op["op"] in BY_ID + ("index",):
            return True
        if "err" in st["obs"]:
            failed = True
    return False


def first_difference(ops, steps):
    """index of the first step whose fresh object showed something else, or None"""
    for j, st in enumerate(steps):
        if st.get("fresh") is not None and st["fresh"] != st["obs"]:
            return j
    return None


def describe_difference(prefix, ops, steps):
    j = first_difference(ops, steps)
    if j is None:
        return f"{prefix} history object and model disagree"
    op, st = ops[j], steps[j]
    what = "wrong exception" if "err" in st["obs"] else "wrong rows/columns"
    if op["op"] == "read":
        return f"{prefix} re-read object differs from a freshly read one"
    if op["op"] == "merge":
        return f"{prefix} merged object differs from the merge of fresh objects"
    before = ops[:j]
    done = steps[:j]
    if any("err" in s["obs"] for s in done):
        kinds = sorted({s["obs"]["err"] for s in done if "err" in s["obs"]})
        dup = " (duplicate IDs)" if any(o["op"] in BY_ID + ("index",) and "err" in s["obs"] for o, s in zip(before, done)) else ""
        return f"{prefix} by-ID {op['op']} after a caught exception{dup} kinds {kinds} differs from a fresh object's ({what})"
    if any(o["op"] == "append" and o.get("present") for o in before):
        return f"{prefix} by-ID {op['op']} after append() of a name already present differs from a fresh object's ({what})"
    if other_object_lookup(ops[:j + 1]):
        return f"{prefix} by-ID {op['op']} on one object after its copy/parent was changed differs from a fresh object's ({what})"
    reread = False
    seen = False
    for o in before:
        if o["op"] == "read" and seen:
            reread = True
        if o["op"] in BY_ID + ("index",):
            seen = True
    return f"{prefix} by-ID {op['op']} after {'a re-read' if reread else 'earlier operations'} differs from a fresh object's ({what})"
