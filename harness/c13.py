"""C13 - QC checks raise exactly on offenders and discard exactly them.

Relations (case types and checkers: C13_CheckW.v, built on C13_Check.v)
  qc   : a sequence of check_missing / check_biallelic / check_phase / check_maf /
         check_sorted calls on a Genotypes / GenotypesVCF / GenotypesPLINK /
         GenotypesAncestry object whose arrays are set directly (uint8, or bool as check_biallelic
         leaves them); after every call the outcome (returned / ValueError naming sample+variant),
         the object's contents (samples, variants, data, ancestry, returned MAF), the dtype of data
         and - for check_maf - the WARNING records it logged are observed.  Width-boundary tables
         (hundreds to tens of thousands of samples, a thousand variants, > 65535 calls) are kept as
         specifications in the input and written as compact literals (c13_w.py, C13_Wide.v).
  load : cls.load() of a generated file (read + the checks that loader runs) for all six loaders:
         Genotypes / GenotypesVCF / GenotypesAncestry (VCF.gz), GenotypesPLINK (PGEN), GenotypesTR
         (HipSTR-style VCF.gz), GenotypesPLINKTR (PGEN + annotated PVAR); against the model's
         composition of the checks on what a bare read() of the same file delivers.
  files: a history on ONE object that read()s real files written by the harness (VCF.gz with
         GT or GT:POP, PGEN+PVAR+PSAM): read / checks (raise and discard modes) / read of the
         same or another file again / checks ..., 1-8 calls; outcome, contents, dtype and warnings
         after every call; every check's verdict must be about the data loaded at that moment.

Sample and variant IDs repeat in the generated data (duplicate rsIDs, an ID column that is '.'
everywhere = variant ID -1, duplicate sample IDs where the class / file format accepts them):
offenders and survivors are identified by position, never by ID.
"""
import os
import re
from collections import Counter
import shutil
import tempfile

import numpy as np

from . import coqlit as L
from . import c13_w as W
from .core import Relation, err_kind

PROP = "C13"
CLAIMED = True
COQ_MODULES = ["GenoTable", "C13_Model", "C13_Check", "C13_Proofs", "C13_Sound", "C13_ProofsHist",
               "C13_Wide", "C13_ModelW", "C13_CheckW", "C13_ProofsW"]
W_IMPORTS = ["GenoTable", "C13_Model", "C13_Check", "C13_ModelW", "C13_Wide"]
PROPERTY_MODULE = "C13_Property"
ALLOWED_AXIOMS = []
RULE = (
    "qc: arrays 0-5 samples x 0-6 variants (2 or 3 planes; IDs unique / repeated / '.'; dtype uint8 or, for 0/1 tables, bool as "
    "check_biallelic leaves it; positions small or straddling 2^31 / next to 2^32-1), cells drawn from {0,1} plus injected offenders "
    "(255/254 in one or both alleles, allele indices 2..253 incl. 126|127|128|129|252|253, unphased heterozygotes with and without the "
    "reference allele), 1-4 checks in random order with random discard / warn_only flags, thresholds None/0/0.5/attainable "
    "frequencies/off-grid; all four classes (+ GenotypesTR for the checks it inherits); plus, per run, width-boundary tables kept as "
    "specifications: 127..257 samples x 1-3 variants (allele counts beyond int8/uint8), 1-3 samples x 255..1001 variants, "
    "16383..32769 samples (allele counts beyond int16/uint16) or 256x256..257x256 calls (> 65535), offenders at the index "
    "boundaries. load: cls.load for Genotypes / GenotypesVCF / GenotypesAncestry (VCF.gz), GenotypesPLINK (PGEN), GenotypesTR "
    "(HipSTR-style VCF.gz), GenotypesPLINKTR (PGEN + annotated PVAR), 1-5 samples x 1-6 variants and 128/255/256/257 samples. "
    "files: 1-2 files of 1-4 samples x 1-5 variants read by one object, histories of 1-8 calls mixing read (whole file / some "
    "samples / some variants), the checks and re-reads. Non-trivial = at least one call met an offender (raised or discarded "
    "something) or stripped the phase plane. Distinct = distinct canonical JSON."
)
TRUSTED = [
    "numpy nonzero/delete/boolean casts are modelled as list operations (GenoTable.v) and exercised on every case",
    "IEEE double division/subtraction/comparison = Coq PrimFloat (bit exact) for the MAF values and threshold tests",
    "error messages are parsed by regular expressions to recover the named sample and variant; the WARNING records of "
    "check_maf are captured with a logging.Handler on the object's own logger (their wording is not demanded: an unparsed "
    "record counts as a warning that names nothing)",
    "files / load relations: the harness' own writers (VCF text + bgzip via pysam, PGEN via pgenlib.PgenWriter, HipSTR-style "
    "headers for the repeat classes) put into the files what the tables say; what read() delivers from them is observed on "
    "every case (load: the table the model starts from is what a bare read() of the same file returned)",
    "wide tables are written as compact literals (repz / zrun / vrun, C13_Wide.v, specifications proved: C13_repz_spec, "
    "C13_zrun_spec, C13_vrun_nth); the printer that chooses them is part of the harness",
]
ASSUMPTIONS = [
    "arrays are rectangular: len(samples) x len(variants) x (2|3)",
    "files relation: read(variants=...) is only asked for IDs that occur once in the file (no truncation by the "
    "preallocation of len(variants) records); files hold at least one sample and one variant",
    "GenotypesTR / GenotypesPLINKTR are outside the property's quantifier; their loaders are modelled as they are (read + "
    "check_phase) and held to the phase clause only: missing repeat calls are returned by load()",
]
CLASSES = ["Genotypes", "GenotypesVCF", "GenotypesPLINK", "GenotypesAncestry"]
# GenotypesTR inherits check_missing / check_phase / check_sorted unchanged (its check_biallelic and
# check_maf are NotImplementedError stubs): exercised in qc with those three checks
TR_OPS = ("missing", "phase", "sorted")
POPS = ("A", "B", "C")


def vname(k):
    """variant ID of the interned number k; -1 = no ID ('.')"""
    return "." if k < 0 else f"v{k}"


def vparse(x):
    x = str(x)
    if x in (".", "None"):  # cyvcf2 reports the ID '.' as None
        return -1
    if not re.fullmatch(r"v\d+", x):
        raise AssertionError(f"unexpected variant ID {x!r}")
    return int(x[1:])


# ---------------------------------------------------------------------------
# Gallina literals


def cell_term(c):
    return f"gc {c[0]} {c[1]} {c[2]}"


def tab_term(t):
    vs = L.lst(t["variants"], lambda v: f"gv {L.z(v[0])} {L.z(v[1])} {L.z(v[2])}")
    rows = L.lst(t["rows"], lambda r: L.lst(r, cell_term))
    anc = "None" if t.get("anc") is None else "(Some " + L.lst(
        t["anc"], lambda r: L.lst(r, lambda x: f"({x[0]},{x[1]})")) + ")"
    return f"(mkg {L.zl(t['samples'])} {vs} {rows} {t['planes']} {anc})"


def optz(x):
    return "None" if x is None else f"(Some {L.z(x)})"


def maf_term(m):
    return W.rle_term(["None" if x is None else f"(Some {L.q(float.fromhex(x))})" for x in m], min_run=6)


def op_term(op):
    k = op["op"]
    if k == "missing":
        return f"OpMissing {L.b(op['discard'])}"
    if k == "biallelic":
        return f"OpBiallelic {L.b(op['discard'])}"
    if k == "phase":
        return "OpPhase"
    if k == "sorted":
        return "OpSorted"
    thr = "None" if op["thr"] is None else f"(Some {L.hexfloat(op['thr'])})"
    return f"OpMaf {thr} {L.b(op['discard'])} {L.b(op['warn'])}"


class Shared:
    """let-bind every distinct table of one case once (keeps the literals small)"""

    def __init__(self):
        self.names = {}
        self.defs = []

    def __call__(self, t):
        key = tab_term(t)
        if key not in self.names:
            self.names[key] = f"t{len(self.names)}"
            self.defs.append((self.names[key], key))
        return self.names[key]

    def wrap(self, body):
        return "(" + "".join(f"let {n} := {d} in " for n, d in self.defs) + body + ")"


class SharedC(Shared):
    """as Shared, with the compact literals of C13_Wide.v for long regular lists"""

    def __call__(self, t):
        key = W.tab_term_c(t)
        if key not in self.names:
            self.names[key] = f"t{len(self.names)}"
            self.defs.append((self.names[key], key))
        return self.names[key]


def wobs_term(o, sh):
    """C13_CheckW.wobs: the outcome, dtype == bool afterwards, the WARNING records of a check_maf call"""
    warn = L.lst(o.get("warn") or [], optz)
    return f"mkw ({obs_term(o, sh)}) {L.b(o.get('bool', False))} {warn}"


def table_of(inp):
    """the initial table of a qc input (wide tables are kept as a specification in the JSON)"""
    return inp["table"] if "table" in inp else W.wide_table(inp["wide"])


def obs_term(o, sh):
    if "other" in o:
        return f"OOther {L.z(o['other'])}"
    if "raise" in o:
        s, v = o["raise"]
        return f"ORaise {optz(s)} {optz(v)} {sh(o['state'])}"
    return f"ORet {sh(o['state'])} {maf_term(o.get('maf') or [])}"


# ---------------------------------------------------------------------------
# running the implementation


def build_object(inp):
    import logging

    from haptools import data as hd
    from haptools.transform import GenotypesAncestry

    cls = {"Genotypes": hd.Genotypes, "GenotypesVCF": hd.GenotypesVCF, "GenotypesPLINK": hd.GenotypesPLINK,
           "GenotypesAncestry": GenotypesAncestry, "GenotypesTR": hd.GenotypesTR}[inp["cls"]]
    log, cap = W.make_log()
    g = cls(fname=None, log=log)
    g._hv_cap = cap
    t = table_of(inp)
    n, p, k = len(t["samples"]), len(t["variants"]), t["planes"]
    g.samples = tuple(f"s{i}" for i in t["samples"])
    if "alleles" in g.variants.dtype.names:
        recs = [(vname(v[0]), str(v[1]), v[2], ("A", "T")) for v in t["variants"]]
    else:
        recs = [(vname(v[0]), str(v[1]), v[2]) for v in t["variants"]]
    g.variants = np.array(recs, dtype=g.variants.dtype)
    arr = np.zeros((n, p, k), dtype=np.uint8)
    if n and p:
        arr[:, :, :] = np.array([[c[:k] for c in row] for row in t["rows"]], dtype=np.int64).reshape(n, p, k)
    if inp.get("dtype") == "bool":
        # arrays handed over as check_biallelic leaves them (only tables of 0/1 are generated with this flag)
        assert arr.max(initial=0) <= 1
        arr = arr.astype(np.bool_)
    g.data = arr
    if inp["cls"] == "GenotypesAncestry":
        a = np.zeros((n, p, 2), dtype=np.uint8)
        if n and p:
            a[:, :, :] = np.array(t["anc"], dtype=np.int64).reshape(n, p, 2)
        g.ancestry = a
    return g


def observe_state(g, is_anc, decode=False):
    """decode: the ancestry codes are translated back to the populations' positions in POPS through the
    object's own popnum_ancestry (objects that read a file number the populations in order of appearance)"""
    d = np.asarray(g.data)
    if d.ndim != 3:
        raise AssertionError("data is not 3-dimensional")
    k = int(d.shape[2])
    di = d.astype(np.int64)
    if k < 3:
        di = np.concatenate([di[:, :, :2], np.zeros(di.shape[:2] + (1,), dtype=np.int64)], axis=2)
    rows = di[:, :, :3].tolist()
    st = {
        "samples": [int(str(s)[1:]) for s in g.samples],
        "variants": [[vparse(v["id"]), int(str(v["chrom"])), int(v["pos"])] for v in g.variants],
        "rows": rows, "planes": k, "anc": None,
    }
    if len(st["samples"]) != d.shape[0] or len(st["variants"]) != d.shape[1]:
        st["shape_mismatch"] = [int(x) for x in d.shape]
    if is_anc:
        a = np.asarray(g.ancestry).astype(np.int64)
        if decode:
            names = dict(g.popnum_ancestry)
            code = lambda x: POPS.index(names[int(x)]) if names.get(int(x)) in POPS else -1 - int(x)
            st["anc"] = [[[code(c[0]), code(c[1])] for c in r] for r in a]
        else:
            st["anc"] = [[[int(c[0]), int(c[1])] for c in r] for r in a]
        if a.shape[:2] != d.shape[:2]:
            st["shape_mismatch"] = [int(x) for x in d.shape] + [int(x) for x in a.shape]
    return st


RX_CELL = re.compile(r"^(?:Genotype|Variant) with ID (v\d+|\.|None) at POS (\S+):(\d+) is (missing|multiallelic|unphased) for sample s(\d+)$")
RX_MAF = re.compile(r"^Variant with ID (v\d+|\.|None) at POS (\S+):(\d+) has MAF (\S+) < (\S+)$")
RX_SORT = re.compile(r"^The variants in chromosome '(\S+)' are not sorted by position$")


def apply_op(g, op):
    k = op["op"]
    if k == "missing":
        return g.check_missing(discard_also=op["discard"])
    if k == "biallelic":
        return g.check_biallelic(discard_also=op["discard"])
    if k == "phase":
        return g.check_phase()
    if k == "sorted":
        return g.check_sorted()
    return g.check_maf(threshold=op["thr"], discard_also=op["discard"], warn_only=op["warn"])


def fl(x):
    x = float(x)
    return None if (x != x or x in (float("inf"), float("-inf"))) else x.hex()


WANT = {"missing": "missing", "biallelic": "multiallelic", "phase": "unphased"}


def run_check_op(g, op, is_anc, decode=False):
    """one QC call on the object g: what it did, the object's contents afterwards, whether data has dtype bool
    afterwards, and (check_maf) the WARNING-level log records the call emitted"""
    import logging

    cap = getattr(g, "_hv_cap", None)
    n0 = len(cap.records) if cap is not None else 0
    try:
        with np.errstate(all="ignore"):
            ret = apply_op(g, op)
        o = {"state": observe_state(g, is_anc, decode)}
        if op["op"] == "maf":
            o["maf"] = [fl(x) for x in np.asarray(ret).tolist()]
    except ValueError as e:
        msg = str(e)
        m = RX_CELL.match(msg)
        if m and WANT.get(op["op"]) == m.group(4):
            o = {"raise": [int(m.group(5)), vparse(m.group(1))], "state": observe_state(g, is_anc, decode)}
        elif RX_MAF.match(msg) and op["op"] == "maf":
            o = {"raise": [None, vparse(RX_MAF.match(msg).group(1))], "state": observe_state(g, is_anc, decode)}
        elif RX_SORT.match(msg) and op["op"] == "sorted":
            o = {"raise": [None, None], "state": observe_state(g, is_anc, decode)}
        else:
            o = {"other": 1, "msg": msg[:200]}
    except Exception as e:  # noqa
        o = {"other": err_kind(e), "msg": f"{type(e).__name__}: {e}"[:200]}
    if "state" in o and "shape_mismatch" in o["state"]:
        # the arrays no longer line up (e.g. ancestry not shrunk in step): the property fails here;
        # encoded as an outcome no clause accepts
        o = {"other": 98, "msg": f"arrays out of step after {op['op']}: {o['state']['shape_mismatch']}",
             "partial": {k: o["state"][k] for k in ("samples", "variants", "planes")}}
    if "other" not in o:
        o["bool"] = bool(np.asarray(g.data).dtype == np.bool_)
        if op["op"] == "maf" and cap is not None:
            o["warn"] = []
            for lvl, msg in cap.records[n0:]:
                if lvl == logging.WARNING:
                    m = RX_MAF.match(msg)
                    o["warn"].append(vparse(m.group(1)) if m else None)
    return o


def run_sequence(inp):
    import warnings

    warnings.simplefilter("ignore")
    g = build_object(inp)
    is_anc = inp["cls"] == "GenotypesAncestry"
    steps = []
    for op in inp["ops"]:
        o = run_check_op(g, op, is_anc)
        steps.append(o)
        if "other" in o:
            break
    return {"steps": steps}


# ---------------------------------------------------------------------------
# python-side description of a failing step (for signatures only; the verdict is Coq's)


def offenders(t, kind, anc, may=False):
    """cells the property certainly (may=False) / possibly (may=True) calls offending"""
    out = []
    for i, r in enumerate(t["rows"]):
        for j, c in enumerate(r):
            a, b, p = c
            if kind == "missing":
                hit = (a >= 254 or b >= 254) if (may or not anc) else (a == 255 or b == 255)
            elif kind == "biallelic":
                hit = (a > 1 or b > 1) if may else ((1 < a <= 253) or (1 < b <= 253))
            else:
                hit = t["planes"] >= 3 and a != b and p == 0 and a <= 253 and b <= 253  # a missing allele: no heterozygote
            if hit:
                out.append((i, j, c))
    return out


def rare_band(t, thr):
    """(some variant certainly below thr, some variant possibly below thr) - python twin of C13_CheckW.maf_must / maf_may"""
    from fractions import Fraction

    n = len(t["rows"])
    if not n or thr != thr or thr in (float("inf"), float("-inf")):
        return False, True
    tq, eps = Fraction(thr), Fraction(1, 10**9)
    must = may = False
    for j in range(len(t["variants"])):
        k = sum((1 if r[j][0] else 0) + (1 if r[j][1] else 0) for r in t["rows"])
        f = Fraction(k, 2 * n)
        m = min(f, 1 - f)
        must = must or m + eps < tq
        may = may or (m <= tq + eps and m != tq)
    return must, may


def describe(inp, obs):
    if not isinstance(obs, dict) or "steps" not in obs:
        return "qc harness-level failure"
    anc = inp["cls"] == "GenotypesAncestry"
    cur = table_of(inp)
    for op, o in zip(inp["ops"], obs["steps"]):
        k = op["op"]
        if "other" in o:
            if o["other"] == 98:
                return f"{'ancestry' if anc else 'plain'} check_{k} leaves the parallel arrays out of step"
            return f"check_{k} raises an unexpected exception kind {o['other']}"
        if k in ("missing", "biallelic", "phase"):
            off = offenders(cur, k, anc)
            disc = op.get("discard", False)
            if off and not disc and "raise" not in o:
                extra = ""
                if k == "phase":
                    extra = " (heterozygote of two non-reference alleles)" if all(c[0] and c[1] for _, _, c in off) else ""
                return f"check_{k} returns although an offending call is present{extra}"
            if "raise" in o and not offenders(cur, k, anc, may=True):
                return f"check_{k} raises without an offending call"
            if "raise" in o and disc:
                return f"check_{k} raises in discard mode"
        if k == "maf" and op.get("warn") and not op.get("discard") and op.get("thr") is not None and "state" in o and "warn" in o:
            must, may = rare_band(cur, op["thr"])
            if must and not o["warn"]:
                return "check_maf(warn_only) logs no warning although a variant is below the threshold"
            if o["warn"] and not may:
                return "check_maf(warn_only) logs a warning although no variant is below the threshold"
        cur = o["state"]
    return "qc sequence: outcome or surviving data differ from the property's clause"


# ---------------------------------------------------------------------------


def _grid(rng, n):
    out = [None, 0.0, 0.5, 0.25, 0.1, 1e-12]
    if n:
        k = int(rng.integers(0, 2 * n + 1))
        f = k / (2 * n)
        out += [f, min(f, 1 - f), min(f, 1 - f) + 1e-3, max(0.0, min(f, 1 - f) - 1e-3), float(rng.random() / 2)]
    return out


def gen_table(rng, cls, flavour):
    n = int(rng.choice([0, 1, 2, 2, 3, 3, 4, 5]))
    p = int(rng.choice([0, 1, 2, 3, 3, 4, 4, 5, 6]))
    planes = 3 if rng.random() < 0.75 else 2
    sids = rng.permutation(9)[:n].tolist()
    vids = rng.permutation(9)[:p].tolist()
    # repeated IDs: the same rsID on several records, an ID column that is '.' (-1) everywhere or in
    # places, the same sample ID twice (a tuple of names set directly / a .psam accept that)
    ids = flavour.get("ids", "unique")
    if ids == "dots":
        vids = [-1] * p
    elif ids == "dups" and p:
        pool = [-1] + rng.permutation(9)[:max(1, (p + 1) // 2)].tolist()
        vids = [int(pool[int(rng.integers(0, len(pool)))]) for _ in range(p)]
    if flavour.get("sdup") and n:
        pool = rng.permutation(9)[:max(1, (n + 1) // 2)].tolist()
        sids = [int(pool[int(rng.integers(0, len(pool)))]) for _ in range(n)]
    nch = int(rng.integers(1, 3))
    variants = []
    pos = {1: 10, 2: 10}
    for j in range(p):
        ch = int(rng.integers(1, nch + 1))
        if flavour.get("unsorted") and rng.random() < 0.35:
            pos[ch] -= int(rng.integers(1, 4))
        else:
            pos[ch] += int(rng.integers(0, 4))
        variants.append([int(vids[j]), ch, max(1, pos[ch])])
    rows = []
    for i in range(n):
        r = []
        for j in range(p):
            a, b = int(rng.integers(0, 2)), int(rng.integers(0, 2))
            ph = 1 if (rng.random() < 0.9 or a != b) else 0
            r.append([a, b, ph if planes == 3 else 0])
        rows.append(r)
    ncell = n * p
    if ncell:
        k = {"clean": 0, "few": int(rng.integers(1, 3)), "many": int(rng.integers(2, 2 + ncell))}[flavour["density"]]
        for _ in range(k):
            i, j = int(rng.integers(0, n)), int(rng.integers(0, p))
            kind = rng.choice(flavour["kinds"])
            c = rows[i][j]
            if kind == "miss2":
                c[0] = c[1] = 255
                c[2] = 0
            elif kind == "miss1":
                c[int(rng.integers(0, 2))] = 255
                c[2] = int(rng.integers(0, 2))
            elif kind == "m254":
                c[int(rng.integers(0, 2))] = 254
                c[2] = 0
            elif kind == "multi":
                c[int(rng.integers(0, 2))] = int(rng.choice([2, 2, 3, 7, 253, 126, 127, 128, 129, 252]))
            elif kind == "multi2":
                c[0], c[1] = int(rng.choice([2, 3, 253, 127, 128])), int(rng.choice([2, 3, 253, 127, 128]))
            elif kind == "unph01":
                c[0], c[1] = (0, 1) if rng.random() < 0.5 else (1, 0)
                c[2] = 0
            elif kind == "unph12":
                c[0], c[1] = [(1, 2), (2, 1), (2, 3), (1, 253), (127, 128), (128, 129), (0, 128)][int(rng.integers(0, 7))]
                c[2] = 0
            elif kind == "unphhom":
                c[0] = c[1] = int(rng.choice([0, 1, 2]))
                c[2] = 0
            if planes == 2:
                c[2] = 0
    t = {"samples": [int(x) for x in sids], "variants": variants, "rows": rows, "planes": planes, "anc": None}
    if cls == "GenotypesAncestry":
        t["anc"] = [[[int(rng.integers(0, 3)), int(rng.integers(0, 3))] for _ in range(p)] for _ in range(n)]
    return t


ALL_KINDS = ["miss2", "miss1", "m254", "multi", "multi2", "unph01", "unph12", "unphhom"]


def gen_ids(rng):
    """ID pattern of a generated table"""
    r = rng.random()
    return {"ids": "unique" if r < 0.4 else ("dots" if r < 0.55 else "dups"), "sdup": bool(rng.random() < 0.35)}


def target_dup(rng, t):
    """Boundary of "discard by position": two variants (two samples) carry the same ID and exactly one of them
    offends - one column gets a multiallelic call or becomes monomorphic (rare at every threshold > 0) while its
    twin is common, one row gets a missing call.  In place."""
    n, p = len(t["samples"]), len(t["variants"])
    ph = 1 if t["planes"] == 3 else 0
    if p >= 2 and n:
        j1, j2 = [int(x) for x in rng.permutation(p)[:2]]
        t["variants"][j2][0] = t["variants"][j1][0]
        what = int(rng.integers(0, 3))
        for i in range(n):
            t["rows"][i][j2] = [i % 2, 1 - i % 2, ph] if n > 1 else [0, 1, ph]
        if what == 0:
            for i in range(n):
                t["rows"][i][j1] = [0, 0, ph]
        elif what == 1:
            for i in range(n):
                t["rows"][i][j1] = [1, 1, ph]
        else:
            t["rows"][int(rng.integers(0, n))][j1] = [2, 1, ph]
    if n >= 2 and p:
        i1, i2 = [int(x) for x in rng.permutation(n)[:2]]
        t["samples"][i2] = t["samples"][i1]
        if rng.random() < 0.7:
            t["rows"][i1][int(rng.integers(0, p))] = [255, 255, 0]


def gen_ops(rng, n, style):
    def one(kind):
        if kind == "maf":
            thr = _grid(rng, n)[int(rng.integers(0, len(_grid(rng, n))))]
            return {"op": "maf", "thr": thr, "discard": bool(rng.random() < 0.5), "warn": bool(rng.random() < 0.3)}
        if kind in ("missing", "biallelic"):
            return {"op": kind, "discard": bool(rng.random() < 0.5)}
        return {"op": kind}

    if style == "load":
        return [one("missing"), one("biallelic"), one("phase")] + ([one("maf")] if rng.random() < 0.5 else [])
    kinds = ["missing", "biallelic", "phase", "maf", "maf", "sorted"]
    k = int(rng.integers(1, 5))
    if style == "perm":
        seq = rng.permutation(["missing", "biallelic", "phase", "maf"]).tolist()[:max(k, 2)]
    else:
        seq = [str(rng.choice(kinds)) for _ in range(k)]
    return [one(s) for s in seq]


def id_classes(t):
    vids = [v[0] for v in t["variants"]]
    out = []
    if len(set(vids)) < len(vids):
        out.append("variant-ids=repeated")
    if -1 in vids:
        out.append("variant-ids=some-missing")
    if len(set(t["samples"])) < len(t["samples"]):
        out.append("sample-ids=repeated")
    return out


def discard_hits_twin(before, after):
    """a discarding call removed some but not all of the items that carry one ID"""
    out = []
    for key, ids_b, ids_a in (("variant", [v[0] for v in before["variants"]], [v[0] for v in after["variants"]]),
                              ("sample", before["samples"], after["samples"])):
        cb, ca = Counter(ids_b), Counter(ids_a)
        for x, k in cb.items():
            if k > 1 and 0 < ca.get(x, 0) < k:
                out.append(f"discard-splits-equal-{key}-ids")
                break
    return out


class QC(Relation):
    name = "qc"
    coq_module = "C13_CheckW"
    coq_check = "check_wqc"
    coq_case_type = "wqcase"
    coq_model = "model_wqc"
    coq_imports = W_IMPORTS
    budget = {"quick": 1500, "thorough": 30000}
    # small shards: the cases are evaluated in parallel, and a wide table (seconds to evaluate) shares its shard with few others
    max_cases_per_shard = 120
    max_chars_per_shard = 36_000
    anchors = [
        ("haptools/data/genotypes.py", "Genotypes.check_missing"),
        ("haptools/data/genotypes.py", "Genotypes.check_biallelic"),
        ("haptools/data/genotypes.py", "Genotypes.check_phase"),
        ("haptools/data/genotypes.py", "Genotypes.check_maf"),
        ("haptools/data/genotypes.py", "Genotypes.check_sorted"),
        ("haptools/transform.py", "GenotypesAncestry.check_missing"),
        ("haptools/transform.py", "GenotypesAncestry.check_biallelic"),
    ]

    def preamble(self):
        return "From Coq Require Import QArith PrimFloat.\nOpen Scope Z_scope."

    def generate(self, rng, n, tier):
        out = []
        for i in range(n):
            cls = CLASSES[int(rng.integers(0, 4))] if rng.random() < 0.93 else "GenotypesTR"
            r = rng.random()
            if r < 0.12:
                fl_ = {"density": "clean", "kinds": ALL_KINDS}
            elif r < 0.55:
                fl_ = {"density": "few", "kinds": ALL_KINDS}
            elif r < 0.75:
                fl_ = {"density": "few", "kinds": [str(rng.choice(ALL_KINDS))]}
            else:
                fl_ = {"density": "many", "kinds": ALL_KINDS if rng.random() < 0.5 else [str(rng.choice(ALL_KINDS))]}
            fl_["unsorted"] = bool(rng.random() < 0.3)
            fl_.update(gen_ids(rng))
            t = gen_table(rng, cls, fl_)
            kind = fl_["density"]
            if rng.random() < 0.2:
                target_dup(rng, t)
                kind = "dup-target"
            style = ["load", "perm", "free"][int(rng.choice([0, 1, 1, 2, 2]))]
            ops = gen_ops(rng, len(t["samples"]), style)
            if kind == "dup-target" and rng.random() < 0.7:
                # make sure a discarding call meets the twins
                k = ["missing", "biallelic", "maf"][int(rng.integers(0, 3))]
                op = {"op": k, "discard": True}
                if k == "maf":
                    op.update(thr=[0.5, 0.25, 0.1, 1e-12][int(rng.integers(0, 4))], warn=bool(rng.random() < 0.2))
                ops.insert(int(rng.integers(0, len(ops) + 1)), op)
                ops = ops[:4]
            if cls == "GenotypesTR":
                ops = [o for o in ops if o["op"] in TR_OPS] or [{"op": "phase"}]
            case = {"cls": cls, "table": t, "ops": ops, "kind": kind}
            if rng.random() < 0.12 and all(c[0] <= 1 and c[1] <= 1 for r_ in t["rows"] for c in r_):
                # the arrays are handed over with dtype bool (as check_biallelic leaves them): every check on bool data
                case["dtype"] = "bool"
            if rng.random() < 0.06:
                # positions straddling 2^31 / next to 2^32 - 1 (the pos field is a uint32)
                base = int(rng.choice([2**31 - 12, 2**32 - 1 - 40]))
                t["variants"] = [[v[0], v[1], v[2] + base] for v in t["variants"]]
            out.append(case)
        # width boundaries (kept as specifications; not at the end: the last input is stored in the evidence file)
        shapes = ["samples8", "variants"] + [["samples16", "cells"][int(rng.integers(0, 2))]]
        if tier != "quick":
            shapes = ["samples8", "variants", "samples16", "cells"] * max(1, n // 3000)
        for k, shape in enumerate(shapes):
            # spread over the shards (a wide table takes seconds to evaluate), never the last input
            out.insert(min(max(len(out) - 1, 0), 1 + 131 * k), self.wide_case(rng, shape))
        return out

    def wide_case(self, rng, shape):
        cls = CLASSES[int(rng.integers(0, 3))] if rng.random() < 0.85 else "GenotypesAncestry"
        planes = 3 if rng.random() < 0.8 else 2
        w = W.gen_wide_spec(rng, shape, planes)
        if cls == "GenotypesAncestry":
            w["anc"] = [int(rng.integers(0, 3)), int(rng.integers(0, 3))]
        ops = gen_ops(rng, w["n"], ["load", "perm", "free"][int(rng.integers(0, 3))])
        if shape == "samples16":
            # discarding samples out of tens of thousands is quadratic in the checker: not here
            ops = [dict(o, discard=False) if o["op"] == "missing" else o for o in ops]
        if not any(o["op"] == "maf" for o in ops):
            ops.append({"op": "maf", "thr": [None, 0.25, 0.5, 0.1][int(rng.integers(0, 4))], "discard": False,
                        "warn": bool(rng.random() < 0.5)})
        return {"cls": cls, "wide": w, "ops": ops[:4], "kind": "wide-" + shape}

    def exhaustive(self, tier):
        # every 1 x 2 and 2 x 1 array over a small cell alphabet, every single check
        import itertools

        alpha = [[0, 0, 0], [0, 1, 0], [0, 1, 1], [1, 2, 0], [2, 2, 1], [255, 255, 0], [0, 255, 0], [1, 254, 1]]
        ops = [{"op": "missing", "discard": False}, {"op": "missing", "discard": True},
               {"op": "biallelic", "discard": False}, {"op": "biallelic", "discard": True},
               {"op": "phase"}, {"op": "maf", "thr": 0.25, "discard": True, "warn": False},
               {"op": "maf", "thr": 0.5, "discard": False, "warn": False}]
        out = []
        for cls in ("GenotypesVCF", "GenotypesAncestry"):
            for a, b in itertools.product(alpha, repeat=2):
                for shape in ("row", "col"):
                    rows = [[list(a), list(b)]] if shape == "row" else [[list(a)], [list(b)]]
                    n, p = len(rows), len(rows[0])
                    for same in (False, True):   # the two variants / samples carry the same ID
                        t = {"samples": [0 if same else i for i in range(n)],
                             "variants": [[0 if same else j, 1, 10 + j] for j in range(p)], "rows": rows,
                             "planes": 3, "anc": [[[i, j] for j in range(p)] for i in range(n)] if cls == "GenotypesAncestry" else None}
                        for op in ops:
                            out.append({"cls": cls, "table": t, "ops": [op], "kind": "exhaustive"})
        return out

    def run_impl(self, inp):
        return run_sequence(inp)

    def encode(self, inp, obs):
        sh = SharedC()
        t0 = sh(table_of(inp))
        anc = L.b(inp["cls"] == "GenotypesAncestry")
        isb = L.b(inp.get("dtype") == "bool")
        if not isinstance(obs, dict) or "steps" not in obs:
            k = obs.get("kind", 99) if isinstance(obs, dict) else 99
            steps = f"[({op_term(inp['ops'][0]) if inp['ops'] else 'OpSorted'}, mkw (OOther {L.z(k)}) false [])]"
            return sh.wrap(f"mkwq {anc} {isb} {t0} {steps}")
        parts = [f"({op_term(op)}, {wobs_term(o, sh)})" for op, o in zip(inp["ops"], obs["steps"])]
        return sh.wrap(f"mkwq {anc} {isb} {t0} {L.lst(parts)}")

    def nontrivial(self, inp, obs):
        if not isinstance(obs, dict) or "steps" not in obs:
            return False
        cur = table_of(inp)
        for o in obs["steps"]:
            if "raise" in o:
                return True
            if "state" in o:
                if o["state"] != cur:
                    return True
                cur = o["state"]
        return False

    def classes(self, inp, obs):
        t0 = table_of(inp)
        out = [inp["cls"], f"density={inp['kind']}", f"n={len(t0['samples'])}", f"p={len(t0['variants'])}"]
        out += id_classes(t0)
        if inp.get("dtype") == "bool":
            out.append("dtype=bool-at-start")
        if any(v[2] >= 2**31 for v in t0["variants"]):
            out.append("positions>=2^31")
        if isinstance(obs, dict) and "steps" in obs:
            cur = t0
            isb = inp.get("dtype") == "bool"
            for op, o in zip(inp["ops"], obs["steps"]):
                tag = op["op"] + ("+discard" if op.get("discard") else "")
                if isb and "other" not in o:
                    out.append(f"{op['op']}:on-bool-data")
                isb = o.get("bool", isb)
                if op["op"] == "maf" and op.get("warn") and not op.get("discard") and op.get("thr") is not None and "state" in o:
                    out.append("maf-warn-only:" + ("warned" if o.get("warn") else "silent"))
                if "raise" in o:
                    out.append(f"{tag}:raised")
                elif "other" in o:
                    out.append(f"{tag}:other{o['other']}")
                else:
                    st = o["state"]
                    if not st["samples"] or not st["variants"]:
                        if cur["samples"] and cur["variants"]:
                            out.append(f"{tag}:all-discarded")
                    out.append(f"{tag}:{'changed' if st != cur else 'unchanged'}")
                    out += discard_hits_twin(cur, st)
                    cur = st
        return sorted(set(out))

    def shrink(self, inp):
        ops = inp["ops"]
        for j in range(len(ops)):
            yield dict(inp, ops=ops[:j] + ops[j + 1:])
        if "wide" in inp:
            # a wide table stays a specification: fewer patches, then discard flags
            w = inp["wide"]
            for k in range(len(w.get("patches", []))):
                yield dict(inp, wide=dict(w, patches=w["patches"][:k] + w["patches"][k + 1:]))
            for j, op in enumerate(ops):
                if op.get("discard"):
                    yield dict(inp, ops=ops[:j] + [dict(op, discard=False)] + ops[j + 1:])
            return
        t = inp["table"]
        if inp.get("dtype") == "bool":
            yield {k: v for k, v in inp.items() if k != "dtype"}
        n, p = len(t["samples"]), len(t["variants"])
        for i in range(n):
            yield dict(inp, table=dict(t, samples=t["samples"][:i] + t["samples"][i + 1:], rows=t["rows"][:i] + t["rows"][i + 1:],
                                       anc=None if t["anc"] is None else t["anc"][:i] + t["anc"][i + 1:]))
        for j in range(p):
            yield dict(inp, table=dict(t, variants=t["variants"][:j] + t["variants"][j + 1:],
                                       rows=[r[:j] + r[j + 1:] for r in t["rows"]],
                                       anc=None if t["anc"] is None else [r[:j] + r[j + 1:] for r in t["anc"]]))
        for i in range(n):
            for j in range(p):
                if t["rows"][i][j] != [0, 0, 1 if t["planes"] == 3 else 0]:
                    rows = [[list(c) for c in r] for r in t["rows"]]
                    rows[i][j] = [0, 0, 1 if t["planes"] == 3 else 0]
                    yield dict(inp, table=dict(t, rows=rows))
        for j, op in enumerate(ops):
            if op.get("discard"):
                yield dict(inp, ops=ops[:j] + [dict(op, discard=False)] + ops[j + 1:])

    def mutate(self, inp, rng):
        if "wide" in inp:
            for _ in range(6):
                yield dict(inp, wide=W.gen_wide_spec(rng, inp["wide"]["shape"], inp["wide"]["planes"]))
            return
        t = inp["table"]
        inp = {k: v for k, v in inp.items() if k != "dtype"}
        n, p = len(t["samples"]), len(t["variants"])
        if not n or not p:
            return
        for _ in range(12):
            rows = [[list(c) for c in r] for r in t["rows"]]
            i, j = int(rng.integers(0, n)), int(rng.integers(0, p))
            rows[i][j] = [[1, 2, 0], [0, 255, 0], [255, 255, 0], [2, 2, 1], [0, 1, 0], [1, 254, 0]][int(rng.integers(0, 6))]
            if t["planes"] == 2:
                rows[i][j][2] = 0
            yield dict(inp, table=dict(t, rows=rows))
        # the same ID on two variants / two samples, no ID at all
        for _ in range(6):
            vs = [list(v) for v in t["variants"]]
            ss = list(t["samples"])
            r = int(rng.integers(0, 3))
            if r == 0 and p >= 2:
                j1, j2 = [int(x) for x in rng.permutation(p)[:2]]
                vs[j2][0] = vs[j1][0]
            elif r == 1:
                for v in vs:
                    v[0] = -1
            elif n >= 2:
                i1, i2 = [int(x) for x in rng.permutation(n)[:2]]
                ss[i2] = ss[i1]
            yield dict(inp, table=dict(t, variants=vs, samples=ss))

    def signature(self, inp, obs):
        return f"qc {'ancestry' if inp['cls'] == 'GenotypesAncestry' else 'plain'}: " + describe(inp, obs)


# ---------------------------------------------------------------------------
# the default loader


def write_vcf(path, samples, variants, rows, phased_plane=True):
    """bgzipped + tabix-indexed VCF; rows[i][j] = [a, b, phased] with 255 = '.'"""
    import pysam

    plain = path[:-3]
    nalt = 1
    for r in rows:
        for c in r:
            for x in c[:2]:
                if x < 254:
                    nalt = max(nalt, x)
    alts = ",".join(["T", "G", "C", "TT", "GG", "CC", "TTT"][:nalt])
    with open(plain, "w") as f:
        f.write("##fileformat=VCFv4.2\n")
        for ch in sorted({v[1] for v in variants}):
            f.write(f"##contig=<ID={ch}>\n")
        f.write('##FORMAT=<ID=GT,Number=1,Type=String,Description="Genotype">\n')
        f.write("#CHROM\tPOS\tID\tREF\tALT\tQUAL\tFILTER\tINFO\tFORMAT\t" + "\t".join(f"s{s}" for s in samples) + "\n")
        for j, v in enumerate(variants):
            gts = []
            for i in range(len(samples)):
                a, b, ph = rows[i][j]
                sa = "." if a >= 254 else str(a)
                sb = "." if b >= 254 else str(b)
                gts.append(sa + ("|" if ph else "/") + sb)
            f.write(f"{v[1]}\t{v[2]}\t{vname(v[0])}\tA\t{alts}\t.\t.\t.\tGT\t" + "\t".join(gts) + "\n")
    pysam.tabix_compress(plain, path, force=True)
    pysam.tabix_index(path, preset="vcf", force=True)
    os.remove(plain)


def write_anc_vcf(path, t, pops=("A", "B", "C")):
    """bgzipped + tabix-indexed VCF with FORMAT GT:POP (what GenotypesAncestry reads); 255/254 = '.'"""
    import pysam

    plain = path[:-3]
    with open(plain, "w") as f:
        f.write("##fileformat=VCFv4.2\n")
        for ch in sorted({v[1] for v in t["variants"]}):
            f.write(f"##contig=<ID={ch}>\n")
        f.write('##FORMAT=<ID=GT,Number=1,Type=String,Description="Genotype">\n')
        f.write('##FORMAT=<ID=POP,Number=2,Type=String,Description="pops">\n')
        f.write("#CHROM\tPOS\tID\tREF\tALT\tQUAL\tFILTER\tINFO\tFORMAT\t" + "\t".join(f"s{s}" for s in t["samples"]) + "\n")
        for j, v in enumerate(t["variants"]):
            cells = []
            for i in range(len(t["samples"])):
                a, b, ph = t["rows"][i][j]
                x, y = t["anc"][i][j]
                sa = "." if a >= 254 else str(a)
                sb = "." if b >= 254 else str(b)
                cells.append(f"{sa}{'|' if ph else '/'}{sb}:{pops[x]},{pops[y]}")
            f.write(f"{v[1]}\t{v[2]}\t{vname(v[0])}\tA\tT,G,C\t.\t.\t.\tGT:POP\t" + "\t".join(cells) + "\n")
    pysam.tabix_compress(plain, path, force=True)
    pysam.tabix_index(path, preset="vcf", force=True)
    os.remove(plain)


LOADERS = ["Genotypes", "GenotypesVCF", "GenotypesPLINK", "GenotypesAncestry", "GenotypesTR", "GenotypesPLINKTR"]
TR_LOADERS = ("GenotypesTR", "GenotypesPLINKTR")


def loader_term(cls):
    return "LdTR" if cls in TR_LOADERS else ("LdAnc" if cls == "GenotypesAncestry" else "LdPlain")


class Load(Relation):
    """cls.load(file) for all six classes with a loader: Genotypes / GenotypesVCF / GenotypesAncestry from a VCF.gz,
    GenotypesPLINK from a PGEN written with pgenlib, GenotypesTR from a HipSTR-style VCF.gz, GenotypesPLINKTR from a
    PGEN whose .pvar carries the repeat annotations.  Compared with the model of what each loader runs on the table a
    bare read() of the same file delivers."""
    name = "load"
    coq_module = "C13_CheckW"
    coq_check = "check_loadw"
    coq_case_type = "lwcase"
    coq_model = "model_loadw"
    coq_imports = W_IMPORTS
    budget = {"quick": 220, "thorough": 4000}
    max_cases_per_shard = 60
    max_chars_per_shard = 25_000
    anchors = [("haptools/data/genotypes.py", "Genotypes.load"), ("haptools/data/genotypes.py", "Genotypes.read"),
               ("haptools/data/genotypes.py", "GenotypesTR.load"), ("haptools/data/genotypes.py", "GenotypesPLINKTR.load"),
               ("haptools/data/genotypes.py", "GenotypesPLINK.read"), ("haptools/data/genotypes.py", "GenotypesPLINKTR.read")]

    def preamble(self):
        return "From Coq Require Import QArith PrimFloat.\nOpen Scope Z_scope."

    def gen_one(self, rng, cls, wide=None):
        r = rng.random()
        if r < 0.35:
            fl_ = {"density": "clean", "kinds": ALL_KINDS}
        else:
            kinds = [["miss2", "miss1"], ["multi", "multi2"], ["unph01", "unph12", "unphhom"], ALL_KINDS][int(rng.integers(0, 4))]
            kinds = [k for k in kinds if k != "m254"]
            if cls in TR_LOADERS:
                # what matters to a repeat loader: unphased heterozygotes (and that missing calls pass)
                kinds = [["unph01", "unph12", "unphhom"], ["miss2"], ["unph01", "unph12", "miss2", "unphhom"]][int(rng.integers(0, 3))]
            fl_ = {"density": "few" if rng.random() < 0.8 else "many", "kinds": kinds}
        fl_["unsorted"] = False
        fl_.update(gen_ids(rng), sdup=False)   # a VCF header cannot name a sample twice
        while True:
            t = gen_table(rng, "GenotypesVCF", fl_)
            if t["samples"] and t["variants"]:
                break
        if wide:
            # width boundary: 128 / 255 / 256 / 257 samples (sample-major buffers, uint8 / int32 index arrays)
            n = wide
            p = int(rng.integers(1, 3))
            t["samples"] = list(range(n))
            t["variants"] = t["variants"][:p] if len(t["variants"]) >= p else [[j, 1, 10 + j] for j in range(p)]
            p = len(t["variants"])
            t["rows"] = [[[int(i * (j + 2) // 3) % 2, int(i // (j + 1)) % 2, 1] for j in range(p)] for i in range(n)]
            for _ in range(int(rng.choice([0, 1, 1, 2]))):
                i = int(rng.choice([0, 126, 127, 128, 254, 255, 256, n - 1])) % n
                t["rows"][i][int(rng.integers(0, p))] = [list(c) for c in ([255, 255, 0], [0, 1, 0], [1, 0, 0], [2, 1, 1], [1, 2, 0])][int(rng.integers(0, 5))]
        # one chromosome, strictly increasing positions (tabix needs a sorted file)
        t["variants"] = [[v[0], 1, 10 + 300 * j] for j, v in enumerate(t["variants"])]
        t["planes"] = 3
        case = {"cls": cls, "table": t, "kind": ("wide-" if wide else "") + fl_["density"]}
        if cls in TR_LOADERS:
            case["tr"] = W.gen_tr(rng, len(t["variants"]))
        for j in range(len(t["variants"])):
            top = len(case["tr"][j]["alt_ns"]) if cls in TR_LOADERS else 3   # ALT alleles the file declares
            for r_ in t["rows"]:
                c = r_[j]
                if cls in TR_LOADERS or cls == "GenotypesPLINK":
                    if c[0] >= 254 or c[1] >= 254:
                        c[0], c[1], c[2] = 255, 255, 0   # a call is missing as a whole (PGEN; ./. in the repeat VCFs)
                if c[0] >= 254 and c[1] >= 254:
                    c[2] = 0  # cyvcf2 reports ./. as unphased
                for q in (0, 1):
                    if top < c[q] < 254:
                        c[q] = top
        if cls == "GenotypesAncestry":
            t["anc"] = [[[int(rng.integers(0, 3)), int(rng.integers(0, 3))] for _ in t["variants"]] for _ in t["samples"]]
        return case

    def generate(self, rng, n, tier):
        out = []
        for i in range(n):
            cls = LOADERS[int(rng.integers(0, len(LOADERS)))]
            out.append(self.gen_one(rng, cls))
        nw = 2 if tier == "quick" else 12
        for k in range(nw):
            cls = LOADERS[int(rng.integers(0, len(LOADERS)))]
            out.insert(min(len(out), 1 + k), self.gen_one(rng, cls, wide=int(rng.choice([128, 255, 256, 257]))))
        return out

    def exhaustive(self, tier):
        # one sample, one variant, every call of a small alphabet, every loader
        out = []
        for cls in LOADERS:
            for c in ([0, 0, 1], [0, 1, 1], [0, 1, 0], [1, 0, 0], [1, 1, 0], [1, 2, 0], [2, 1, 1], [2, 2, 0], [255, 255, 0], [0, 255, 0]):
                if c[1] == 255 and c[0] != 255 and cls in TR_LOADERS + ("GenotypesPLINK",):
                    continue
                t = {"samples": [4], "variants": [[6, 1, 10]], "rows": [[list(c)]], "planes": 3,
                     "anc": [[[1, 2]]] if cls == "GenotypesAncestry" else None}
                case = {"cls": cls, "table": t, "kind": "exhaustive"}
                if cls in TR_LOADERS:
                    case["tr"] = [{"motif": "AC", "ref_n": 3, "alt_ns": [2, 5]}]
                out.append(case)
        return out

    def run_impl(self, inp):
        import logging
        import warnings

        from haptools import data as hd

        warnings.simplefilter("ignore")
        logging.disable(logging.CRITICAL)
        d = tempfile.mkdtemp(prefix="hv_c13_")
        try:
            t = inp["table"]
            name = inp["cls"]
            is_anc = name == "GenotypesAncestry"
            if is_anc:
                from haptools.transform import GenotypesAncestry as cls

                path = os.path.join(d, "in.vcf.gz")
                write_anc_vcf(path, t)
            elif name == "GenotypesPLINK":
                path = os.path.join(d, "in.pgen")
                write_pgen(path, t)
                cls = hd.GenotypesPLINK
            elif name == "GenotypesTR":
                path = os.path.join(d, "in.vcf.gz")
                W.write_tr_vcf(path, t, inp["tr"])
                cls = hd.GenotypesTR
            elif name == "GenotypesPLINKTR":
                path = os.path.join(d, "in.pgen")
                W.write_tr_pgen(path, t, inp["tr"])
                cls = hd.GenotypesPLINKTR
            else:
                path = os.path.join(d, "in.vcf.gz")
                write_vcf(path, t["samples"], t["variants"], t["rows"])
                cls = getattr(hd, name)
            # what a bare read() returns (the table the checks start from)
            try:
                g0 = cls(path)
                g0.read()
                raw = observe_state(g0, is_anc)
            except Exception as e:  # noqa
                return {"raw": None, "out": {"other": err_kind(e), "msg": f"read(): {type(e).__name__}: {e}"[:200]}}
            try:
                g = cls.load(path)
                return {"raw": raw, "out": {"state": observe_state(g, is_anc), "bool": bool(np.asarray(g.data).dtype == np.bool_)}}
            except ValueError as e:
                m = RX_CELL.match(str(e))
                if m:
                    return {"raw": raw, "out": {"raise": [int(m.group(5)), vparse(m.group(1))], "what": m.group(4)}}
                return {"raw": raw, "out": {"other": 1, "msg": str(e)[:200]}}
            except Exception as e:  # noqa
                return {"raw": raw, "out": {"other": err_kind(e), "msg": str(e)[:200]}}
        finally:
            shutil.rmtree(d, ignore_errors=True)

    def encode(self, inp, obs):
        sh = SharedC()
        ld = loader_term(inp["cls"])
        cid = LOADERS.index(inp["cls"])
        if not isinstance(obs, dict) or "raw" not in obs:
            k = obs.get("kind", 99) if isinstance(obs, dict) else 99
            return sh.wrap(f"mklw {ld} {cid} {sh(inp['table'])} {sh(inp['table'])} (OOther {L.z(k)}) false")
        o = obs["out"]
        if obs["raw"] is None:
            return sh.wrap(f"mklw {ld} {cid} {sh(inp['table'])} {sh(inp['table'])} (OOther {L.z(o['other'])}) false")
        if "state" in o:
            ot = f"(ORet {sh(o['state'])} [])"
        elif "raise" in o:
            ot = f"(ORaise {optz(o['raise'][0])} {optz(o['raise'][1])} {sh(obs['raw'])})"
        else:
            ot = f"(OOther {L.z(o['other'])})"
        return sh.wrap(f"mklw {ld} {cid} {sh(inp['table'])} {sh(obs['raw'])} {ot} {L.b(o.get('bool', False))}")

    def nontrivial(self, inp, obs):
        return isinstance(obs, dict) and "out" in obs and ("raise" in obs["out"] or "state" in obs["out"])

    def classes(self, inp, obs):
        out = [inp["cls"], f"density={inp['kind']}", f"n={len(inp['table']['samples'])}" if len(inp["table"]["samples"]) > 100 else "n<=5"]
        out += id_classes(inp["table"])
        if isinstance(obs, dict) and "out" in obs:
            o = obs["out"]
            res = "raised:" + o.get("what", "?") if "raise" in o else ("loaded" if "state" in o else f"other{o.get('other')}")
            out += [res, f"{inp['cls']}:{res}"]
            if "state" in o and obs.get("raw") and offenders(obs["raw"], "missing", False):
                out.append(f"{inp['cls']}:loaded-with-missing-calls")
        return out

    def shrink(self, inp):
        t = inp["table"]
        n, p = len(t["samples"]), len(t["variants"])
        anc = t.get("anc")
        tr = inp.get("tr")
        if n > 1:
            for i in (range(n) if n <= 12 else [0, n - 1]):
                yield dict(inp, table=dict(t, samples=t["samples"][:i] + t["samples"][i + 1:], rows=t["rows"][:i] + t["rows"][i + 1:],
                                           anc=None if anc is None else anc[:i] + anc[i + 1:]))
            if n > 12:
                h = n // 2
                yield dict(inp, table=dict(t, samples=t["samples"][:h], rows=t["rows"][:h], anc=None if anc is None else anc[:h]))
                yield dict(inp, table=dict(t, samples=t["samples"][h:], rows=t["rows"][h:], anc=None if anc is None else anc[h:]))
        if p > 1:
            for j in range(p):
                c = dict(inp, table=dict(t, variants=t["variants"][:j] + t["variants"][j + 1:],
                                         rows=[r[:j] + r[j + 1:] for r in t["rows"]],
                                         anc=None if anc is None else [r[:j] + r[j + 1:] for r in anc]))
                if tr is not None:
                    c["tr"] = tr[:j] + tr[j + 1:]
                yield c
        if n * p <= 64:
            for i in range(n):
                for j in range(p):
                    if t["rows"][i][j] != [0, 0, 1]:
                        rows = [[list(c) for c in r] for r in t["rows"]]
                        rows[i][j] = [0, 0, 1]
                        yield dict(inp, table=dict(t, rows=rows))

    def mutate(self, inp, rng):
        t = inp["table"]
        n, p = len(t["samples"]), len(t["variants"])
        for _ in range(10):
            rows = [[list(c) for c in r] for r in t["rows"]]
            i, j = int(rng.integers(0, n)), int(rng.integers(0, p))
            pool = [[1, 2, 0], [0, 255, 0], [255, 255, 0], [2, 2, 1], [0, 1, 0]]
            if inp["cls"] in TR_LOADERS + ("GenotypesPLINK",):
                pool = [[0, 1, 0], [1, 0, 0], [255, 255, 0], [1, 1, 0], [0, 1, 1]]
            rows[i][j] = pool[int(rng.integers(0, len(pool)))]
            yield dict(inp, table=dict(t, rows=rows))

    def signature(self, inp, obs):
        if isinstance(obs, dict) and "out" in obs:
            o = obs["out"]
            t = obs["raw"]
            kind = {"LdAnc": "ancestry", "LdPlain": "plain", "LdTR": "repeat"}[loader_term(inp["cls"])]
            if inp["cls"] in ("GenotypesPLINK", "GenotypesPLINKTR"):
                kind += " (PGEN)"
            if "other" in o:
                return f"load {kind}: raises exception kind {o['other']} instead of a ValueError naming the offending call"
            if "state" in o:
                for k in (("phase",) if inp["cls"] in TR_LOADERS else ("missing", "biallelic", "phase")):
                    off = offenders(t, k, False)
                    if off:
                        extra = " (heterozygote of two non-reference alleles)" if k == "phase" and all(c[0] and c[1] for _, _, c in off) else ""
                        return f"load {kind} returns data that fails check_{k}{extra}"
            return f"load {kind}: outcome differs from the checks the loader runs"
        return "load harness-level failure"


# ---------------------------------------------------------------------------
# histories on one object that reads real files


def write_pgen(path, t):
    """PGEN + PVAR + PSAM written with pgenlib itself (not through haptools)"""
    import pgenlib

    base = path[:-5]
    with open(base + ".psam", "w") as f:
        f.write("#IID\n")
        for x in t["samples"]:
            f.write(f"s{x}\n")
    nalt = 1
    for r in t["rows"]:
        for c in r:
            for x in c[:2]:
                if x < 254:
                    nalt = max(nalt, x)
    alts = ",".join(["T", "G", "C", "TT", "GG", "CC", "TTT"][:nalt])
    with open(base + ".pvar", "w") as f:
        f.write("#CHROM\tPOS\tID\tREF\tALT\n")
        for v in t["variants"]:
            f.write(f"{v[1]}\t{v[2]}\t{vname(v[0])}\tA\t{alts}\n")
    n, p = len(t["samples"]), len(t["variants"])
    with pgenlib.PgenWriter(filename=bytes(path, "utf8"), sample_ct=n, variant_ct=p, allele_ct_limit=nalt + 1,
                            nonref_flags=False, hardcall_phase_present=True) as w:
        for j in range(p):
            al = np.empty((1, 2 * n), dtype=np.int32)
            ph = np.zeros((1, n), dtype=np.uint8)
            for i in range(n):
                a, b, q = t["rows"][i][j]
                al[0, 2 * i] = -9 if a >= 254 else a
                al[0, 2 * i + 1] = -9 if b >= 254 else b
                ph[0, i] = 1 if (q and a != b and a < 254 and b < 254) else 0
            w.append_partially_phased_batch(al, ph, allele_cts=np.array([nalt + 1], dtype=np.uint32))


def write_vcf_plain(path, t, anc):
    """bgzipped VCF (FORMAT GT or GT:POP), not indexed: read() without a region needs no index"""
    import pysam

    plain = path[:-3]
    with open(plain, "w") as f:
        f.write("##fileformat=VCFv4.2\n")
        for ch in sorted({v[1] for v in t["variants"]}):
            f.write(f"##contig=<ID={ch}>\n")
        f.write('##FORMAT=<ID=GT,Number=1,Type=String,Description="Genotype">\n')
        if anc:
            f.write('##FORMAT=<ID=POP,Number=2,Type=String,Description="pops">\n')
        f.write("#CHROM\tPOS\tID\tREF\tALT\tQUAL\tFILTER\tINFO\tFORMAT\t" + "\t".join(f"s{x}" for x in t["samples"]) + "\n")
        for j, v in enumerate(t["variants"]):
            cells = []
            for i in range(len(t["samples"])):
                a, b, ph = t["rows"][i][j]
                sa = "." if a >= 254 else str(a)
                sb = "." if b >= 254 else str(b)
                c = sa + ("|" if ph else "/") + sb
                if anc:
                    x, y = t["anc"][i][j]
                    c += f":{POPS[x]},{POPS[y]}"
                cells.append(c)
            f.write(f"{v[1]}\t{v[2]}\t{vname(v[0])}\tA\tT,G,C\t.\t.\t.\t{'GT:POP' if anc else 'GT'}\t" + "\t".join(cells) + "\n")
    pysam.tabix_compress(plain, path, force=True)
    os.remove(plain)


def norm_file_table(cls, t):
    """The table as the file format can hold it and as read() delivers it (in place).
    VCF: alleles 0..3 or '.', the phase flag is the separator.  PGEN: a call is missing as a whole, the phase
    flag exists for heterozygotes only (homozygotes read back with the flag set, missing calls without),
    an unphased heterozygote is stored unordered (reads back smaller allele first)."""
    t["planes"] = 3
    for r in t["rows"]:
        for c in r:
            for q in (0, 1):
                if c[q] == 254:
                    c[q] = 255
                elif 3 < c[q] < 254:
                    c[q] = 3
            c[2] = 1 if c[2] else 0
            if cls == "GenotypesPLINK":
                if c[0] >= 254 or c[1] >= 254:
                    c[0], c[1], c[2] = 255, 255, 0
                elif c[0] == c[1]:
                    c[2] = 1
                elif not c[2]:
                    c[0], c[1] = min(c[0], c[1]), max(c[0], c[1])
    if cls != "GenotypesPLINK":
        # a VCF header cannot name a sample twice
        seen = set()
        for i, x in enumerate(t["samples"]):
            while x in seen:
                x = (x + 1) % 12
            seen.add(x)
            t["samples"][i] = x
    if cls == "GenotypesAncestry" and t.get("anc") is None:
        t["anc"] = [[[0, 0] for _ in t["variants"]] for _ in t["samples"]]
    return t


def py_read_sel(f, ss, vs):
    """python twin of C13_Model.read_sel (for class labels and failure descriptions only)"""
    km = [ss is None or x in ss for x in f["samples"]]
    kv = [vs is None or v[0] in vs for v in f["variants"]]
    sel = lambda r: [c for c, k in zip(r, kv) if k]
    return {"samples": [x for x, k in zip(f["samples"], km) if k], "variants": sel(f["variants"]),
            "rows": [sel(r) for r, k in zip(f["rows"], km) if k], "planes": f["planes"],
            "anc": None if f.get("anc") is None else [sel(r) for r, k in zip(f["anc"], km) if k]}


def step_term(st):
    if "read" in st:
        ss = "None" if st.get("samples") is None else f"(Some {L.zl(st['samples'])})"
        vs = "None" if st.get("variants") is None else f"(Some {L.zl(st['variants'])})"
        return f"FRead {st['read']}%nat {ss} {vs}"
    return f"FCheck ({op_term(st)})"


def gen_file_table(rng, cls, want=None):
    """want: None | 'clean' | 'unphased-het' | 'missing' | 'multi' | 'rare'"""
    kinds = {"clean": None, "unphased-het": ["unph01", "unph12"], "missing": ["miss2", "miss1"], "multi": ["multi", "multi2"],
             "rare": None, None: [k for k in ALL_KINDS if k != "m254"]}[want]
    if kinds is None:
        fl_ = {"density": "clean", "kinds": ALL_KINDS}
    else:
        fl_ = {"density": "few" if (want or rng.random() < 0.8) else "many", "kinds": kinds}
    fl_["unsorted"] = bool(rng.random() < 0.15)
    fl_.update(gen_ids(rng))
    while True:
        t = gen_table(rng, cls, fl_)
        if 1 <= len(t["samples"]) <= 4 and 1 <= len(t["variants"]) <= 5:
            break
    t["planes"] = 3
    if want in ("clean", "rare", "missing", "multi"):
        # nothing for check_phase to complain about: every heterozygote phased
        for r in t["rows"]:
            for c in r:
                if c[0] != c[1]:
                    c[2] = 1
    if want == "rare":
        j = int(rng.integers(0, len(t["variants"])))
        for r in t["rows"]:
            r[j] = [0, 0, 1]
    if want is None and rng.random() < 0.25:
        target_dup(rng, t)
    return norm_file_table(cls, t)


def gen_read(rng, files, k=None):
    k = int(rng.integers(0, len(files))) if k is None else k
    f = files[k]
    st = {"read": k, "samples": None, "variants": None}
    r = rng.random()
    vids = [v[0] for v in f["variants"]]
    once = [x for x in set(vids) if vids.count(x) == 1 and x >= 0]   # a record without ID cannot be asked for
    if r < 0.25 and once:
        # some of the variants, by ID (only IDs that occur once; now and then one that is not in the file)
        m = int(rng.integers(1, len(once) + 1))
        st["variants"] = sorted(int(x) for x in rng.permutation(once)[:m]) + ([99] if rng.random() < 0.2 else [])
    elif r < 0.4:
        sids = sorted(set(f["samples"]))
        m = int(rng.integers(1, len(sids) + 1))
        st["samples"] = sorted(int(x) for x in rng.permutation(sids)[:m])
    return st


def gen_check(rng, n, kind=None, discard=None):
    kind = kind or ["missing", "biallelic", "phase", "phase", "maf", "maf", "sorted"][int(rng.integers(0, 7))]
    if kind == "maf":
        g = _grid(rng, n)
        op = {"op": "maf", "thr": g[int(rng.integers(0, len(g)))], "discard": bool(rng.random() < 0.5), "warn": bool(rng.random() < 0.25)}
    elif kind in ("missing", "biallelic"):
        op = {"op": kind, "discard": bool(rng.random() < 0.5)}
    else:
        op = {"op": kind}
    if discard is not None and "discard" in op:
        op["discard"] = discard
    return op


class Files(Relation):
    name = "files"
    coq_module = "C13_CheckW"
    coq_check = "check_wfiles"
    coq_case_type = "wfcase"
    coq_model = "model_wfiles"
    coq_imports = W_IMPORTS
    budget = {"quick": 260, "thorough": 5000}
    max_cases_per_shard = 40
    max_chars_per_shard = 30_000
    anchors = [("haptools/data/genotypes.py", "Genotypes.read"), ("haptools/data/genotypes.py", "Genotypes.check_phase"),
               ("haptools/data/genotypes.py", "Genotypes.check_missing"), ("haptools/data/genotypes.py", "Genotypes.check_biallelic"),
               ("haptools/data/genotypes.py", "Genotypes.check_maf")]

    def preamble(self):
        return "From Coq Require Import QArith PrimFloat.\nOpen Scope Z_scope."

    # ---- histories ------------------------------------------------------------
    def boundary(self, rng, cls):
        """read, check_phase (passes and strips), read again - a file holding an unphased heterozygote -,
        check_phase: the second verdict is about the second file"""
        f0 = gen_file_table(rng, cls, "clean")
        f1 = gen_file_table(rng, cls, "unphased-het")
        return [f0, f1], [{"read": 0, "samples": None, "variants": None}, {"op": "phase"},
                          {"read": 1, "samples": None, "variants": None}, {"op": "phase"}]

    def history(self, rng, cls, style):
        if style == "boundary":
            return self.boundary(rng, cls)
        if style == "reread":
            # a discarding (or stripping) check, the same file read again, the same check again: the offenders are back
            want = ["missing", "multi", "rare", "unphased-het", None][int(rng.integers(0, 5))]
            f0 = gen_file_table(rng, cls, want)
            kind = {"missing": "missing", "multi": "biallelic", "rare": "maf", "unphased-het": "phase"}.get(want)
            n = len(f0["samples"])
            c1 = gen_check(rng, n, kind, discard=True)
            if c1["op"] == "maf":
                c1.update(thr=[0.5, 0.25, 1e-12][int(rng.integers(0, 3))], warn=False)
            c2 = dict(c1, discard=bool(rng.random() < 0.5)) if "discard" in c1 else dict(c1)
            steps = [gen_read(rng, [f0], 0), c1, gen_read(rng, [f0], 0), c2]
            if rng.random() < 0.5:
                steps.insert(1, {"op": "phase"})
                steps.append({"op": "phase"})
            return [f0], steps
        if style == "pieces":
            # one file processed piece by piece with one object
            while True:
                f0 = gen_file_table(rng, cls, None)
                vids = [v[0] for v in f0["variants"]]
                once = [x for x in set(vids) if vids.count(x) == 1 and x >= 0]
                if len(once) >= 2:
                    break
            once = [int(x) for x in rng.permutation(once)]
            cut = int(rng.integers(1, len(once)))
            steps = []
            for piece in (once[:cut], once[cut:]):
                steps.append({"read": 0, "samples": None, "variants": sorted(piece)})
                for _ in range(int(rng.integers(1, 4))):
                    steps.append(gen_check(rng, len(f0["samples"])))
            return [f0], steps[:8]
        if style == "loaders":
            files = [gen_file_table(rng, cls, None) for _ in range(2)]
            steps = []
            for k in (0, 1):
                steps += [{"read": k, "samples": None, "variants": None}, {"op": "missing", "discard": bool(rng.random() < 0.5)},
                          {"op": "biallelic", "discard": bool(rng.random() < 0.5)}, {"op": "phase"}]
            return files, steps
        # free: anything, starting with a read
        files = [gen_file_table(rng, cls, [None, None, "clean", "unphased-het"][int(rng.integers(0, 4))])
                 for _ in range(int(rng.integers(1, 3)))]
        steps = [gen_read(rng, files)]
        for _ in range(int(rng.integers(0, 8))):
            if rng.random() < 0.3:
                steps.append(gen_read(rng, files))
            else:
                steps.append(gen_check(rng, max(len(f["samples"]) for f in files)))
        return files, steps

    def generate(self, rng, n, tier):
        out = []
        styles = ["boundary", "reread", "reread", "pieces", "loaders", "free", "free", "free"]
        for i in range(n):
            cls = CLASSES[int(rng.integers(0, 4))]
            style = styles[int(rng.integers(0, len(styles)))]
            files, steps = self.history(rng, cls, style)
            out.append({"cls": cls, "files": files, "steps": steps, "kind": style})
        return out

    # ---- implementation ---------------------------------------------------------
    def run_impl(self, inp):
        import warnings

        from haptools import data as hd

        warnings.simplefilter("ignore")
        d = tempfile.mkdtemp(prefix="hv_c13f_")
        try:
            cls_name = inp["cls"]
            is_anc = cls_name == "GenotypesAncestry"
            paths = []
            for k, t in enumerate(inp["files"]):
                if cls_name == "GenotypesPLINK":
                    path = os.path.join(d, f"f{k}.pgen")
                    write_pgen(path, t)
                else:
                    path = os.path.join(d, f"f{k}.vcf.gz")
                    write_vcf_plain(path, t, is_anc)
                paths.append(path)
            if is_anc:
                from haptools.transform import GenotypesAncestry as cls
            else:
                cls = getattr(hd, cls_name)
            from pathlib import Path

            g = None
            steps = []
            for st in inp["steps"]:
                if "read" in st:
                    try:
                        if g is None:
                            log, cap = W.make_log()   # the object's log records are kept (check_maf's warning)
                            g = cls(Path(paths[st["read"]]), log=log)
                            g._hv_cap = cap
                        else:
                            g.fname = Path(paths[st["read"]])   # the same object reads another (or the same) file
                        kw = {}
                        if st.get("samples") is not None:
                            kw["samples"] = {f"s{x}" for x in st["samples"]}
                        if st.get("variants") is not None:
                            kw["variants"] = {vname(x) for x in st["variants"]}
                        g.read(**kw)
                        o = {"state": observe_state(g, is_anc, decode=True), "bool": bool(np.asarray(g.data).dtype == np.bool_)}
                        if "shape_mismatch" in o["state"]:
                            o = {"other": 98, "msg": f"arrays out of step after read: {o['state']['shape_mismatch']}"}
                    except Exception as e:  # noqa
                        o = {"other": err_kind(e), "msg": f"read(): {type(e).__name__}: {e}"[:200]}
                else:
                    o = run_check_op(g, st, is_anc, decode=True)
                steps.append(o)
                if "other" in o:
                    break
            return {"steps": steps}
        finally:
            shutil.rmtree(d, ignore_errors=True)

    def encode(self, inp, obs):
        sh = SharedC()
        anc = L.b(inp["cls"] == "GenotypesAncestry")
        files = L.lst([sh(t) for t in inp["files"]])
        if not isinstance(obs, dict) or "steps" not in obs:
            k = obs.get("kind", 99) if isinstance(obs, dict) else 99
            return sh.wrap(f"mkwf {anc} {files} [({step_term(inp['steps'][0])}, mkw (OOther {L.z(k)}) false [])]")
        parts = [f"({step_term(st)}, {wobs_term(o, sh)})" for st, o in zip(inp["steps"], obs["steps"])]
        return sh.wrap(f"mkwf {anc} {files} {L.lst(parts)}")

    # ---- bookkeeping --------------------------------------------------------------
    def walk(self, inp, obs):
        """(step, expected contents before it, observation) for every observed step"""
        cur = None
        if not isinstance(obs, dict) or "steps" not in obs:
            return
        for st, o in zip(inp["steps"], obs["steps"]):
            yield st, cur, o
            if "read" in st:
                cur = py_read_sel(inp["files"][st["read"]], st.get("samples"), st.get("variants"))
            elif "state" in o:
                cur = o["state"]

    def nontrivial(self, inp, obs):
        for st, cur, o in self.walk(inp, obs):
            if "read" not in st and ("raise" in o or ("state" in o and o["state"] != cur)):
                return True
        return False

    def classes(self, inp, obs):
        out = [inp["cls"], f"history={inp['kind']}", f"steps={len(inp['steps'])}", f"files={len(inp['files'])}"]
        for f in inp["files"]:
            out += id_classes(f)
        nread = 0
        isb = False
        for st, cur, o in self.walk(inp, obs):
            if "read" in st:
                nread += 1
                if isb and "state" in o:
                    out.append("read-after-bool-cast")
                isb = False
                tag = "read" + ("-again" if nread > 1 else "") + ("-some-variants" if st.get("variants") is not None else "") \
                    + ("-some-samples" if st.get("samples") is not None else "")
                out.append(f"{tag}:{'other' + str(o['other']) if 'other' in o else 'ok'}")
                continue
            tag = st["op"] + ("+discard" if st.get("discard") else "") + ("@reread" if nread > 1 else "")
            if isb and "other" not in o:
                out.append(f"{st['op']}:on-bool-data")
            isb = o.get("bool", isb)
            if st["op"] == "maf" and st.get("warn") and not st.get("discard") and st.get("thr") is not None and "state" in o:
                out.append("maf-warn-only:" + ("warned" if o.get("warn") else "silent"))
            if "raise" in o:
                out.append(f"{tag}:raised")
            elif "other" in o:
                out.append(f"{tag}:other{o['other']}")
            else:
                out.append(f"{tag}:{'changed' if o['state'] != cur else 'unchanged'}")
                if cur is not None:
                    out += discard_hits_twin(cur, o["state"])
        return sorted(set(out))

    def shrink(self, inp):
        steps, files = inp["steps"], inp["files"]
        for j in range(len(steps) - 1, 0, -1):
            yield dict(inp, steps=steps[:j] + steps[j + 1:])
        for j, st in enumerate(steps):
            if "read" in st and (st.get("samples") is not None or st.get("variants") is not None):
                yield dict(inp, steps=steps[:j] + [{"read": st["read"], "samples": None, "variants": None}] + steps[j + 1:])
            if st.get("discard"):
                yield dict(inp, steps=steps[:j] + [dict(st, discard=False)] + steps[j + 1:])
        if len(files) > 1:
            used = sorted({st["read"] for st in steps if "read" in st})
            if len(used) < len(files):
                ren = {k: i for i, k in enumerate(used)}
                yield dict(inp, files=[files[k] for k in used],
                           steps=[dict(st, read=ren[st["read"]]) if "read" in st else st for st in steps])
        for k, t in enumerate(files):
            n, p = len(t["samples"]), len(t["variants"])
            anc = t.get("anc")
            put = lambda t2: dict(inp, files=files[:k] + [t2] + files[k + 1:])
            if n > 1:
                for i in range(n):
                    yield put(dict(t, samples=t["samples"][:i] + t["samples"][i + 1:], rows=t["rows"][:i] + t["rows"][i + 1:],
                                   anc=None if anc is None else anc[:i] + anc[i + 1:]))
            if p > 1:
                for j in range(p):
                    yield put(dict(t, variants=t["variants"][:j] + t["variants"][j + 1:], rows=[r[:j] + r[j + 1:] for r in t["rows"]],
                                   anc=None if anc is None else [r[:j] + r[j + 1:] for r in anc]))
            for i in range(n):
                for j in range(p):
                    if t["rows"][i][j] != [0, 0, 1]:
                        rows = [[list(c) for c in r] for r in t["rows"]]
                        rows[i][j] = [0, 0, 1]
                        yield put(dict(t, rows=rows))

    def mutate(self, inp, rng):
        cls = inp["cls"]
        # the boundary history first: read, check_phase, read (unphased heterozygote), check_phase
        for _ in range(6):
            files, steps = self.boundary(rng, cls)
            yield dict(inp, files=files, steps=steps, kind="boundary")
        # the same history again on the same object: every read and check repeated after the last step
        if len(inp["steps"]) <= 4:
            yield dict(inp, steps=inp["steps"] + inp["steps"])
        # a check_phase / a discarding check squeezed in before every re-read
        for extra in ({"op": "phase"}, {"op": "missing", "discard": True}, {"op": "biallelic", "discard": True},
                      {"op": "maf", "thr": 0.25, "discard": True, "warn": False}):
            steps = []
            for st in inp["steps"]:
                if "read" in st and steps:
                    steps.append(dict(extra))
                steps.append(st)
            if len(steps) > len(inp["steps"]):
                yield dict(inp, steps=(steps + [dict(extra)])[:10])
        # offending cells in the files
        for _ in range(10):
            k = int(rng.integers(0, len(inp["files"])))
            t = inp["files"][k]
            rows = [[list(c) for c in r] for r in t["rows"]]
            i, j = int(rng.integers(0, len(rows))), int(rng.integers(0, len(rows[0])))
            rows[i][j] = [[1, 2, 0], [255, 255, 0], [2, 2, 1], [0, 1, 0], [0, 1, 1]][int(rng.integers(0, 5))]
            t2 = norm_file_table(cls, dict(t, rows=rows, samples=list(t["samples"])))
            yield dict(inp, files=inp["files"][:k] + [t2] + inp["files"][k + 1:])

    def signature(self, inp, obs):
        kind = "ancestry" if inp["cls"] == "GenotypesAncestry" else "plain"
        nread = 0
        for st, cur, o in self.walk(inp, obs):
            if "read" in st:
                nread += 1
                if "other" in o:
                    return f"files {kind}: read() raises exception kind {o['other']}"
                continue
            where = " after a re-read on the same object" if nread > 1 else ""
            k = st["op"]
            if "other" in o:
                if o["other"] == 98:
                    return f"files {kind}: check_{k} leaves the parallel arrays out of step{where}"
                return f"files {kind}: check_{k} raises an unexpected exception kind {o['other']}{where}"
            if cur is None:
                continue
            is_anc = inp["cls"] == "GenotypesAncestry"
            if k in ("missing", "biallelic", "phase"):
                off = offenders(cur, k, is_anc)
                if off and not st.get("discard") and "raise" not in o:
                    return f"files {kind}: check_{k} returns although an offending call is loaded{where}"
                if "raise" in o and not offenders(cur, k, is_anc, may=True):
                    return f"files {kind}: check_{k} raises without an offending call in the loaded data{where}"
        return f"files {kind}: outcome or surviving data differ from the property's clause for the loaded data"


RELATIONS = [QC(), Load(), Files()]

LEVEL_TEXT = (
    "Coq theorems for all genotype tables (no size bound) about a Gallina model of check_missing / check_biallelic / "
    "check_phase / check_maf / check_sorted (np.nonzero + np.delete on index arrays modelled and proved equal to "
    "filtering by the offender predicate): each check raises iff an offending call exists and names one, discard mode "
    "removes exactly the offending samples / variants and keeps the rest (values, order, IDs, ancestry in step), "
    "check_phase strips the phase plane otherwise; the loaders of all six classes (Genotypes / VCF / PLINK: the three checks; "
    "Ancestry: its overrides; TR / PLINKTR: the phase check alone): postcondition, acceptance of clean data, the error names an "
    "offender, and what is returned passes again every check its loader runs; boolean checkers of these clauses proved sound; "
    "check_sorted raises iff a later variant of the same chromosome has a smaller position; check_maf instantiated with the "
    "exact rational MAF min(f,1-f), f = count/(2n); warn_only logs a record iff some variant is rare and names the variant raise "
    "mode would name; and, for every history of read() and checks on one object (any length, any order, re-reads included), "
    "every call's outcome satisfies its clause for the contents the object has at that moment, the object stays well-formed "
    "(ancestry in step), a read() makes the earlier history irrelevant, and following the code's dtype-dependent branches "
    "(bool data after check_biallelic: early return, comparisons with 254 never true) changes no outcome and no content "
    "(C13_typed_history_refines). The model is tied to /repo on every run by evaluating, inside Coq, model-vs-implementation "
    "agreement (outcomes, contents, dtype, warning records) and the clause checkers on generated arrays for all classes (IDs "
    "unique, repeated or missing; offenders and survivors identified by position; uint8 and bool arrays; width boundaries up to "
    "32769 samples / 1001 variants / 65792 calls), on loads of VCF.gz / PGEN / repeat files by all six loaders, and on histories "
    "of one object reading real VCF.gz / PGEN files, checking, re-reading and checking again."
)
LEVEL_NOTE = (
    "Trusted: Coq kernel/vm_compute; the hand-written model (validated differentially on every run); numpy "
    "nonzero/delete as list operations; IEEE doubles = PrimFloat for MAF values (the theorems are stated for an "
    "arbitrary 'below threshold' predicate, the exact-rational reading min(f,1-f) is checked with a 1e-9 band on "
    "observed values). Missing = cell >= 254 (255 only in GenotypesAncestry, as in the code); where the property is "
    "silent (254 in an ancestry object, missing values met by the biallelic check) the checker accepts "
    "either behaviour; check_phase must raise iff a call with both alleles present (< 254), different and unphased "
    "exists (a half-missing or haploid call is not a heterozygote). The dtype of data (bool after check_biallelic) is observed "
    "and compared with the model (agree only: the property does not speak about it). warn_only: holds demands at least one "
    "WARNING-level record when a variant is below the threshold by more than 1e-9, none when no variant is within 1e-9 of being "
    "below it, and that a variant a parsed warning names can be read as below it; the wording is not demanded. The repeat "
    "loaders (GenotypesTR, GenotypesPLINKTR) run check_phase only - check_biallelic / check_maf are NotImplementedError stubs "
    "there and check_missing is not called - so they are held to the phase clause; a missing repeat call in loaded data is not "
    "a violation. A loader that refuses a file must name a call that can be read as offending against one of its checks (a "
    "missing call named by the multiallelic test is accepted). "
    "files relation: 'the data currently loaded' after read() is the content of the file as the harness wrote it (calls, "
    "phase flags, ancestry labels); a check whose verdict or result is not the clause for that content - e.g. because a "
    "flag set by an earlier call on the same object made read() skip the phase flags - fails holds. The theorems that the "
    "executable models of qc / files are instances of the proved histories mention primitive floats and live in "
    "C13_ProofsHist.v (model_run_hrun, model_frun_hrun) and C13_ProofsW.v (model_step_w_hstep_d), not in C13_Property.v."
)
TECHNIQUE = "Coq proof (list induction over nonzero/delete) + vm_compute-evaluated correspondence against the implementation"
