"""C13 helpers: log capture, compact Gallina literals for wide tables (decoders in C13_Wide.v), wide-table
specifications (kept compact in the input JSON), files for the repeat (TR) loaders."""
import logging
import os

import numpy as np

from . import coqlit as L

# ---------------------------------------------------------------------------
# log capture


class Capture(logging.Handler):
    def __init__(self):
        super().__init__(level=logging.DEBUG)
        self.records = []

    def emit(self, record):
        try:
            msg = record.getMessage()
        except Exception:  # noqa
            msg = str(record.msg)
        self.records.append((record.levelno, msg))


def make_log():
    """a logger of its own (not registered with the logging manager) whose records are kept"""
    cap = Capture()
    log = logging.Logger("hv_c13", level=logging.DEBUG)
    log.addHandler(cap)
    log.propagate = False
    return log, cap


# ---------------------------------------------------------------------------
# compact literals: repz x n / zrun a n / vrun id chrom pos step n (C13_Wide.v); anything irregular is
# written in full, so nothing depends on the regularity


def _join(parts):
    if not parts:
        return "[]"
    if len(parts) == 1 and parts[0].startswith("["):
        return parts[0]
    return "(" + " ++ ".join(parts) + ")"


def rle_term(terms, min_run=4):
    """list of rendered elements -> Gallina list; runs of min_run or more equal neighbours become (repz x n)"""
    parts, lit, i, n = [], [], 0, len(terms)
    while i < n:
        j = i
        while j + 1 < n and terms[j + 1] == terms[i]:
            j += 1
        if j + 1 - i >= min_run:
            if lit:
                parts.append(L.lst(lit))
                lit = []
            x = terms[i]
            parts.append(f"repz {x if x.startswith('(') or x.startswith('[') else '(' + x + ')'} {j + 1 - i}")
        else:
            lit += terms[i:j + 1]
        i = j + 1
    if lit:
        parts.append(L.lst(lit))
    return _join(parts)


def zl_term(ints, min_run=8):
    """list of ints -> Gallina list Z; ascending runs become (zrun a n), constant runs (repz a n)"""
    ints = [int(x) for x in ints]
    parts, lit, i, n = [], [], 0, len(ints)
    while i < n:
        j = i
        while j + 1 < n and ints[j + 1] == ints[j] + 1:
            j += 1
        k = i
        while k + 1 < n and ints[k + 1] == ints[i]:
            k += 1
        if j + 1 - i >= min_run or k + 1 - i >= min_run:
            if lit:
                parts.append(L.zl(lit))
                lit = []
            if j >= k:
                parts.append(f"zrun {L.z(ints[i])} {j + 1 - i}")
            else:
                parts.append(f"repz {L.z(ints[i])} {k + 1 - i}")
                j = k
        else:
            j = i
            lit.append(ints[i])
        i = j + 1
    if lit:
        parts.append(L.zl(lit))
    return _join(parts)


def variants_term(vs, min_run=8):
    """list of [id, chrom, pos] -> Gallina list variant; arithmetic runs become (vrun id chrom pos step n)"""
    one = lambda v: f"gv {L.z(v[0])} {L.z(v[1])} {L.z(v[2])}"
    parts, lit, i, n = [], [], 0, len(vs)
    while i < n:
        j = i
        step = vs[i + 1][2] - vs[i][2] if i + 1 < n else 0
        while j + 1 < n and vs[j + 1][0] == vs[j][0] + 1 and vs[j + 1][1] == vs[i][1] and vs[j + 1][2] - vs[j][2] == step:
            j += 1
        if j + 1 - i >= min_run:
            if lit:
                parts.append(L.lst(lit))
                lit = []
            parts.append(f"vrun {L.z(vs[i][0])} {L.z(vs[i][1])} {L.z(vs[i][2])} {L.z(step)} {j + 1 - i}")
        else:
            j = i
            lit.append(one(vs[i]))
        i = j + 1
    if lit:
        parts.append(L.lst(lit))
    return _join(parts)


def tab_term_c(t):
    """compact twin of c13.tab_term"""
    cache = {}

    def row_term(r, f):
        key = tuple(tuple(c) for c in r)
        if key not in cache:
            cache[key] = rle_term([f(c) for c in r])
        return cache[key]

    cell = lambda c: f"gc {c[0]} {c[1]} {c[2]}"
    rows = rle_term([row_term(r, cell) for r in t["rows"]])
    if t.get("anc") is None:
        anc = "None"
    else:
        pair = lambda x: f"({x[0]},{x[1]})"
        anc = "(Some " + rle_term([row_term(r, pair) for r in t["anc"]]) + ")"
    return f"(mkg {zl_term(t['samples'])} {variants_term(t['variants'])} {rows} {t['planes']} {anc})"


# ---------------------------------------------------------------------------
# wide tables: the input JSON holds a specification, expanded where the table is needed


def wide_table(spec):
    """spec: n, p, planes, blocks [[count, [[cnt, cell], ...]], ...] (consecutive identical rows; a row = runs of
    cells), patches [[i, j, cell], ...], sid0, vid0, pos0, step, anc (None | [x, y] for every cell)"""
    n, p = spec["n"], spec["p"]
    rows = []
    for count, runs in spec["blocks"]:
        row = []
        for cnt, c in runs:
            row += [list(c)] * cnt
        assert len(row) == p, (len(row), p)
        for _ in range(count):
            rows.append([list(c) for c in row])
    assert len(rows) == n, (len(rows), n)
    for i, j, c in spec.get("patches", []):
        rows[i][j] = list(c)
    if spec["planes"] == 2:
        for r in rows:
            for c in r:
                c[2] = 0
    t = {"samples": [spec.get("sid0", 0) + i for i in range(n)],
         "variants": [[spec.get("vid0", 0) + j, 1, spec.get("pos0", 10) + spec.get("step", 1) * j] for j in range(p)],
         "rows": rows, "planes": spec["planes"], "anc": None}
    if spec.get("anc") is not None:
        t["anc"] = [[list(spec["anc"]) for _ in range(p)] for _ in range(n)]
    return t


def column_blocks(n, counts, ph):
    """rows such that column j carries counts[j] non-reference alleles: the first counts[j]//2 samples are 1|1 there,
    one more is 1|0 when the count is odd, the rest 0|0.  Returns the row blocks of a wide specification."""
    cuts = {0, n}
    for c in counts:
        cuts.add(min(n, c // 2))
        if c % 2:
            cuts.add(min(n, c // 2 + 1))
    cuts = sorted(cuts)
    blocks = []
    for a, b in zip(cuts, cuts[1:]):
        row = []
        for c in counts:
            if a < c // 2:
                row.append([1, [1, 1, ph]])
            elif a == c // 2 and c % 2:
                row.append([1, [1, 0, ph]])
            else:
                row.append([1, [0, 0, ph]])
        blocks.append([b - a, row])
    return blocks


WIDE_OFFENDERS = [[255, 255, 0], [0, 255, 0], [254, 1, 0], [2, 1, 1], [126, 127, 1], [128, 129, 1], [253, 0, 1],
                  [0, 1, 0], [1, 0, 0], [1, 2, 0], [127, 128, 0]]


def gen_wide_spec(rng, shape, planes=3):
    """shape: 'samples8' | 'variants' | 'samples16' | 'cells'"""
    ph = 1 if planes == 3 else 0
    if shape == "samples8":
        n = int(rng.choice([127, 128, 129, 255, 256, 257]))
        p = int(rng.integers(1, 4))
        pool = [2 * n, 2 * n - 1, int(1.1 * n) + int(rng.integers(0, 9)), 128, 127, 129] + ([255, 256, 257] if n >= 129 else [])
        counts = [int(pool[int(rng.integers(0, len(pool)))]) for _ in range(p)]
        counts[0] = int(pool[int(rng.integers(0, 3))])
        blocks = column_blocks(n, counts, ph)
        edge_rows = sorted({0, 126, 127, 128, 254, 255, 256, n - 1} & set(range(n)))
        edge_cols = list(range(p))
    elif shape == "samples16":
        n = int(rng.choice([16383, 16384, 16385, 32767, 32768, 32769]))
        p = int(rng.integers(1, 3))
        pool = [2 * n, 2 * n - 1, 32767, 32768, 32769] + ([65535, 65536, 65537] if n >= 32769 else [])
        counts = [int(pool[int(rng.integers(0, len(pool)))]) for _ in range(p)]
        counts[0] = 2 * n - int(rng.integers(0, 2))
        blocks = column_blocks(n, counts, ph)
        edge_rows = sorted({0, 255, 256, 32767, 32768, n - 1} & set(range(n)))
        edge_cols = list(range(p))
    else:
        if shape == "variants":
            n = int(rng.integers(1, 4))
            p = int(rng.choice([255, 256, 257, 999, 1000, 1001]))
        else:  # cells: more than 65535 of them
            n, p = [(256, 256), (257, 256), (256, 257), (257, 255)][int(rng.integers(0, 4))]
        # Every call heterozygous (MAF 0.5) except one or two narrow windows of homozygous columns at index
        # boundaries: the rare variants are few (the model deletes by unary position comparisons - a discard of
        # hundreds of columns out of a thousand would take minutes to evaluate) yet sit beyond the 8-bit indices.
        nb = 1 if n <= 3 else int(rng.integers(2, 4))
        cuts = sorted({0, n} | {int(x) for x in rng.integers(1, n, size=nb - 1)}) if n > 1 else [0, 1]
        if shape == "variants":
            cuts = list(range(n + 1))
        starts = sorted({int(x) for x in rng.choice([0, 126, 127, 254, 255, 256, 998, 999, p - 3, p - 2, p - 1], size=int(rng.integers(1, 3)))})
        wins, last = [], 0
        for st in starts:
            st = max(last, min(st, p - 1))
            w = min(int(rng.integers(1, 4)), p - st)
            if w > 0:
                wins.append((st, st + w))
                last = st + w
        blocks = []
        for bi, (a, b) in enumerate(zip(cuts, cuts[1:])):
            het = [[0, 1, 1], [1, 0, 1]][bi % 2]
            runs, at = [], 0
            for (x, y) in wins:
                if x > at:
                    runs.append([x - at, het])
                runs.append([y - x, [[0, 0, ph], [1, 1, ph]][int(rng.integers(0, 2))] if rng.random() < 0.8 else het])
                at = y
            if at < p:
                runs.append([p - at, het])
            blocks.append([b - a, runs])
        edge_rows = sorted({0, 255, 256, n - 1} & set(range(n)))
        edge_cols = sorted({0, 254, 255, 256, 257, 998, 999, 1000, p - 1} & set(range(p)))
    patches = []
    for _ in range(int(rng.choice([0, 1, 1, 2, 3]))):
        i = edge_rows[int(rng.integers(0, len(edge_rows)))]
        j = edge_cols[int(rng.integers(0, len(edge_cols)))]
        patches.append([int(i), int(j), list(WIDE_OFFENDERS[int(rng.integers(0, len(WIDE_OFFENDERS)))])])
    pos0 = int(rng.choice([10, 10, 2**31 - 3, 2**32 - 2 - 3 * p])) if shape in ("samples8", "samples16") else \
        int(rng.choice([10, 2**31 - 600, 2**32 - 1 - 2 * p]))
    step = 1 if shape in ("variants", "cells") else int(rng.integers(1, 3))
    return {"shape": shape, "n": n, "p": p, "planes": planes, "blocks": blocks, "patches": patches,
            "sid0": 0, "vid0": int(rng.choice([0, 0, 1000])), "pos0": pos0, "step": step, "anc": None}


# ---------------------------------------------------------------------------
# files for the repeat loaders (GenotypesTR reads a TRTools-readable VCF, GenotypesPLINKTR a PGEN whose .pvar carries
# the same header and INFO fields)

HIPSTR_HDR = (
    "##command=HipSTR-v0.7 --test\n"
    '##INFO=<ID=START,Number=1,Type=Integer,Description="start">\n'
    '##INFO=<ID=END,Number=1,Type=Integer,Description="end">\n'
    '##INFO=<ID=PERIOD,Number=1,Type=Integer,Description="period">\n'
)


def tr_alleles(tv):
    return tv["motif"] * tv["ref_n"], [tv["motif"] * k for k in tv["alt_ns"]]


def tr_info(v, tv):
    per = len(tv["motif"])
    return f"START={v[2]};END={v[2] + per * tv['ref_n'] - 1};PERIOD={per}"


def vname(k):
    return "." if k < 0 else f"v{k}"


def write_tr_vcf(path, t, tr):
    """bgzipped + tabix-indexed HipSTR-style VCF; cells hold allele indices (255 = '.')"""
    import pysam

    plain = path[:-3]
    with open(plain, "w") as f:
        f.write("##fileformat=VCFv4.2\n" + HIPSTR_HDR)
        for ch in sorted({v[1] for v in t["variants"]}):
            f.write(f"##contig=<ID={ch}>\n")
        f.write('##FORMAT=<ID=GT,Number=1,Type=String,Description="Genotype">\n')
        f.write("#CHROM\tPOS\tID\tREF\tALT\tQUAL\tFILTER\tINFO\tFORMAT\t" + "\t".join(f"s{s}" for s in t["samples"]) + "\n")
        for j, (v, tv) in enumerate(zip(t["variants"], tr)):
            ref, alts = tr_alleles(tv)
            gts = []
            for i in range(len(t["samples"])):
                a, b, ph = t["rows"][i][j]
                sa = "." if a >= 254 else str(a)
                sb = "." if b >= 254 else str(b)
                gts.append(sa + ("|" if ph else "/") + sb)
            f.write(f"{v[1]}\t{v[2]}\t{vname(v[0])}\t{ref}\t{','.join(alts)}\t.\t.\t{tr_info(v, tv)}\tGT\t" + "\t".join(gts) + "\n")
    pysam.tabix_compress(plain, path, force=True)
    pysam.tabix_index(path, preset="vcf", force=True)
    os.remove(plain)


def write_tr_pgen(path, t, tr):
    """PGEN + PSAM written with pgenlib, PVAR as a HipSTR-style VCF body (GenotypesPLINKTR cannot write)"""
    import pgenlib

    base = path[:-5]
    with open(base + ".psam", "w") as f:
        f.write("#IID\n")
        for x in t["samples"]:
            f.write(f"s{x}\n")
    with open(base + ".pvar", "w") as f:
        f.write("##fileformat=VCFv4.2\n" + HIPSTR_HDR)
        for ch in sorted({v[1] for v in t["variants"]}):
            f.write(f"##contig=<ID={ch}>\n")
        f.write("#CHROM\tPOS\tID\tREF\tALT\tQUAL\tFILTER\tINFO\n")
        for v, tv in zip(t["variants"], tr):
            ref, alts = tr_alleles(tv)
            f.write(f"{v[1]}\t{v[2]}\t{vname(v[0])}\t{ref}\t{','.join(alts)}\t.\t.\t{tr_info(v, tv)}\n")
    n, p = len(t["samples"]), len(t["variants"])
    maxa = max(len(tv["alt_ns"]) + 1 for tv in tr)
    with pgenlib.PgenWriter(filename=bytes(path, "utf8"), sample_ct=n, variant_ct=p, allele_ct_limit=maxa,
                            nonref_flags=False, hardcall_phase_present=True) as w:
        for j in range(p):
            al = np.empty((1, 2 * n), dtype=np.int32)
            ph = np.zeros((1, n), dtype=np.uint8)
            for i in range(n):
                a, b, q = t["rows"][i][j]
                al[0, 2 * i] = -9 if a >= 254 else a
                al[0, 2 * i + 1] = -9 if b >= 254 else b
                ph[0, i] = 1 if (q and a != b and a < 254 and b < 254) else 0
            w.append_partially_phased_batch(al, ph, allele_cts=np.array([len(tr[j]["alt_ns"]) + 1], dtype=np.uint32))


def gen_tr(rng, p):
    """per variant: motif, reference copy number, copy numbers of the ALT alleles (all different, <= 253)"""
    out = []
    for _ in range(p):
        motif = str(rng.choice(["A", "AC", "AGT"]))
        pool = [int(x) for x in rng.permutation(np.arange(1, 9))]
        if rng.random() < 0.15 and motif == "A":
            pool.insert(1, int(rng.choice([252, 253])))   # the largest copy numbers a uint8 cell can hold
        k = int(rng.integers(1, 4))
        out.append({"motif": motif, "ref_n": pool[0], "alt_ns": pool[1:1 + k]})
    return out
