"""C14 - --no_replacement never copies the same stretch of a reference haplotype twice.

Relations
  kernel : histories of direct calls of sim_genotype._find_coord / _find_random_sample on one shared
           haps_used table (nested / overlapping / abutting / equal intervals, several chromosomes,
           exhaustion, malformed sample lists)
  norep  : output_vcf(no_replacement=True) end to end on panels in which every reference haplotype
           carries a unique allele at every variant (provenance readable from the output), with
           np.random.shuffle recorded; exhaustion of the panel must raise
  params : validate_params with --no_replacement on panels with too few samples per population
"""
import itertools

import numpy as np

from . import coqlit as L
from .core import Relation, err_kind

PROP = "C14"
CLAIMED = True
COQ_MODULES = ["C14_Check", "C14_Proofs", "C14_CheckVcf", "C14_ProofsVcf"]
PROPERTY_MODULE = "C14_Property"
ALLOWED_AXIOMS = []

# The MiniPy model of these functions is regenerated from the current source on every run
# (harness/pytrans.py) and proved equal to the hand-written models in coq/translated/TV_C14.v.
TRANSLATION = {
    "spec": {
        "module": "Gen_SimGenotype",
        "classes": [("haptools/admix_storage.py", "HaplotypeSegment", 1),
                    ("haptools/admix_storage.py", "GeneticMarker", 2)],
        "functions": [
            ("haptools/sim_genotype.py", "_find_coord"),
            ("haptools/sim_genotype.py", "_find_random_sample"),
            ("haptools/sim_genotype.py", "start_segment"),
            ("haptools/sim_genotype.py", "get_segment"),
            # the per-child loop of _simulate: from `prev_chrom = chroms[0]` to just before `hap_samples.append(segments)`
            ("haptools/sim_genotype.py", "_simulate", {
                "name": "_simulate_child", "loop_target": "sample", "from_assign": "prev_chrom",
                "until_append_to": "hap_samples", "result": "segments",
                "params": ["chroms", "end_coords", "p_pop", "haps", "homolog", "true_coords", "prev_gen_samples",
                           "segments"]}),
        ],
    },
    "models": ["TVM_C14"],   # definitions only: evaluation of the translated code (tv_kernel relation)
    "proofs": ["TV_C14"],    # translation-validation theorems
}
RULE = (
    "kernel: 1-12 calls on a table of 1-4 reference samples, interval ends from a 12-point grid so that equal, "
    "nested, overlapping and abutting (shared end point, end+1) intervals are frequent; non-trivial = some call "
    "meets a registered interval of the same chromosome on a probed reference haplotype. norep: output_vcf with "
    "no_replacement on identifiable panels; non-trivial = two simulated haplotypes carry blocks of the same "
    "population on the same chromosome whose intervals share a position. Distinct = distinct canonical JSON."
)
TRUSTED = [
    "np.random.shuffle results are recorded, not modelled (universally quantified in the theorems)",
    "chromosome names / sample names are interned to integers by the harness (only compared by the code)",
]
ASSUMPTIONS = [
    "theorems: every sample index handed to _find_random_sample addresses rows of haps_used (validate_params "
    "checks sample-info names against the panel)",
]


def chrom_arg(c):
    # _convert_haplotype passes the chromosome as given on the command line (a str) except 'X' -> 23
    return 23 if c == 23 else str(c)


def chrom_back(c):
    return 23 if c == 23 else int(c)


def ival_term(t):
    return f"({L.z(t[0])}, {L.z(t[1])}, {L.z(t[2])})"


def used_term(u):
    return L.lst(u, ival_term)


class Kernel(Relation):
    name = "kernel"
    coq_module = "C14_Check"
    coq_check = "check_kernel"
    coq_case_type = "kcase"
    coq_model = "model_kernel"
    coq_imports = ["Tracts", "C01_Model", "C14_Model"]
    budget = {"quick": 2000, "thorough": 30000}
    anchors = [
        ("haptools/sim_genotype.py", "_find_coord"),
        ("haptools/sim_genotype.py", "_find_random_sample"),
    ]
    GRID = [0, 1, 10, 11, 20, 21, 40, 41, 60, 61, 100, 101, 120]

    def _interval(self, rng, prior):
        g = self.GRID
        r = rng.random()
        if prior and r < 0.75:
            c0, a0, b0 = prior[int(rng.integers(0, len(prior)))]
            kind = int(rng.integers(0, 9))
            mid = (a0 + b0) // 2
            cand = {
                0: (a0, b0),                      # equal
                1: (min(a0 + 1, mid), max(mid, a0 + 1)),  # nested strictly inside
                2: (a0, mid),                     # nested, same start
                3: (mid, b0),                     # nested, same end
                4: (b0, b0 + 20),                 # abutting: shares the end point
                5: (b0 + 1, b0 + 20),             # abutting: adjacent, shares nothing
                6: (max(0, a0 - 20), a0),         # shares the start point
                7: (max(0, a0 - 20), max(0, a0 - 1)),   # adjacent on the left
                8: (max(0, a0 - 5), b0 + 5),      # contains
            }[kind]
            a, b = cand
            if a > b:
                a, b = b, a
            c = c0 if rng.random() < 0.85 else int(rng.choice([1, 2, 23]))
            return c, int(a), int(b)
        a, b = sorted(int(x) for x in rng.choice(g, size=2))
        return int(rng.choice([1, 2, 23])), a, b

    def generate(self, rng, n, tier):
        out = []
        for _ in range(n):
            ns = int(rng.integers(1, 5))
            nops = int(rng.integers(1, 13))
            ops, prior = [], []
            malformed = rng.random() < 0.12
            for _ in range(nops):
                c, a, b = self._interval(rng, prior)
                if malformed and rng.random() < 0.3:
                    a, b = b + 3, a  # start beyond end (an empty interval)
                prior.append((c, a, b))
                if rng.random() < 0.3:
                    ops.append({"k": "coord", "hap": int(rng.integers(0, 2 * ns)), "c": c, "a": a, "b": b})
                else:
                    k = int(rng.integers(0, ns + 1))
                    samples = rng.permutation(ns)[:k].tolist() if rng.random() < 0.8 else rng.integers(0, ns, size=k).tolist()
                    if malformed and rng.random() < 0.3:
                        samples.insert(int(rng.integers(0, len(samples) + 1)), int(rng.choice([-1, ns, ns + 1])))
                    ops.append({"k": "sample", "samples": [int(s) for s in samples], "c": c, "a": a, "b": b})
            out.append({"ns": ns, "ops": ops, "kind": "malformed" if malformed else "wellformed"})
        return out

    def exhaustive(self, tier):
        # one reference sample (two haplotypes), one chromosome: every pair and triple of intervals over a 5-point grid
        pts = [0, 1, 2, 3, 4]
        ivs = [(a, b) for a in pts for b in pts if a <= b]
        out = []
        for k in (2, 3):
            for combo in itertools.product(ivs, repeat=k):
                if k == 3 and (combo[0][0] > 1 or combo[1][1] < 2):
                    continue
                ops = [{"k": "sample", "samples": [0], "c": 1, "a": a, "b": b} for a, b in combo]
                out.append({"ns": 1, "ops": ops, "kind": "exhaustive"})
        return out

    def run_impl(self, inp):
        from haptools.sim_genotype import _find_coord, _find_random_sample

        ns = inp["ns"]
        haps_used = [[] for _ in range(2 * ns)]
        sample_dict = {f"s{i}": i for i in range(ns + 2)}
        res = []
        for o in inp["ops"]:
            c = chrom_arg(o["c"])
            try:
                if o["k"] == "coord":
                    r = {"ok": bool(_find_coord(haps_used[o["hap"]], c, o["a"], o["b"]))}
                else:
                    names = [f"s{s}" if s >= 0 else "absent" for s in o["samples"]]
                    s, h = _find_random_sample(names, sample_dict, haps_used, c, o["a"], o["b"])
                    r = {"ok": [int(s[1:]), int(h)]}
            except Exception as e:  # noqa
                r = {"err": err_kind(e)}
            res.append(r)
        final = [[[chrom_back(t[0]), int(t[1]), int(t[2])] for t in u] for u in haps_used]
        return {"res": res, "final": final}

    def encode(self, inp, obs):
        if "res" not in obs:
            k = obs.get("kind", 99)
            obs = {"res": [{"err": k} for _ in inp["ops"]], "final": []}
        ops = []
        for o, r in zip(inp["ops"], obs["res"]):
            if o["k"] == "coord":
                ops.append(f"OpCoord {L.z(o['hap'])} {L.z(o['c'])} {L.z(o['a'])} {L.z(o['b'])} {L.res(r, L.b)}")
            else:
                ops.append(f"OpSample {L.zl(o['samples'])} {L.z(o['c'])} {L.z(o['a'])} {L.z(o['b'])} "
                           f"{L.res(r, lambda p: f'({L.z(p[0])}, {L.z(p[1])})')}")
        return f"(mkk {L.z(2 * inp['ns'])} {L.lst(ops)} {L.lst(obs['final'], used_term)})"

    @staticmethod
    def _relations(inp):
        """semantic relation classes between intervals of one chromosome in the history"""
        out = set()
        ivs = [(o["c"], o["a"], o["b"]) for o in inp["ops"] if o["a"] <= o["b"]]
        for i, (c, a, b) in enumerate(ivs):
            for c2, a2, b2 in ivs[:i]:
                if c != c2:
                    continue
                if (a, b) == (a2, b2):
                    out.add("equal")
                elif a2 <= a and b <= b2:
                    out.add("nested-in-earlier")
                elif a <= a2 and b2 <= b:
                    out.add("contains-earlier")
                elif a == b2 or b == a2:
                    out.add("shares-end-point")
                elif a == b2 + 1 or b + 1 == a2:
                    out.add("adjacent")
                elif max(a, a2) <= min(b, b2):
                    out.add("partial-overlap")
                else:
                    out.add("apart")
        return out

    def nontrivial(self, inp, obs):
        return bool(self._relations(inp) - {"apart"})

    def classes(self, inp, obs):
        out = [inp["kind"], f"ops~{len(inp['ops']) // 4 * 4}"] + sorted(self._relations(inp))
        if isinstance(obs, dict) and "res" in obs:
            for r in obs["res"]:
                if "err" in r:
                    out.append(f"err{r['err']}")
            out = sorted(set(out))
        return out

    def shrink(self, inp):
        ops = inp["ops"]
        for j in range(len(ops)):
            yield dict(inp, ops=ops[:j] + ops[j + 1:])
        for j, o in enumerate(ops):
            if o["k"] == "sample" and len(o["samples"]) > 1:
                for i in range(len(o["samples"])):
                    yield dict(inp, ops=ops[:j] + [dict(o, samples=o["samples"][:i] + o["samples"][i + 1:])] + ops[j + 1:])
        if inp["ns"] > 1 and all(max(o.get("samples", [0]) + [o.get("hap", 0) // 2]) < inp["ns"] - 1 for o in ops):
            yield dict(inp, ns=inp["ns"] - 1)

    def mutate(self, inp, rng):
        ops = inp["ops"]
        for j, o in enumerate(ops):
            for d in (-1, 1):
                yield dict(inp, ops=ops[:j] + [dict(o, a=max(0, o["a"] + d))] + ops[j + 1:])
                yield dict(inp, ops=ops[:j] + [dict(o, b=max(0, o["b"] + d))] + ops[j + 1:])

    def signature(self, inp, obs):
        # which relation holds between two accepted intervals of one reference haplotype that share a position
        acc = []
        if isinstance(obs, dict) and "res" in obs:
            for o, r in zip(inp["ops"], obs["res"]):
                if o["k"] == "coord" and r.get("ok") is False:
                    acc.append((o["hap"], o["c"], o["a"], o["b"]))
                elif o["k"] == "sample" and isinstance(r.get("ok"), list):
                    acc.append((2 * r["ok"][0] + r["ok"][1], o["c"], o["a"], o["b"]))
        kinds = set()
        for i, (h, c, a, b) in enumerate(acc):
            for h2, c2, a2, b2 in acc[:i]:
                if (h, c) == (h2, c2) and max(a, a2) <= min(b, b2):
                    if a2 <= a and b <= b2:
                        kinds.add("nested")
                    elif a == b2 or b == a2:
                        kinds.add("shared-end-point")
                    else:
                        kinds.add("overlap")
        return "kernel reference haplotype handed out twice: " + (",".join(sorted(kinds)) or "none (model disagreement)")


class Norep(Relation):
    """output_vcf(no_replacement=True) end to end; case type, runner and model are C03's."""
    name = "norep"
    coq_module = "C14_CheckVcf"
    coq_check = "check_norep"
    coq_case_type = "ocase"
    coq_model = "model_norep"
    coq_imports = ["Tracts", "C01_Model", "C14_Model", "C03_Model", "C03_Check"]
    budget = {"quick": 160, "thorough": 3000}
    max_cases_per_shard = 40
    anchors = [
        ("haptools/sim_genotype.py", "output_vcf"),
        ("haptools/sim_genotype.py", "_convert_haplotype"),
        ("haptools/sim_genotype.py", "_find_random_sample"),
        ("haptools/sim_genotype.py", "_find_coord"),
    ]

    def preamble(self):
        return "Import C03_Check."

    def generate(self, rng, n, tier):
        from . import c03

        out = []
        while len(out) < n:
            c = c03.gen_case(rng, tier, want_norep=True)
            if c03.covered(c):
                out.append(c)
        return out

    def run_impl(self, inp):
        from . import c03

        return c03.run_output_vcf(inp)

    def encode(self, inp, obs):
        from . import c03

        draws = obs.get("draws") if isinstance(obs, dict) else None
        if not draws:
            draws = {"choice": [], "strand": [], "shuffle": [], "ok": False}
        return f"(C03_Check.mko {c03.config_term(inp, draws)} {c03.obs_term(inp, obs)})"

    @staticmethod
    def _contended(inp):
        """two simulated haplotypes hold blocks of one population on one chromosome whose intervals share a position"""
        blocks = []
        for h, hap in enumerate(inp["bps"]):
            for c in inp["chroms"]:
                prev = -1
                for t in hap:
                    if t[1] == c:
                        blocks.append((h, c, t[0], prev + 1, t[2]))
                        prev = t[2]
        for i, (h, c, p, a, b) in enumerate(blocks):
            for h2, c2, p2, a2, b2 in blocks[:i]:
                if h != h2 and (c, p) == (c2, p2) and max(a, a2) <= min(b, b2):
                    return True
        return False

    def nontrivial(self, inp, obs):
        return inp["kind"] == "wellformed" and self._contended(inp)

    def classes(self, inp, obs):
        out = [inp["kind"], "ref=" + inp["ref"]["fmt"], "out=" + inp["out"]]
        if self._contended(inp):
            out.append("haplotypes-compete-for-a-population")
        if isinstance(obs, dict) and "failed" in obs:
            out.append(f"raised-{obs['failed'].get('cls')}")
        elif isinstance(obs, dict) and "out" in obs:
            out.append("completed")
        return out

    def shrink(self, inp):
        from . import c03

        yield from c03.Vcf().shrink(inp)

    def mutate(self, inp, rng):
        for _ in range(6):
            yield dict(inp, seed=int(rng.integers(1, 2**31 - 1)))

    def signature(self, inp, obs):
        if not isinstance(obs, dict) or "out" not in obs:
            return "norep output_vcf did not complete / not observed"
        o = obs["out"]
        dup = False
        for j in range(len(o["vars"])):
            col = [row[j] for row in o["gt"]]
            if len(set(col)) < len(col):
                dup = True
        return "norep " + ("one reference haplotype copied into two simulated haplotypes at a variant" if dup
                           else "no duplicate provenance (model disagreement)")


class Params(Relation):
    """validate_params: --no_replacement needs >= num_samples sample-info lines per model population."""
    name = "params"
    coq_module = "C14_CheckVcf"
    coq_check = "check_params"
    coq_case_type = "pcase"
    coq_model = "model_params"
    coq_imports = ["Tracts", "C01_Model", "C14_Model", "C03_Model", "C03_Check"]
    budget = {"quick": 150, "thorough": 1500}
    anchors = [("haptools/sim_genotype.py", "validate_params")]

    def generate(self, rng, n, tier):
        out = []
        for _ in range(n):
            k = int(rng.integers(2, 5))       # validate_params wants at least two source populations
            ns = int(rng.integers(1, 5))
            counts = [int(rng.choice([0, ns - 1, ns, ns + 1, 1, 5])) for _ in range(k)]
            counts = [max(0, c) for c in counts]
            if rng.random() < 0.8:
                counts = [max(1, c) for c in counts]
            out.append({"ns": ns, "counts": counts, "other": int(rng.integers(0, 3)), "norep": bool(rng.random() < 0.7),
                        "pgen": bool(rng.random() < 0.2)})
        return out

    def exhaustive(self, tier):
        import itertools

        out = []
        for ns in (1, 2, 3):
            for counts in itertools.product([1, 2, 3, 4], repeat=2):
                for norep in (False, True):
                    out.append({"ns": ns, "counts": list(counts), "other": 1, "norep": norep, "pgen": False})
        return out

    def run_impl(self, inp):
        import os
        import shutil
        import tempfile

        import haptools.sim_genotype as sg
        from . import c03

        d = tempfile.mkdtemp(prefix="hv_c14p_")
        try:
            k = len(inp["counts"])
            nref = sum(inp["counts"]) + inp["other"] + 1
            panel_inp = {"ref": {"nref": nref, "vars": [[False, 1, 10]], "nalleles": [2],
                                 "data": [[[0, 1]] for _ in range(nref)], "fmt": "pgen" if inp["pgen"] else "vcf.gz"}}
            panel, _ = c03.write_panel(panel_inp, d)
            pops = [f"P{i + 1}" for i in range(k)]
            model = os.path.join(d, "model.dat")
            with open(model, "w") as f:
                f.write(f"{inp['ns']}\tAdmixed\t" + "\t".join(pops) + "\n1\t0\t" + "\t".join(["1"] + ["0"] * (k - 1)) + "\n")
            info = os.path.join(d, "info.tab")
            r = 0
            with open(info, "w") as f:
                for p, c in zip(pops, inp["counts"]):
                    for _ in range(c):
                        f.write(f"R{r}\t{p}\n")
                        r += 1
                for _ in range(inp["other"]):
                    f.write(f"R{r}\tOTHER\n")
                    r += 1
            mapdir = os.path.join(d, "map")
            os.makedirs(mapdir)
            with open(os.path.join(mapdir, "g.chr1.map"), "w") as f:
                f.write("1\t.\t0.0\t5\n1\t.\t1.0\t50\n")
            try:
                sg.validate_params(model, mapdir, ["1"], 10, panel, info, inp["norep"])
                return {"raised": False}
            except Exception as e:  # noqa
                return {"raised": True, "cls": type(e).__name__, "msg": str(e)[:160]}
        finally:
            shutil.rmtree(d, ignore_errors=True)

    def encode(self, inp, obs):
        raised = obs.get("raised")
        if raised is None:
            raised = True if "__exc__" in obs else False
        return f"(mkp {L.z(inp['ns'])} {L.b(inp['norep'])} {L.zl(inp['counts'])} {L.b(raised)})"

    def nontrivial(self, inp, obs):
        return inp["norep"] and any(c in (inp["ns"] - 1, inp["ns"]) for c in inp["counts"])

    def classes(self, inp, obs):
        out = ["norep" if inp["norep"] else "replacement", "pgen" if inp["pgen"] else "vcf"]
        if any(c < inp["ns"] for c in inp["counts"]):
            out.append("too-few-samples-in-a-population")
        if any(c == inp["ns"] for c in inp["counts"]):
            out.append("exactly-enough")
        if obs.get("raised"):
            out.append("rejected")
        return out

    def shrink(self, inp):
        if len(inp["counts"]) > 2:
            for j in range(len(inp["counts"])):
                yield dict(inp, counts=inp["counts"][:j] + inp["counts"][j + 1:])

    def signature(self, inp, obs):
        return "params validate_params accepts --no_replacement with fewer samples in a population than simulated samples"


class TVKernel(Kernel):
    """The same generated calls, evaluated against the MiniPy syntax regenerated from the current source
    (translator + interpreter validation); holds is the kernel relation's property checker."""
    name = "tv_kernel"
    coq_lib = "HVG"
    coq_module = "TVM_C14"
    coq_check = "check_tv_kernel"
    coq_case_type = "C14_Check.kcase"
    coq_model = "model_tv_kernel"
    coq_imports = ["Tracts", "C01_Model", "C14_Model", "C14_Check"]
    budget = {"quick": 600, "thorough": 6000}

    def signature(self, inp, obs):
        return "tv_" + super().signature(inp, obs)



RELATIONS = [Kernel(), Norep(), Params(), TVKernel()]

LEVEL_TEXT = (
    "Coq theorems over all histories of _find_coord/_find_random_sample calls and all shuffles (no size bound) about a "
    "Gallina model of the --no_replacement bookkeeping; the model is tied to /repo on every run by evaluating, inside "
    "Coq, model-vs-implementation agreement and the property's finite checker on generated call histories and on "
    "end-to-end output_vcf(no_replacement) runs over panels whose reference haplotypes are identifiable."
)
LEVEL_NOTE = (
    "Trusted: Coq kernel/vm_compute; the hand-written model (validated only differentially); recorded numpy shuffles are "
    "inputs (universally quantified in the theorems). validate_params' per-population count check is exercised by the "
    "params relation and modelled in C20."
)
TECHNIQUE = "Coq proof of an interval-disjointness invariant by induction over call histories + vm_compute-evaluated correspondence"
