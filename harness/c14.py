"""C14 - --no_replacement never copies the same stretch of a reference haplotype twice.

Relations
  kernel : histories of direct calls of sim_genotype._find_coord / _find_random_sample on one shared
           haps_used table (nested / overlapping / abutting / equal intervals, several chromosomes,
           exhaustion, malformed sample lists)
  norep  : output_vcf(no_replacement=True) end to end on panels in which every reference haplotype
           carries a unique allele at every variant (provenance readable from the output), with
           np.random.shuffle recorded; exhaustion of the panel must raise.  45% of the sample-info files have
           OVERLAPPING populations (overlap_rows: a reference sample listed under two or three of the model's
           populations, all samples of one population also in another, all populations listing the same pool,
           pools of one or two samples that run out, a line twice).  Width-boundary stream: wide panels whose
           chosen samples sit in columns >= 128 / 256 (C03's gen_wide_case; SAMPLE written, holds_norep_smp reads
           the provenance from SAMPLE + allele), 254..300 tracts on a chromosome (> 255 intervals registered on a
           reference haplotype), 254..300 source populations (labels 253..255 used; a label >= 256 -> OverflowError)
  params : validate_params with --no_replacement on panels with n-1 / n / n+1 sample-info lines per model
           population (first / middle / last in the header), population labels in every string relation to one
           another (one a proper prefix / suffix / infix of another, case-only difference, common prefix or suffix,
           same characters, digits only, '_', '-', '.'), unused populations whose labels contain a model label,
           sample names that contain or equal population labels, lines in any order; the model counts by label
           EQUALITY; holds = rejected when some population is short, the not-enough-samples error only then
  cli    : the simgenotype command end to end with --no_replacement on such panels (identifiable alleles):
           a short population must stop the command in validate_params before simulate_gt is entered and before
           any file exists; otherwise the output_vcf call it makes (breakpoints as handed over, shuffles
           recorded) is checked against C03's model and the no-reuse checker; 45% of the sample-info files have
           overlapping populations
  (params: 30% of the files list a sample name under two or three labels, or a line twice: a line counts for the
           label it carries)
"""
import itertools
import os

import numpy as np

from . import coqlit as L
from .core import Relation, err_kind

PROP = "C14"
CLAIMED = True
COQ_MODULES = ["C14_Check", "C14_Proofs", "C14_CheckVcf", "C14_ProofsVcf", "C14_CheckConv", "C14_Run", "C14_RunVcf"]
PROPERTY_MODULE = "C14_Property"
ALLOWED_AXIOMS = []

# The MiniPy model of these functions is regenerated from the current source on every run
# (harness/pytrans.py) and proved equal to the hand-written models in coq/translated/TV_C14.v.
TRANSLATION = {
    "spec": {
        "module": "Gen_SimGenotype",
        "classes": [("haptools/admix_storage.py", "HaplotypeSegment", 1),
                    ("haptools/admix_storage.py", "GeneticMarker", 2)],
        "functions": [
            ("haptools/sim_genotype.py", "_find_coord"),
            ("haptools/sim_genotype.py", "_find_random_sample"),
            ("haptools/sim_genotype.py", "start_segment"),
            ("haptools/sim_genotype.py", "get_segment"),
            # the per-child loop of _simulate: from `prev_chrom = chroms[0]` to just before `hap_samples.append(segments)`
            ("haptools/sim_genotype.py", "_simulate", {
                "name": "_simulate_child", "loop_target": "sample", "from_assign": "prev_chrom",
                "until_append_to": "hap_samples", "result": "segments",
                "params": ["chroms", "end_coords", "p_pop", "haps", "homolog", "true_coords", "prev_gen_samples",
                           "segments"]}),
            ("haptools/sim_genotype.py", "_convert_haplotype"),
        ],
    },
    # definitions only: evaluation of the translated code (tv_kernel, tv_conv relations)
    "models": ["TVM_C01", "TVM_C14"],
    # translation-validation theorems (TV_C01: start_segment, used by TV_C14_Conv)
    "proofs": ["TV_C01", "TV_C14", "TV_C14_Conv"],
}
RULE = (
    "kernel: 1-12 calls on a table of 1-4 reference samples, interval ends from a 12-point grid so that equal, "
    "nested, overlapping and abutting (shared end point, end+1) intervals are frequent, plus one history per run that "
    "registers 254-300 disjoint intervals on one reference haplotype in random order and probes the ones registered "
    "254th-257th; non-trivial = some call "
    "meets a registered interval of the same chromosome on a probed reference haplotype. norep: output_vcf with "
    "no_replacement on identifiable panels, 45% with overlapping populations (a reference sample under 2-3 model "
    "populations, subset, common pool, exhausted pool, a line twice), plus per run: wide panels (129-140, 257-300 samples, "
    "chosen columns >= 128 / 256), 254-300 tracts on a chromosome, 254-300 source populations; non-trivial = two simulated "
    "haplotypes carry blocks of the same population - or of two populations that list a common reference sample - on the "
    "same chromosome whose intervals share a position. params: 2-4 model populations x 0-3 unused "
    "ones, labels derived from one another by 14 string relations, 1-4 simulated samples, counts n-1/n/n+1; non-trivial "
    "= --no_replacement, some model population has n-1 or n lines and some other label of the file stands in a "
    "containment / case / shared-affix relation to a model label. cli: the command on 2-3 populations, 1-3 samples, 1-2 "
    "chromosomes, 1-3 model lines; non-trivial = --no_replacement and some population has n-1 or n lines. "
    "Distinct = distinct canonical JSON."
)
TRUSTED = [
    "np.random.shuffle results are recorded, not modelled (universally quantified in the theorems)",
    "chromosome names / sample names are interned to integers by the harness (only compared by the code)",
    "population labels are interned by python string equality (dict): two labels get one number iff they are the same "
    "string; the model of validate_params counts over these numbers",
    "cli: sim_genotype.{validate_params,simulate_gt,write_breakpoints,output_vcf} are wrapped from the harness to record "
    "verdict / entry / arguments; the command itself runs unmodified through click's CliRunner",
]
ASSUMPTIONS = [
    "theorems: every sample index handed to _find_random_sample addresses rows of haps_used (validate_params "
    "checks sample-info names against the panel)",
]


def chrom_arg(c):
    # _convert_haplotype passes the chromosome as given on the command line (a str) except 'X' -> 23
    return 23 if c == 23 else str(c)


def chrom_back(c):
    return 23 if c == 23 else int(c)


def ival_term(t):
    return f"({L.z(t[0])}, {L.z(t[1])}, {L.z(t[2])})"


def used_term(u):
    return L.lst(u, ival_term)


class Kernel(Relation):
    name = "kernel"
    coq_module = "C14_Check"
    coq_check = "check_kernel"
    coq_case_type = "kcase"
    coq_model = "model_kernel"
    coq_imports = ["Tracts", "C01_Model", "C14_Model"]
    budget = {"quick": 2000, "thorough": 30000}
    anchors = [
        ("haptools/sim_genotype.py", "_find_coord"),
        ("haptools/sim_genotype.py", "_find_random_sample"),
    ]
    GRID = [0, 1, 10, 11, 20, 21, 40, 41, 60, 61, 100, 101, 120]

    def _interval(self, rng, prior):
        g = self.GRID
        r = rng.random()
        if prior and r < 0.75:
            c0, a0, b0 = prior[int(rng.integers(0, len(prior)))]
            kind = int(rng.integers(0, 9))
            mid = (a0 + b0) // 2
            cand = {
                0: (a0, b0),                      # equal
                1: (min(a0 + 1, mid), max(mid, a0 + 1)),  # nested strictly inside
                2: (a0, mid),                     # nested, same start
                3: (mid, b0),                     # nested, same end
                4: (b0, b0 + 20),                 # abutting: shares the end point
                5: (b0 + 1, b0 + 20),             # abutting: adjacent, shares nothing
                6: (max(0, a0 - 20), a0),         # shares the start point
                7: (max(0, a0 - 20), max(0, a0 - 1)),   # adjacent on the left
                8: (max(0, a0 - 5), b0 + 5),      # contains
            }[kind]
            a, b = cand
            if a > b:
                a, b = b, a
            c = c0 if rng.random() < 0.85 else int(rng.choice([1, 2, 23]))
            return c, int(a), int(b)
        a, b = sorted(int(x) for x in rng.choice(g, size=2))
        return int(rng.choice([1, 2, 23])), a, b

    def generate(self, rng, n, tier):
        out = []
        for _ in range(n):
            ns = int(rng.integers(1, 5))
            nops = int(rng.integers(1, 13))
            ops, prior = [], []
            malformed = rng.random() < 0.12
            for _ in range(nops):
                c, a, b = self._interval(rng, prior)
                if malformed and rng.random() < 0.3:
                    a, b = b + 3, a  # start beyond end (an empty interval)
                prior.append((c, a, b))
                if rng.random() < 0.3:
                    ops.append({"k": "coord", "hap": int(rng.integers(0, 2 * ns)), "c": c, "a": a, "b": b})
                else:
                    k = int(rng.integers(0, ns + 1))
                    samples = rng.permutation(ns)[:k].tolist() if rng.random() < 0.8 else rng.integers(0, ns, size=k).tolist()
                    if malformed and rng.random() < 0.3:
                        samples.insert(int(rng.integers(0, len(samples) + 1)), int(rng.choice([-1, ns, ns + 1])))
                    ops.append({"k": "sample", "samples": [int(s) for s in samples], "c": c, "a": a, "b": b})
            out.append({"ns": ns, "ops": ops, "kind": "malformed" if malformed else "wellformed"})
        # width-boundary stream: more than 255 intervals registered on ONE reference haplotype
        out += [self.many_intervals(rng) for _ in range(max(1, n // 2000) if tier == "quick" else 6)]
        return out

    def many_intervals(self, rng):
        """254..300 pairwise disjoint intervals [10i, 10i+5] registered on reference haplotype 0 in a random (not left to
        right) order, then probes that overlap the interval registered 254th .. 257th / last (nested, shared end point,
        containing), probes in the gaps, and the same probes again (strand 1 is taken by then)"""
        ns = int(rng.integers(1, 3))
        m = int(rng.choice([254, 255, 256, 257, int(rng.integers(258, 301))]))
        c = int(rng.choice([1, 2, 23]))
        order = [int(x) for x in rng.permutation(m)]
        ops = []
        for i in order:
            if rng.random() < 0.5:
                ops.append({"k": "coord", "hap": 0, "c": c, "a": 10 * i, "b": 10 * i + 5})
            else:
                ops.append({"k": "sample", "samples": [0], "c": c, "a": 10 * i, "b": 10 * i + 5})
        probes = []
        for j in sorted(set([253, 254, 255, 256, m - 1, int(rng.integers(0, m))])):
            if j >= m:
                continue
            i = order[j]
            kind = int(rng.integers(0, 4))
            a, b = [(10 * i + 1, 10 * i + 2), (10 * i + 5, 10 * i + 8), (10 * i - 2, 10 * i + 7), (10 * i + 6, 10 * i + 9)][kind]
            probes.append((max(0, a), b))
        for a, b in probes + probes[:3]:
            r = rng.random()
            if r < 0.35:
                ops.append({"k": "coord", "hap": 0, "c": c, "a": a, "b": b})
            else:
                ops.append({"k": "sample", "samples": [int(x) for x in rng.permutation(ns)], "c": c, "a": a, "b": b})
        return {"ns": ns, "ops": ops, "kind": "many-intervals"}

    def exhaustive(self, tier):
        # one reference sample (two haplotypes), one chromosome: every pair and triple of intervals over a 5-point grid
        pts = [0, 1, 2, 3, 4]
        ivs = [(a, b) for a in pts for b in pts if a <= b]
        out = []
        for k in (2, 3):
            for combo in itertools.product(ivs, repeat=k):
                if k == 3 and (combo[0][0] > 1 or combo[1][1] < 2):
                    continue
                ops = [{"k": "sample", "samples": [0], "c": 1, "a": a, "b": b} for a, b in combo]
                out.append({"ns": 1, "ops": ops, "kind": "exhaustive"})
        return out

    def run_impl(self, inp):
        from haptools.sim_genotype import _find_coord, _find_random_sample

        ns = inp["ns"]
        haps_used = [[] for _ in range(2 * ns)]
        sample_dict = {f"s{i}": i for i in range(ns + 2)}
        res = []
        for o in inp["ops"]:
            c = chrom_arg(o["c"])
            try:
                if o["k"] == "coord":
                    r = {"ok": bool(_find_coord(haps_used[o["hap"]], c, o["a"], o["b"]))}
                else:
                    names = [f"s{s}" if s >= 0 else "absent" for s in o["samples"]]
                    s, h = _find_random_sample(names, sample_dict, haps_used, c, o["a"], o["b"])
                    r = {"ok": [int(s[1:]), int(h)]}
            except Exception as e:  # noqa
                r = {"err": err_kind(e)}
            res.append(r)
        final = [[[chrom_back(t[0]), int(t[1]), int(t[2])] for t in u] for u in haps_used]
        return {"res": res, "final": final}

    def encode(self, inp, obs):
        if "res" not in obs:
            k = obs.get("kind", 99)
            obs = {"res": [{"err": k} for _ in inp["ops"]], "final": []}
        ops = []
        for o, r in zip(inp["ops"], obs["res"]):
            if o["k"] == "coord":
                ops.append(f"OpCoord {L.z(o['hap'])} {L.z(o['c'])} {L.z(o['a'])} {L.z(o['b'])} {L.res(r, L.b)}")
            else:
                ops.append(f"OpSample {L.zl(o['samples'])} {L.z(o['c'])} {L.z(o['a'])} {L.z(o['b'])} "
                           f"{L.res(r, lambda p: f'({L.z(p[0])}, {L.z(p[1])})')}")
        return f"(mkk {L.z(2 * inp['ns'])} {L.lst(ops)} {L.lst(obs['final'], used_term)})"

    @staticmethod
    def _relations(inp):
        """semantic relation classes between intervals of one chromosome in the history"""
        out = set()
        ivs = [(o["c"], o["a"], o["b"]) for o in inp["ops"] if o["a"] <= o["b"]]
        for i, (c, a, b) in enumerate(ivs):
            for c2, a2, b2 in ivs[:i]:
                if c != c2:
                    continue
                if (a, b) == (a2, b2):
                    out.add("equal")
                elif a2 <= a and b <= b2:
                    out.add("nested-in-earlier")
                elif a <= a2 and b2 <= b:
                    out.add("contains-earlier")
                elif a == b2 or b == a2:
                    out.add("shares-end-point")
                elif a == b2 + 1 or b + 1 == a2:
                    out.add("adjacent")
                elif max(a, a2) <= min(b, b2):
                    out.add("partial-overlap")
                else:
                    out.add("apart")
        return out

    def nontrivial(self, inp, obs):
        return bool(self._relations(inp) - {"apart"})

    def classes(self, inp, obs):
        out = [inp["kind"], f"ops~{min(len(inp['ops']) // 4 * 4, 16)}"] + sorted(self._relations(inp))
        if isinstance(obs, dict) and max([len(u) for u in obs.get("final", [])] + [0]) > 255:
            out.append("more-than-255-intervals-on-a-reference-haplotype")
        if isinstance(obs, dict) and "res" in obs:
            for r in obs["res"]:
                if "err" in r:
                    out.append(f"err{r['err']}")
            out = sorted(set(out))
        return out

    def shrink(self, inp):
        ops = inp["ops"]
        for j in range(len(ops)):
            yield dict(inp, ops=ops[:j] + ops[j + 1:])
        for j, o in enumerate(ops):
            if o["k"] == "sample" and len(o["samples"]) > 1:
                for i in range(len(o["samples"])):
                    yield dict(inp, ops=ops[:j] + [dict(o, samples=o["samples"][:i] + o["samples"][i + 1:])] + ops[j + 1:])
        if inp["ns"] > 1 and all(max(o.get("samples", [0]) + [o.get("hap", 0) // 2]) < inp["ns"] - 1 for o in ops):
            yield dict(inp, ns=inp["ns"] - 1)

    def mutate(self, inp, rng):
        ops = inp["ops"]
        for j, o in enumerate(ops):
            for d in (-1, 1):
                yield dict(inp, ops=ops[:j] + [dict(o, a=max(0, o["a"] + d))] + ops[j + 1:])
                yield dict(inp, ops=ops[:j] + [dict(o, b=max(0, o["b"] + d))] + ops[j + 1:])

    def signature(self, inp, obs):
        # which relation holds between two accepted intervals of one reference haplotype that share a position
        acc = []
        if isinstance(obs, dict) and "res" in obs:
            for o, r in zip(inp["ops"], obs["res"]):
                if o["k"] == "coord" and r.get("ok") is False:
                    acc.append((o["hap"], o["c"], o["a"], o["b"]))
                elif o["k"] == "sample" and isinstance(r.get("ok"), list):
                    acc.append((2 * r["ok"][0] + r["ok"][1], o["c"], o["a"], o["b"]))
        kinds = set()
        for i, (h, c, a, b) in enumerate(acc):
            for h2, c2, a2, b2 in acc[:i]:
                if (h, c) == (h2, c2) and max(a, a2) <= min(b, b2):
                    if a2 <= a and b <= b2:
                        kinds.add("nested")
                    elif a == b2 or b == a2:
                        kinds.add("shared-end-point")
                    else:
                        kinds.add("overlap")
        return "kernel reference haplotype handed out twice: " + (",".join(sorted(kinds)) or "none (model disagreement)")


def model_labels(inp):
    """header labels of an output_vcf case: 'Admixed' + the case's labels (default P1..Pk as in C03)"""
    k = inp["npop"] - 1
    labs = inp.get("labels") or [f"P{i}" for i in range(1, k + 1)] + ["OTHER"]
    return ["Admixed"] + list(labs[:k]), list(labs[k:]) or ["OTHER"]


def run_output_vcf_labeled(inp):
    """c03.run_output_vcf with the case's own population labels in the model header and the sample-info file
    (C03 always writes P1..Pk); the model works on label numbers, so the case term is C03's."""
    import shutil
    import tempfile

    from haptools.admix_storage import HaplotypeSegment as S
    from haptools.logging import getLogger
    import haptools.sim_genotype as sg
    from . import c03

    d = tempfile.mkdtemp(prefix="hv_c14n_")
    rec = None
    try:
        panel, recs = c03.write_panel(inp, d)
        pops, unused = model_labels(inp)
        model = os.path.join(d, "model.dat")
        with open(model, "w") as f:
            f.write(f"{len(inp['bps']) // 2}\t" + "\t".join(pops) + "\n1\t0\t" +
                    "\t".join(["1"] + ["0"] * (len(pops) - 2)) + "\n")
        info = os.path.join(d, "info.tab")
        with open(info, "w") as f:
            for s_, p in inp["info"]:
                f.write(f"{c03.info_name(s_)}\t{pops[p] if p < len(pops) else unused[(p - len(pops)) % len(unused)]}\n")
        bps = [[S(int(t[0]), int(t[1]), int(t[2]), float(t[3])) for t in hap] for hap in inp["bps"]]
        out = os.path.join(d, "out." + inp["out"])
        region = None
        if inp.get("region"):
            g = inp["region"]
            region = {"chr": c03.chrom_str(g[0]), "start": int(g[1]), "end": int(g[2])}
        log = getLogger("hv", "CRITICAL")
        np.random.seed(inp["seed"])
        rec = c03.DrawRecorder()
        try:
            try:
                sg.output_vcf(bps, [c03.chrom_str(c) for c in inp["chroms"]], model, panel, info, region,
                              bool(inp["pop_field"]), bool(inp["sample_field"]), bool(inp["norep"]), out, log)
                err = None
            except Exception as e:  # noqa
                err = {"err": err_kind(e), "cls": type(e).__name__, "msg": str(e)[:200]}
        finally:
            rec.close()
        draws = shuffle_draws(rec, inp["ref"]["nref"])
        if err is not None:
            return {"failed": err, "draws": draws}
        return {"out": c03.read_output(out, inp, recs, pops), "draws": draws}
    finally:
        if rec is not None:
            rec.close()
        shutil.rmtree(d, ignore_errors=True)


def shuffle_draws(rec, nref):
    smap = {f"R{i}": i for i in range(nref)}
    return {
        "choice": rec.choice,
        "strand": rec.strand,
        "shuffle": [[smap.get(x, -int(x[6:]) if x.startswith("absent") else -99) for x in l] for l in rec.shuffle],
        "ok": rec.ok,
    }


# ---- sample-info files whose populations overlap ---------------------------------------------
# A reference sample may be listed under two or three of the model's source populations (overlapping
# groupings).  validate_params accepts such a file (it counts lines per label), output_vcf puts the sample into
# each population's list, and the bookkeeping of used stretches hangs on the reference haplotype (VCF column x
# strand), so a stretch copied for a block of population A is seen when a block of population B asks for it.

OVERLAP_MODES = ["one-shared", "subset", "all-share", "added", "pool", "pool-exhausted", "duplicate-line"]


def overlap_rows(rng, rows, model_labs, mode, fresh=None):
    """rows: sample-info lines [[sample, label]] (any hashable ids).  Returns new lines in which some reference
    samples are listed under several labels of model_labs:
      one-shared     : one sample of a population A is also THE sample of one line of another population B
      subset         : the lines of B take (distinct) samples of A - all samples of B also belong to A (|B| <= |A|),
                       or all samples of A also belong to B
      all-share      : as subset, for every other model population (samples under two or three populations)
      added          : further lines: samples of A listed under B as well (B's count grows)
      pool           : every model population lists the same m samples (m = the largest count any had)
      pool-exhausted : every model population lists the same ONE or TWO samples (the panel runs out)
      duplicate-line : a line of the file occurs twice (same sample, same population)
    Line counts per label are kept by one-shared / subset / all-share."""
    rows = [list(x) for x in rows]
    by = {}
    for i, (s_, lab) in enumerate(rows):
        if lab in model_labs and not (isinstance(s_, int) and s_ < 0):
            by.setdefault(lab, []).append(i)
    labs = [lab for lab in model_labs if by.get(lab)]
    if not labs:
        return rows
    if mode == "duplicate-line":
        i = int(rng.integers(0, len(rows)))
        rows.insert(int(rng.integers(0, len(rows) + 1)), list(rows[i]))
        return rows
    a = labs[int(rng.integers(0, len(labs)))]
    a_samples = list(dict.fromkeys(rows[i][0] for i in by[a]))
    others = [lab for lab in labs if lab != a]
    if mode in ("pool", "pool-exhausted"):
        if mode == "pool":
            m = max(len(by[lab]) for lab in labs)
        else:
            m = int(rng.integers(1, 3))
        pool = list(a_samples)
        for lab in others:
            for i in by[lab]:
                if rows[i][0] not in pool:
                    pool.append(rows[i][0])
        pool = pool[:m]
        keep = [x for i, x in enumerate(rows) if x[1] not in labs]
        new = [[s_, lab] for lab in labs for s_ in pool]
        out = keep + new
        return [out[i] for i in rng.permutation(len(out))]
    if not others:
        return rows
    if mode == "added":
        b = others[int(rng.integers(0, len(others)))]
        have = set(rows[i][0] for i in by[b])
        cand = [s_ for s_ in a_samples if s_ not in have]
        for s_ in cand[:int(rng.integers(1, len(cand) + 1))] if cand else []:
            rows.insert(int(rng.integers(0, len(rows) + 1)), [s_, b])
        return rows
    targets = others if mode == "all-share" else [others[int(rng.integers(0, len(others)))]]
    for b in targets:
        have = set(rows[i][0] for i in by[b])
        src = [s_ for s_ in a_samples if s_ not in have]
        idxs = list(by[b])
        if mode == "one-shared":
            idxs = [idxs[int(rng.integers(0, len(idxs)))]]
        for i, s_ in zip(idxs, src):
            rows[i][0] = s_
    return rows


def sharing(rows, model_labs):
    """semantic description of the overlap in a sample-info table (computed, not the generator's mode)"""
    pops_of = {}
    members = {lab: set() for lab in model_labs}
    dup = False
    seen = set()
    for s_, lab in rows:
        if lab in members and not (isinstance(s_, int) and s_ < 0):
            if (s_, lab) in seen:
                dup = True
            seen.add((s_, lab))
            pops_of.setdefault(s_, set()).add(lab)
            members[lab].add(s_)
    out = set()
    k = max([len(v) for v in pops_of.values()] + [0])
    if k >= 2:
        out.add("sample-under-%d-populations" % min(k, 3))
    labs = [lab for lab in model_labs if members[lab]]
    for i, x in enumerate(labs):
        for y in labs[i + 1:]:
            if members[x] == members[y]:
                out.add("two-populations-list-the-same-samples")
            elif members[x] <= members[y] or members[y] <= members[x]:
                out.add("all-samples-of-a-population-also-in-another")
            elif members[x] & members[y]:
                out.add("populations-partly-overlap")
    if dup:
        out.add("line-twice")
    return out


def shared_pairs(rows, model_labs):
    """pairs of model labels that have a reference sample in common (incl. each label with itself)"""
    members = {}
    for s_, lab in rows:
        if lab in model_labs:
            members.setdefault(lab, set()).add(s_)
    return {(x, y) for x in members for y in members if x == y or members[x] & members[y]}


def gen_overlap_norep(rng, tier, mode=None):
    """an output_vcf(no_replacement) case of C03's generator whose sample-info file lists reference samples under
    several of the model's populations; panels identifiable, so the no-reuse checker decides from the output"""
    from . import c03

    while True:
        c = c03.gen_case(rng, tier, want_norep=True)
        if not c03.covered(c):
            continue
        if c["npop"] < 3 and rng.random() < 0.85:
            continue                      # one source population cannot overlap with another
        mode = mode or str(rng.choice(OVERLAP_MODES, p=[0.2, 0.2, 0.2, 0.1, 0.12, 0.12, 0.06]))
        c["info"] = [[int(a), int(b)] for a, b in overlap_rows(rng, c["info"], list(range(1, c["npop"])), mode)]
        c["overlap"] = mode
        return c


def gen_wide_norep(rng, tier, wclass):
    """C03's wide panel (129.. / 257.. / 65537.. reference samples, the model populations' samples in the HIGH columns)
    with no_replacement and the SAMPLE field written, so that holds_norep_smp reads the provenance"""
    from . import c03

    c = None
    for _ in range(40):
        c = c03.gen_wide_case(rng, tier, wclass)
        if c["norep"] and c03.covered(c):
            break
    c["norep"] = True
    c["sample_field"] = True
    if rng.random() < 0.4:
        c["info"] = [[int(a), int(b)] for a, b in overlap_rows(rng, c["info"], list(range(1, c["npop"])), "all-share")]
        c["overlap"] = "all-share"
    return c


def gen_many_populations(rng, tier, overflow=False):
    """254..300 source populations in the model header (hap_pops and the POP arrays are uint8).  A few reference samples
    serve all of them (overlapping populations), the blocks use the labels 253..255 (and small ones); with overflow a
    label 256.. (which np.asarray(.., dtype=np.uint8) refuses with OverflowError under numpy >= 2)."""
    from . import c03

    k = int(rng.choice([254, 255, 256, 257, int(rng.integers(258, 301))]))
    if overflow:
        k = max(k, 257)
    nref = int(rng.integers(3, 6))
    npop = k + 1
    info = [[int(rng.integers(0, nref)), p] for p in range(1, npop)]
    hot = [p for p in (1, 2, 127, 128, 253, 254, 255) if p <= k]
    for p in hot:                                   # the populations the blocks use list two or three samples
        have = {s_ for s_, q in info if q == p}
        for s_ in rng.permutation(nref)[:2]:
            if int(s_) not in have:
                info.append([int(s_), p])
    info = [info[i] for i in rng.permutation(len(info))]
    c = int(rng.choice([1, 2, 10]))
    pos = sorted(set(int(x) for x in rng.choice([5, 10, 20, 30, 40], size=3)))
    vars_ = [[False, c, p] for p in pos]
    data = [[None] * len(vars_) for _ in range(nref)]
    for vi in range(len(vars_)):
        sh = int(rng.integers(0, 2 * nref))
        for rr in range(nref):
            data[rr][vi] = [(2 * rr + sh) % (2 * nref), (2 * rr + 1 + sh) % (2 * nref)]
    bps = []
    for h in range(2):
        ends = sorted(set(int(x) for x in rng.choice([p + d for p in pos for d in (-1, 0, 1)], size=int(rng.integers(0, 3)))))
        hap = [[int(rng.choice(hot)), c, int(e), 0] for e in ends + [c03.MAXI]]
        bps.append(hap)
    if overflow:
        big = [p for p in (256, 257, k) if p <= k]
        h = int(rng.integers(0, 2))
        j = int(rng.integers(0, len(bps[h])))
        bps[h][j][0] = int(rng.choice(big))
    return {
        "chroms": [c], "npop": npop, "info": info,
        "ref": {"nref": nref, "vars": vars_, "nalleles": [2 * nref] * len(vars_), "data": data, "fmt": "vcf.gz"},
        "bps": bps, "region": None, "pop_field": bool(rng.random() < 0.8), "sample_field": bool(rng.random() < 0.5),
        "norep": True, "out": str(rng.choice(["vcf.gz", "vcf", "bcf"])), "seed": int(rng.integers(1, 2**31 - 1)),
        "kind": "wellformed", "boundary": "label>255" if overflow else "many-populations",
    }


def gen_many_blocks_norep(rng, tier):
    """C03's width-boundary case with 254..300 tracts on one chromosome, run with no_replacement: a reference haplotype
    collects more than 255 registered intervals, and the second simulated haplotype has to be fitted between them"""
    from . import c03

    c = c03.gen_boundary_case(rng, tier, "many-blocks")
    c["norep"] = True
    c["sample_field"] = True
    c["boundary"] = "many-blocks"
    if rng.random() < 0.7:
        # one reference sample per population and (mostly) one population: all intervals of the first simulated haplotype
        # pile up on ONE reference haplotype, the second simulated haplotype has to take the sample's other strand
        k = c["npop"] - 1
        perm = [int(x) for x in rng.permutation(c["ref"]["nref"])]
        c["info"] = [[perm[p - 1], p] for p in range(1, k + 1)] + [[s_, c["npop"]] for s_ in perm[k:k + 1]]
        if rng.random() < 0.7:
            c["bps"] = [[[1, t[1], t[2], t[3]] for t in hap] for hap in c["bps"]]
    return c


class Norep(Relation):
    """output_vcf(no_replacement=True) end to end; case type and runner are C03's, the model is C03's wrapped
    with numpy's uint8 range check for population labels (C14_CheckVcf.output_vcf_w)."""
    name = "norep"
    coq_module = "C14_CheckVcf"
    coq_check = "check_norep"
    coq_case_type = "ocase"
    coq_model = "model_norep"
    coq_imports = ["Tracts", "C01_Model", "C14_Model", "C03_Model", "C03_Check"]
    budget = {"quick": 300, "thorough": 3000}
    max_cases_per_shard = 40
    anchors = [
        ("haptools/sim_genotype.py", "output_vcf"),
        ("haptools/sim_genotype.py", "_convert_haplotype"),
        ("haptools/sim_genotype.py", "_find_random_sample"),
        ("haptools/sim_genotype.py", "_find_coord"),
    ]

    def preamble(self):
        return "Import C03_Check."

    def generate(self, rng, n, tier):
        from . import c03

        out = []
        while len(out) < n:
            if rng.random() < 0.45:
                c = gen_overlap_norep(rng, tier)
            else:
                c = c03.gen_case(rng, tier, want_norep=True)
            if c03.covered(c):
                # population labels in every string relation to one another (nested, case, digits ...);
                # the last one labels the sample-info lines of the unused population
                c["labels"], _ = gen_labels(rng, c["npop"] - 1, 1)
                out.append(c)
        # width-boundary stream: wide panels (chosen samples in columns >= 128 / 256), > 255 registered intervals on a
        # reference haplotype, 254..300 source populations (labels around 255 | 256)
        k = max(1, n // 600)
        extra = [gen_wide_norep(rng, tier, "w256") for _ in range(k)]
        extra += [gen_wide_norep(rng, tier, "w128") for _ in range(k)]
        extra += [gen_many_blocks_norep(rng, tier) for _ in range(k)]
        extra += [gen_many_populations(rng, tier) for _ in range(k)]
        extra += [gen_many_populations(rng, tier, overflow=True) for _ in range(k)]
        if tier == "thorough":
            extra += [gen_wide_norep(rng, tier, "w65536")]
        out += [c for c in extra if c03.covered(c)]
        return out

    def run_impl(self, inp):
        return run_output_vcf_labeled(inp)

    def encode(self, inp, obs):
        from . import c03

        draws = obs.get("draws") if isinstance(obs, dict) else None
        if not draws:
            draws = {"choice": [], "strand": [], "shuffle": [], "ok": False}
        return f"(C03_Check.mko {c03.config_term(inp, draws)} {c03.obs_term(inp, obs)})"

    @staticmethod
    def _contended(inp):
        """two simulated haplotypes hold blocks of one population - or of two populations that list a common
        reference sample - on one chromosome whose intervals share a position"""
        pairs = shared_pairs(inp["info"], set(range(1, inp["npop"])))
        blocks = []
        for h, hap in enumerate(inp["bps"]):
            for c in inp["chroms"]:
                prev = -1
                for t in hap:
                    if t[1] == c:
                        blocks.append((h, c, t[0], prev + 1, t[2]))
                        prev = t[2]
        for i, (h, c, p, a, b) in enumerate(blocks):
            for h2, c2, p2, a2, b2 in blocks[:i]:
                if h != h2 and c == c2 and (p, p2) in pairs and max(a, a2) <= min(b, b2):
                    return "same" if p == p2 else "shared"
        return False

    def nontrivial(self, inp, obs):
        return inp["kind"] == "wellformed" and bool(self._contended(inp))

    def classes(self, inp, obs):
        out = [inp["kind"], "ref=" + inp["ref"]["fmt"], "out=" + inp["out"]]
        if self._contended(inp):
            out.append("haplotypes-compete-for-a-population")
        out += sorted(sharing(inp["info"], set(range(1, inp["npop"]))))
        if self._shared_contention(inp):
            out.append("blocks-of-two-populations-compete-for-a-shared-sample")
        if inp.get("wide"):
            top = max([s_ for s_, p_ in inp["info"] if p_ < inp["npop"]] + [0])
            out.append("wide-panel-%s-chosen-column>=%d" % (inp["wide"], 65536 if top >= 65536 else 256 if top >= 256 else 128 if top >= 128 else 0))
        if inp.get("boundary"):
            out.append("boundary-" + inp["boundary"])
            if max([len(hap) for hap in inp["bps"]] + [0]) > 255:
                out.append("more-than-255-intervals-to-register")
            if inp["npop"] > 256:
                out.append("more-than-255-source-populations")
        if isinstance(obs, dict) and "failed" in obs:
            out.append(f"raised-{obs['failed'].get('cls')}")
        elif isinstance(obs, dict) and "out" in obs:
            out.append("completed")
        return out

    @staticmethod
    def _shared_contention(inp):
        """blocks of two DIFFERENT populations that list a common reference sample overlap on a chromosome"""
        pairs = shared_pairs(inp["info"], set(range(1, inp["npop"])))
        blocks = []
        for h, hap in enumerate(inp["bps"]):
            for c in inp["chroms"]:
                prev = -1
                for t in hap:
                    if t[1] == c:
                        blocks.append((h, c, t[0], prev + 1, t[2]))
                        prev = t[2]
        for i, (h, c, p, a, b) in enumerate(blocks):
            for h2, c2, p2, a2, b2 in blocks[:i]:
                if c == c2 and p != p2 and (p, p2) in pairs and max(a, a2) <= min(b, b2):
                    return True
        return False

    def shrink(self, inp):
        from . import c03

        yield from c03.Vcf().shrink(inp)
        info = inp["info"]
        if not inp.get("wide") and not inp.get("boundary"):
            for j in range(len(info) if len(info) > 1 else 0):
                yield dict(inp, info=info[:j] + info[j + 1:])
        if inp.get("labels"):
            yield dict(inp, labels=None)
        # drop the highest reference sample when nothing lists it
        ref = inp["ref"]
        top = max([s_ for s_, _p in info] + [1]) + 1
        if top < ref["nref"] and "data" in ref:
            yield dict(inp, ref=dict(ref, nref=top, data=ref["data"][:top]))

    def mutate(self, inp, rng):
        for _ in range(6):
            yield dict(inp, seed=int(rng.integers(1, 2**31 - 1)))
        # the same panel with reference samples listed under several populations
        if not inp.get("wide") and not inp.get("boundary"):
            for mode in ("all-share", "pool-exhausted", "subset"):
                rows = overlap_rows(rng, inp["info"], list(range(1, inp["npop"])), mode)
                yield dict(inp, info=[[int(a), int(b)] for a, b in rows], seed=int(rng.integers(1, 2**31 - 1)))

    @staticmethod
    def _dup_provenance(inp, o):
        """(by alleles over an identifiable panel, by SAMPLE + allele)"""
        data = None
        by_allele = by_sample = False
        for j in range(len(o["vars"])):
            col = [row[j] for row in o["gt"]]
            if len(set(col)) < len(col):
                by_allele = True
            if o.get("smp"):
                if data is None:
                    from . import c03
                    data = c03.ref_data(inp["ref"])
                keys = []
                for h, row in enumerate(o["gt"]):
                    s_ = o["smp"][h][j]
                    v = o["vars"][j]
                    if s_ is not None and 0 <= s_ < len(data) and 0 <= v < len(data[s_]):
                        a0, a1 = data[s_][v]
                        if a0 != a1 and row[j] in (a0, a1):
                            keys.append((s_, row[j]))
                if len(set(keys)) < len(keys):
                    by_sample = True
        return by_allele, by_sample

    def signature(self, inp, obs):
        if not isinstance(obs, dict) or "out" not in obs:
            return "norep output_vcf did not complete / not observed"
        by_allele, by_sample = self._dup_provenance(inp, obs["out"])
        dup = by_allele or by_sample
        return "norep " + ("one reference haplotype copied into two simulated haplotypes at a variant" if dup
                           else "no duplicate provenance (model disagreement)")


# ---- population labels in every string relation to one another ------------------------------------

LABEL_BASES = ["EUR", "AFR", "CEU", "YRI", "POP1", "AMR", "A", "pop", "Han", "x", "1", "10", "7", "2024", "EAS.N", "S-AS",
               "AFR_W", "Admix"]
LABEL_RELATIONS = ["extends", "prefixed", "infix", "truncated", "tail", "case", "sibling-prefix", "sibling-suffix",
                   "sibling-infix", "reversed", "doubled", "punctuated", "digits", "fresh"]


def related_label(rng, a, kind):
    """A label standing in the string relation `kind` to label a (None when a does not admit it)."""
    pick = lambda xs: str(xs[int(rng.integers(0, len(xs)))])
    if kind == "extends":          # a is a proper prefix of the new label (POP1 / POP10, EUR / EUR_S)
        return a + pick(["0", "1", "_S", "-N", ".1", "x", "S", "_", "10"])
    if kind == "prefixed":         # a is a proper suffix of the new label (AFR / xAFR)
        return pick(["x", "N_", "S-", "1", "0", ".", "_", "sub"]) + a
    if kind == "infix":            # a strictly inside the new label
        return pick(["x", "N_", "1", "."]) + a + pick(["0", "_S", "x", "-2"])
    if kind == "truncated":        # the new label is a proper prefix of a
        return a[:-1] if len(a) > 1 else None
    if kind == "tail":             # the new label is a proper suffix of a
        return a[1:] if len(a) > 1 else None
    if kind == "case":             # differs only in case
        for b in (a.swapcase(), a.lower(), a.upper(), a.capitalize()):
            if b != a:
                return b
        return None
    if kind == "sibling-prefix":   # common prefix, neither contains the other (EUR_N / EUR_S)
        return a[:-1] + ("S" if a[-1] != "S" else "N") if len(a) > 1 else None
    if kind == "sibling-suffix":   # common suffix, neither contains the other (N_EUR / S_EUR)
        return ("S" if a[0] != "S" else "N") + a[1:] if len(a) > 1 else None
    if kind == "sibling-infix":    # common infix, neither contains the other (N_EUR_1 / S_EUR_2)
        return ("S" if a[0] != "S" else "N") + a[1:-1] + ("2" if a[-1] != "2" else "1") if len(a) > 2 else None
    if kind == "reversed":         # same characters, other order
        return a[::-1] if a[::-1] != a else None
    if kind == "doubled":
        return a + a
    if kind == "punctuated":
        return a + pick(["_", "-", "."]) + pick(["1", "2", "N", "a"])
    if kind == "digits":
        return pick(["1", "10", "01", "100", "11", "2", "12", "21", "0"])
    return pick(LABEL_BASES)


def gen_labels(rng, k, nother):
    """k distinct model labels and nother further (unused) labels, each new one in a random string relation
    to an earlier one. Returns (labels, relation kinds); labels[:k] are the model's, in header order."""
    labels, kinds = [str(LABEL_BASES[int(rng.integers(0, len(LABEL_BASES)))])], ["base"]
    tries = 0
    while len(labels) < k + nother and tries < 200:
        tries += 1
        a = labels[int(rng.integers(0, len(labels)))]
        kind = LABEL_RELATIONS[int(rng.integers(0, len(LABEL_RELATIONS)))]
        b = related_label(rng, a, kind)
        if not b or b in labels or b == "Admixed" or not any(ch.isalnum() for ch in b):
            continue                      # (a bare "." would read back as a missing POP value)
        labels.append(b)
        kinds.append(kind)
    while len(labels) < k + nother:
        labels.append(f"Q{len(labels)}")
        kinds.append("fresh")
    # the header order is independent of the order of derivation
    order = [int(x) for x in rng.permutation(k)]
    return [labels[i] for i in order] + labels[k:], [kinds[i] for i in order] + kinds[k:]


def string_relations(a, b):
    """semantic relation classes between two distinct labels a, b (computed, not generator labels)"""
    out = set()
    if a == b:
        return {"same-label"}
    for x, y, tag in ((a, b, ""), (b, a, "")):
        if y.startswith(x):
            out.add("proper-prefix")
        elif y.endswith(x):
            out.add("proper-suffix")
        elif x in y:
            out.add("proper-infix")
    if a.lower() == b.lower():
        out.add("case-only")
    if not out:
        if a[0] == b[0]:
            out.add("common-prefix")
        if a[-1] == b[-1]:
            out.add("common-suffix")
        if sorted(a) == sorted(b):
            out.add("same-characters")
        if any(a[i:i + 2] in b[1:-1] for i in range(1, len(a) - 2)):
            out.add("common-infix")
    if a.isdigit() and b.isdigit():
        out.add("digits-only")
    if any(ch in "_-." for ch in a + b):
        out.add("punctuation")
    return out or {"unrelated"}


def label_ids(pops):
    """string -> number, by string equality; 'Admixed' (the header's first label) = 0, the model's labels 1.."""
    ids = {}
    for p in ["Admixed"] + list(pops):
        ids.setdefault(p, len(ids))
    return ids


def info_counts(pops, info):
    """per model population (header order): number of sample-info lines carrying exactly its label"""
    return [sum(1 for _, lab in info if lab == p) for p in pops]


def classify_error(e):
    """verdict class of a validate_params exception and the population its message names"""
    import re

    msg = str(e)
    for cls, pat in ((1, r"from population (\S+) in sampleinfo file is not present in the vcf file"),
                     (2, r"Population (\S+) in model file is not present in the sample info file"),
                     (3, r"Population (\S+) does not have enough samples to sample without replacement")):
        m = re.search(pat, msg)
        if m:
            return {"cls": cls, "pop": m.group(1), "type": type(e).__name__, "msg": msg[:200]}
    return {"cls": 9, "pop": None, "type": type(e).__name__, "msg": msg[:200]}


def verdict_term(v, ids):
    if not isinstance(v, dict) or "cls" not in v:
        return "(9, 0)"
    pop = 0 if v.get("pop") is None else ids.get(v["pop"], -1)
    return f"({L.z(v['cls'])}, {L.z(pop)})"


def pcase_term(ns, norep, pops, info, panel, verdict):
    """info: [[sample name, label]] in file order; panel: sample names of the reference"""
    ids = label_ids(pops)
    for _, lab in info:
        ids.setdefault(lab, len(ids))
    pidx = {}
    for i, nm in enumerate(panel):
        pidx.setdefault(nm, i)
    absent = {}
    rows = []
    for nm, lab in info:
        s = pidx[nm] if nm in pidx else -absent.setdefault(nm, len(absent) + 1)
        rows.append(f"({L.z(s)}, {L.z(ids[lab])})")
    hdr = [0] + [ids[p] for p in pops]
    return f"(mkp {L.z(ns)} {L.b(norep)} {L.zl(hdr)} {L.lst(rows)} {verdict_term(verdict, ids)})"


def write_named_panel(d, names, pgen=False):
    """a one-variant biallelic reference with the given sample names (all that validate_params reads)"""
    if pgen:
        import pgenlib

        base = os.path.join(d, "panel")
        with open(base + ".psam", "w") as f:
            f.write("#IID\n" + "".join(nm + "\n" for nm in names))
        with open(base + ".pvar", "w") as f:
            f.write("#CHROM\tPOS\tID\tREF\tALT\n1\t10\tv0\tA\tC\n")
        with pgenlib.PgenWriter(base.encode() + b".pgen", len(names), variant_ct=1, nonref_flags=False,
                                hardcall_phase_present=True) as w:
            w.append_alleles(np.array([a for _ in names for a in (0, 1)], dtype=np.int32), all_phased=True)
        return base + ".pgen"
    path = os.path.join(d, "panel.vcf")
    with open(path, "w") as f:
        f.write("##fileformat=VCFv4.2\n##contig=<ID=1>\n"
                '##FORMAT=<ID=GT,Number=1,Type=String,Description="Genotype">\n')
        f.write("#CHROM\tPOS\tID\tREF\tALT\tQUAL\tFILTER\tINFO\tFORMAT\t" + "\t".join(names) + "\n")
        f.write("1\t10\tv0\tA\tC\t.\t.\t.\tGT\t" + "\t".join("0|1" for _ in names) + "\n")
    return path


def deficient_positions(ns, pops, info):
    """header positions (first / middle / last) of the model populations with fewer lines than ns"""
    out = set()
    for j, c in enumerate(info_counts(pops, info)):
        if c < ns:
            out.add("first" if j == 0 else "last" if j == len(pops) - 1 else "middle")
    return out


def covered_by_containing_label(ns, pops, info):
    """some model population is short by equality but the lines of all labels CONTAINING its label
    (as a substring, in either case) would suffice - the panels a coarser comparison wrongly accepts"""
    for p, c in zip(pops, info_counts(pops, info)):
        if c < ns and sum(1 for _, lab in info if p.lower() in lab.lower()) >= ns:
            return True
    return False


class Params(Relation):
    """validate_params: --no_replacement needs >= num_samples sample-info lines per model population,
    a line counting for a population iff its label IS the population's label."""
    name = "params"
    coq_module = "C14_CheckVcf"
    coq_check = "check_params"
    coq_case_type = "pcase"
    coq_model = "model_params"
    coq_imports = ["Tracts", "C01_Model", "C14_Model", "C03_Model", "C03_Check"]
    budget = {"quick": 320, "thorough": 4000}
    anchors = [("haptools/sim_genotype.py", "validate_params")]

    @staticmethod
    def sample_names(rng, labels, own, total):
        """total distinct sample names; style per sample: plain, built from its own / another population's
        label, exactly another label, digits only"""
        names, used = [], set()
        for i in range(total):
            lab = own[i] if i < len(own) else labels[int(rng.integers(0, len(labels)))]
            other = labels[int(rng.integers(0, len(labels)))]
            r = rng.random()
            if r < 0.35:
                nm = f"R{i}"
            elif r < 0.5:
                nm = f"{lab}{i}"
            elif r < 0.62:
                nm = f"{other}_{i}"
            elif r < 0.72:
                nm = other              # a sample called like a population
            elif r < 0.8:
                nm = str(i)
            elif r < 0.9:
                nm = f"{i}{other}"
            else:
                nm = f"HG{i:05d}"
            while nm in used or nm == "":
                nm = f"{nm}.{i}"
            used.add(nm)
            names.append(nm)
        return names

    def one(self, rng, force_norep=None):
        k = int(rng.integers(2, 5))               # validate_params wants at least two source populations
        nother = int(rng.choice([0, 1, 1, 2, 3]))
        labels, kinds = gen_labels(rng, k, nother)
        pops = labels[:k]
        ns = int(rng.integers(1, 5))
        norep = bool(rng.random() < 0.8) if force_norep is None else force_norep
        # counts around the number of simulated samples for every model population; one designated
        # population (first / middle / last) sits at n-1 in a third of the cases
        counts = [int(rng.choice([ns - 1, ns, ns + 1, ns, ns + 1, 1, ns + 2])) for _ in range(k)]
        if rng.random() < 0.35:
            counts = [max(ns, c) for c in counts]
            counts[int(rng.integers(0, k))] = ns - 1
        counts = [max(0, c) for c in counts]
        if rng.random() < 0.85:
            counts = [max(1, c) for c in counts]
        ocounts = [int(rng.choice([0, 1, ns - 1, ns, ns + 1])) for _ in range(nother)]
        ocounts = [max(0, c) for c in ocounts]
        own = [lab for lab, c in zip(labels, counts + ocounts) for _ in range(c)]
        if rng.random() < 0.05:
            own.append("Admixed")
        extra = int(rng.choice([0, 0, 1, 2]))      # panel samples the sample-info file does not list
        names = self.sample_names(rng, labels, own, len(own) + extra)
        info = [[nm, lab] for nm, lab in zip(names, own)]
        order = rng.random()
        if order < 0.6:
            info = [info[i] for i in rng.permutation(len(info))]
        elif order < 0.75:
            info = info[::-1]
        if rng.random() < 0.3:
            # overlapping populations: the same sample name under two or three labels (a line counts for the label it
            # carries, whatever other lines name the same sample), or a line twice
            mode = str(rng.choice(["one-shared", "subset", "all-share", "added", "pool", "pool-exhausted", "duplicate-line"]))
            info = [[str(a), str(b)] for a, b in overlap_rows(rng, info, pops, mode)]
        panel = [names[i] for i in rng.permutation(len(names))] if rng.random() < 0.7 else list(names)
        kind = "wellformed"
        m = rng.random()
        if m < 0.06 and info:
            # a listed sample the panel lacks (its name extends / truncates a panel name)
            j = int(rng.integers(0, len(info)))
            nm = info[j][0]
            for cand in (nm + "0", nm[:-1], "absent" + nm):
                if cand and cand not in names:
                    info[j] = [cand, info[j][1]]
                    break
            kind = "sample-not-in-panel"
        elif m < 0.09:
            # the model header names a population twice
            pops = pops[:-1] + [pops[0]]
            info = [r for r in info if r[1] != labels[k - 1]] if rng.random() < 0.5 else info
            kind = "header-label-twice"
        sep = str(rng.choice(["\t", "\t", " ", "  ", " \t"]))
        return {"ns": ns, "norep": norep, "pgen": bool(rng.random() < 0.12), "pops": pops, "info": info, "panel": panel,
                "sep": sep, "kinds": sorted(set(kinds) - {"base"}), "kind": kind}

    def generate(self, rng, n, tier):
        return [self.one(rng) for _ in range(n)]

    # label pairs (a, b) with every string relation; the grid puts n-1 / n / n+1 lines on each
    PAIRS = [("CEU", "YRI"), ("EUR", "EUR_S"), ("POP1", "POP10"), ("AFR", "xAFR"), ("MR", "AMR1"), ("eur", "EUR"),
             ("Eur", "EUR"), ("EUR_N", "EUR_S"), ("N-EUR", "S-EUR"), ("1", "10"), ("1", "01"), ("12", "21"),
             ("A", "AA"), ("A.1", "A"), ("A", "B"), ("Admixed1", "Admix"), ("ABC", "CBA"), ("p", "pop")]

    def exhaustive(self, tier):
        out = []
        for a, b in self.PAIRS:
            for pops in ([a, b], [b, a]):
                for ns in (1, 2, 3):
                    for ca, cb in itertools.product((ns - 1, ns, ns + 1), repeat=2):
                        if min(ca, cb) < 1:
                            continue
                        for norep in (True, False) if (ca, cb) == (ns - 1, ns + 1) else (True,):
                            own = [pops[0]] * ca + [pops[1]] * cb
                            names = [f"R{i}" for i in range(len(own))]
                            out.append({"ns": ns, "norep": norep, "pgen": False, "pops": pops,
                                        "info": [[nm, lab] for nm, lab in zip(names, own)], "panel": names,
                                        "sep": "\t", "kinds": [], "kind": "grid"})
        # three populations, the short one first / middle / last, an unused population whose label extends it
        for pos in range(3):
            for short, longer in (("EUR", "EUR_S"), ("POP1", "POP10"), ("AFR", "xAFR"), ("afr", "AFR")):
                for where in ("model", "unused"):
                    for ns in (2, 3):
                        pops = ["CEU", "YRI", "GBR"]
                        pops[pos] = short
                        if where == "model":
                            pops[(pos + 1) % 3] = longer
                        own = []
                        for p in pops:
                            own += [p] * (ns - 1 if p == short else ns)
                        if where == "unused":
                            own += [longer] * ns
                        names = [f"R{i}" for i in range(len(own))]
                        out.append({"ns": ns, "norep": True, "pgen": False, "pops": pops,
                                    "info": [[nm, lab] for nm, lab in zip(names, own)], "panel": names,
                                    "sep": "\t", "kinds": [], "kind": "grid"})
        return out

    def run_impl(self, inp):
        import shutil
        import tempfile

        import haptools.sim_genotype as sg

        d = tempfile.mkdtemp(prefix="hv_c14p_")
        try:
            panel = write_named_panel(d, inp["panel"], inp["pgen"])
            pops = inp["pops"]
            k = len(pops)
            model = os.path.join(d, "model.dat")
            with open(model, "w") as f:
                f.write(f"{inp['ns']}\tAdmixed\t" + "\t".join(pops) + "\n1\t0\t" + "\t".join(["1"] + ["0"] * (k - 1)) + "\n")
            info = os.path.join(d, "info.tab")
            with open(info, "w") as f:
                for nm, lab in inp["info"]:
                    f.write(f"{nm}{inp['sep']}{lab}\n")
            mapdir = os.path.join(d, "map")
            os.makedirs(mapdir)
            with open(os.path.join(mapdir, "g.chr1.map"), "w") as f:
                f.write("1\t.\t0.0\t5\n1\t.\t1.0\t50\n")
            try:
                sg.validate_params(model, mapdir, ["1"], 10, panel, info, inp["norep"])
                return {"cls": 0, "pop": None}
            except Exception as e:  # noqa
                return classify_error(e)
        finally:
            shutil.rmtree(d, ignore_errors=True)

    def encode(self, inp, obs):
        return pcase_term(inp["ns"], inp["norep"], inp["pops"], inp["info"], inp["panel"], obs)

    @staticmethod
    def _pair_relations(inp):
        labs = list(dict.fromkeys(list(inp["pops"]) + [lab for _, lab in inp["info"]]))
        out = set()
        for p in inp["pops"]:
            for q in labs:
                if q != p:
                    out |= string_relations(p, q)
        return out

    def nontrivial(self, inp, obs):
        rel = self._pair_relations(inp) - {"unrelated", "punctuation", "digits-only"}
        near = any(c in (inp["ns"] - 1, inp["ns"]) for c in info_counts(inp["pops"], inp["info"]))
        return bool(inp["norep"] and near and rel)

    def classes(self, inp, obs):
        out = ["norep" if inp["norep"] else "replacement", "pgen" if inp["pgen"] else "vcf", inp["kind"]]
        out += ["labels:" + r for r in sorted(self._pair_relations(inp))]
        counts = info_counts(inp["pops"], inp["info"])
        if inp["norep"]:
            out += ["short-population-" + w for w in sorted(deficient_positions(inp["ns"], inp["pops"], inp["info"]))]
            if covered_by_containing_label(inp["ns"], inp["pops"], inp["info"]):
                out.append("short-but-containing-labels-suffice")
        if any(c == inp["ns"] for c in counts):
            out.append("exactly-enough")
        labs = set(lab for _, lab in inp["info"])
        if any(nm in labs or any(p in nm for p in inp["pops"]) for nm, _ in inp["info"]):
            out.append("sample-name-contains-a-label")
        out += sorted(sharing(inp["info"], set(inp["pops"])))
        if isinstance(obs, dict) and "cls" in obs:
            out.append(f"verdict-{obs['cls']}")
        return out

    def shrink(self, inp):
        pops, info = inp["pops"], inp["info"]
        if len(pops) > 2:
            for j in range(len(pops)):
                yield dict(inp, pops=pops[:j] + pops[j + 1:], info=[r for r in info if r[1] != pops[j]])
        unused = sorted(set(lab for _, lab in info) - set(pops))
        for u in unused:
            yield dict(inp, info=[r for r in info if r[1] != u])
        canon_names = {nm: f"R{i}" for i, nm in enumerate(inp["panel"])}
        if any(k != v for k, v in canon_names.items()) and all(nm in canon_names for nm, _ in info):
            yield dict(inp, panel=[canon_names[nm] for nm in inp["panel"]],
                       info=[[canon_names[nm], lab] for nm, lab in info], sep="\t")
        listed = set(nm for nm, _ in info)
        if any(nm not in listed for nm in inp["panel"]):
            yield dict(inp, panel=[nm for nm in inp["panel"] if nm in listed])
        if inp["ns"] > 1:
            # one simulated sample less and one line less per label
            seen, keep = set(), []
            for r in info:
                if r[1] in seen:
                    keep.append(r)
                seen.add(r[1])
            yield dict(inp, ns=inp["ns"] - 1, info=keep)
        for j in range(len(info)):
            yield dict(inp, info=info[:j] + info[j + 1:])

    def mutate(self, inp, rng):
        # move every model population's count to n-1 / n in turn, add lines of labels related to it
        for p in inp["pops"]:
            lines = [r for r in inp["info"] if r[1] == p]
            if len(lines) >= inp["ns"] and inp["ns"] >= 1:
                drop = set(nm for nm, _ in lines[inp["ns"] - 1:])
                yield dict(inp, norep=True, info=[r for r in inp["info"] if r[0] not in drop])
            for kind in ("extends", "prefixed", "case", "infix"):
                q = related_label(rng, p, kind)
                if q and q not in inp["pops"] and q != "Admixed":
                    add = [[f"M{len(inp['panel']) + i}", q] for i in range(inp["ns"] + 1)]
                    short = [r for r in inp["info"] if r[1] != p] + lines[:max(1, inp["ns"] - 1)]
                    yield dict(inp, norep=True, info=short + add, panel=inp["panel"] + [a[0] for a in add])

    def signature(self, inp, obs):
        cls = obs.get("cls") if isinstance(obs, dict) else None
        short = inp["norep"] and any(c < inp["ns"] for c in info_counts(inp["pops"], inp["info"]))
        if short and cls == 0:
            return "params validate_params accepts --no_replacement with fewer samples in a population than simulated samples"
        if cls == 3 and not short:
            return "params validate_params reports too few samples for a panel that has enough in every population"
        return "params verdict differs from the model (no clause of the property broken)"


class Cli(Relation):
    """The simgenotype command with --no_replacement, end to end: validate_params -> simulate_gt ->
    write_breakpoints -> output_vcf on identifiable panels whose population labels stand in every string
    relation to one another. Observed: validate_params' verdict, whether simulate_gt was entered, whether any
    file was written, and the output_vcf call (breakpoints as handed over, shuffles recorded, output read back
    with pysam) which is checked against C03's model and the no-reuse checker."""
    name = "cli"
    coq_module = "C14_CheckVcf"
    coq_check = "check_cli"
    coq_case_type = "ccase"
    coq_model = "model_cli"
    coq_imports = ["Tracts", "C01_Model", "C14_Model", "C03_Model", "C03_Check"]
    budget = {"quick": 160, "thorough": 2000}
    max_cases_per_shard = 30
    anchors = [
        ("haptools/sim_genotype.py", "validate_params"),
        ("haptools/sim_genotype.py", "output_vcf"),
        ("haptools/sim_genotype.py", "_convert_haplotype"),
    ]   # (haptools/__main__.py::simgenotype is not in anchors.json; an unrecorded anchor would count as changed)
    FRACS = {2: [("0.5", "0.5"), ("0.25", "0.75"), ("0.75", "0.25")],
             3: [("0.5", "0.25", "0.25"), ("0.25", "0.25", "0.5"), ("0.125", "0.375", "0.5")]}
    BP_GRID = [10, 20, 30, 50, 80, 100, 150, 200, 300]

    def preamble(self):
        return "Import C03_Check."

    def one(self, rng):
        r = rng.random
        k = int(rng.integers(2, 4))
        nother = int(rng.choice([0, 1, 1, 2]))
        labels, kinds = gen_labels(rng, k, nother)
        ns = int(rng.integers(1, 4))
        norep = bool(r() < 0.9)
        counts = [int(rng.choice([ns - 1, ns, ns, ns + 1, ns + 1])) for _ in range(k)]
        if r() < 0.4:
            counts = [max(ns, c) for c in counts]
            counts[int(rng.integers(0, k))] = ns - 1      # the short population: first / middle / last
        counts = [max(1, c) for c in counts] if r() < 0.95 else [max(0, c) for c in counts]
        ocounts = [max(0, int(rng.choice([0, 1, ns, ns + 1]))) for _ in range(nother)]
        own = [lab for lab, c in zip(labels, counts + ocounts) for _ in range(c)]
        nref = max(2, len(own) + int(rng.choice([0, 0, 1])))
        perm = [int(x) for x in rng.permutation(nref)]
        info = [[perm[i], lab] for i, lab in enumerate(own)]
        if r() < 0.7:
            info = [info[i] for i in rng.permutation(len(info))]
        overlap = None
        if r() < 0.45:
            # overlapping populations: reference samples listed under two or three of the model's populations
            overlap = str(rng.choice(["one-shared", "subset", "all-share", "added", "pool", "pool-exhausted"],
                                     p=[0.2, 0.25, 0.25, 0.1, 0.15, 0.05]))
            info = [[int(a), b] for a, b in overlap_rows(rng, info, labels[:k], overlap)]
        nchr = int(rng.choice([1, 1, 2]))
        chroms = sorted(int(c) for c in rng.choice([1, 2, 10, 22], size=nchr, replace=False))
        maps, vars_ = {}, []
        for c in chroms:
            m = int(rng.integers(3, 7))
            bps = sorted(int(x) for x in rng.choice(self.BP_GRID, size=m, replace=False))
            cm, rows = 0.0, []
            for b in bps:
                rows.append([cm, b])
                cm += float(rng.choice([5.0, 30.0, 60.0, 120.0]))
            maps[str(c)] = rows
            cand = sorted(set([b + dl for b in bps for dl in (-1, 0, 1)] + [5, 400]))
            nv = int(rng.integers(1, 5))
            for p in sorted(set(int(x) for x in rng.choice(cand, size=nv))):
                vars_.append([False, c, p])
        nv = len(vars_)
        data = [[None] * nv for _ in range(nref)]
        for vi in range(nv):          # one allele per reference haplotype, numbering rotated per variant
            sh = int(rng.integers(0, 2 * nref))
            for rr in range(nref):
                data[rr][vi] = [(2 * rr + sh) % (2 * nref), (2 * rr + 1 + sh) % (2 * nref)]
        nalleles = [2 * nref + int(rng.integers(0, 2)) for _ in range(nv)]
        fr = self.FRACS[k][int(rng.integers(0, len(self.FRACS[k])))]
        gens = ["1\t0\t" + "\t".join(fr)]
        g = 1
        for _ in range(int(rng.choice([0, 1, 1, 2]))):
            g += int(rng.integers(1, 3))
            gens.append(f"{g}\t1\t" + "\t".join(["0"] * k) if r() < 0.6 else f"{g}\t0.5\t" + "\t".join(
                str(float(x) / 2) for x in fr))
        return {
            "ns": ns, "norep": norep, "pops": labels[:k], "info": info, "chroms": chroms, "maps": maps, "gens": gens,
            "ref": {"nref": nref, "vars": vars_, "nalleles": nalleles, "data": data,
                    "fmt": str(rng.choice(["vcf.gz", "vcf.gz", "bcf", "pgen"], p=[0.4, 0.3, 0.2, 0.1]))},
            "seed": int(rng.integers(1, 2**31 - 1)), "popsize": int(rng.choice([2, 10, 25])),
            "pop_field": bool(r() < 0.5), "sample_field": bool(r() < 0.5), "out": str(rng.choice(["vcf.gz", "vcf", "bcf"])),
            "kinds": sorted(set(kinds) - {"base"}), "kind": "wellformed", "overlap": overlap,
        }

    def generate(self, rng, n, tier):
        return [self.one(rng) for _ in range(n)]

    @staticmethod
    def as_c03(inp, bps):
        """the output_vcf call of the command as a C03 case"""
        pops = ["Admixed"] + list(inp["pops"])
        idx = {}
        for i, p in enumerate(pops):
            idx.setdefault(p, i)
        return {"chroms": inp["chroms"], "npop": len(pops), "info": [[s_, idx.get(lab, len(pops))] for s_, lab in inp["info"]],
                "ref": inp["ref"], "bps": bps or [], "region": None, "pop_field": inp["pop_field"],
                "sample_field": inp["sample_field"], "norep": inp["norep"], "out": inp["out"]}

    def run_impl(self, inp):
        import shutil
        import tempfile

        from click.testing import CliRunner

        import haptools.sim_genotype as sg
        from haptools.__main__ import main
        from . import c03

        d = tempfile.mkdtemp(prefix="hv_c14c_")
        st = {"val": None, "sim": False, "wbp": False, "out_called": False, "bps": None, "draws": None, "out_err": None}
        saved = (sg.validate_params, sg.simulate_gt, sg.write_breakpoints, sg.output_vcf)
        try:
            panel, recs = c03.write_panel(inp, d)
            pops = ["Admixed"] + list(inp["pops"])
            model = os.path.join(d, "model.dat")
            with open(model, "w") as f:
                f.write(f"{inp['ns']}\t" + "\t".join(pops) + "\n" + "".join(g + "\n" for g in inp["gens"]))
            info = os.path.join(d, "info.tab")
            with open(info, "w") as f:
                for s_, lab in inp["info"]:
                    f.write(f"R{s_}\t{lab}\n")
            mapdir = os.path.join(d, "map")
            os.makedirs(mapdir)
            for c, rows in inp["maps"].items():
                with open(os.path.join(mapdir, f"g.chr{c03.chrom_str(int(c))}.map"), "w") as f:
                    for j, (cm, bp) in enumerate(rows):
                        f.write(f"{c03.chrom_str(int(c))}\tm{j}\t{cm}\t{bp}\n")
            out = os.path.join(d, "out." + inp["out"])

            def val(*a, **kw):
                try:
                    res = saved[0](*a, **kw)
                except Exception as e:  # noqa
                    st["val"] = classify_error(e)
                    raise
                st["val"] = {"cls": 0, "pop": None}
                return res

            def sim(*a, **kw):
                st["sim"] = True
                return saved[1](*a, **kw)

            def wbp(*a, **kw):
                st["wbp"] = True
                return saved[2](*a, **kw)

            def outv(breakpoints, *a, **kw):
                st["out_called"] = True
                st["bps"] = [[[int(t.get_pop()), int(t.get_chrom()), int(t.get_end_coord()), float(t.get_end_pos())]
                              for t in hap] for hap in breakpoints]
                rec = c03.DrawRecorder()
                try:
                    try:
                        return saved[3](breakpoints, *a, **kw)
                    except Exception as e:  # noqa
                        st["out_err"] = {"err": err_kind(e), "cls": type(e).__name__, "msg": str(e)[:200]}
                        raise
                finally:
                    rec.close()
                    st["draws"] = shuffle_draws(rec, inp["ref"]["nref"])

            sg.validate_params, sg.simulate_gt, sg.write_breakpoints, sg.output_vcf = val, sim, wbp, outv
            args = ["simgenotype", "--model", model, "--mapdir", mapdir, "--chroms",
                    ",".join(c03.chrom_str(c) for c in inp["chroms"]), "--ref_vcf", panel, "--sample_info", info,
                    "--out", out, "--seed", str(inp["seed"]), "--popsize", str(inp["popsize"]), "--verbosity", "CRITICAL"]
            for flag in ("pop_field", "sample_field"):
                if inp[flag]:
                    args.append("--" + flag)
            if inp["norep"]:
                args.append("--no_replacement")
            try:
                result = CliRunner().invoke(main, args)
            finally:
                sg.validate_params, sg.simulate_gt, sg.write_breakpoints, sg.output_vcf = saved
            obs = {"val": st["val"], "sim": st["sim"], "exit": int(result.exit_code),
                   "exc": None if result.exception is None else f"{type(result.exception).__name__}: {result.exception}"[:200],
                   "wrote": sorted(fn for fn in os.listdir(d) if fn.startswith("out."))}
            if st["out_called"]:
                obs["bps"] = st["bps"]
                if st["out_err"] is not None:
                    obs["ocall"] = {"failed": st["out_err"], "draws": st["draws"]}
                elif os.path.exists(out):
                    obs["ocall"] = {"out": c03.read_output(out, self.as_c03(inp, st["bps"]), recs, pops), "draws": st["draws"]}
                else:
                    obs["ocall"] = {"failed": {"err": 97, "cls": "NoOutputFile", "msg": ""}, "draws": st["draws"]}
            return obs
        finally:
            sg.validate_params, sg.simulate_gt, sg.write_breakpoints, sg.output_vcf = saved
            shutil.rmtree(d, ignore_errors=True)

    def encode(self, inp, obs):
        from . import c03

        names = [f"R{i}" for i in range(inp["ref"]["nref"])]
        rows = [[f"R{s_}", lab] for s_, lab in inp["info"]]
        observed = isinstance(obs, dict) and "sim" in obs
        pc = pcase_term(inp["ns"], inp["norep"], inp["pops"], rows, names, obs.get("val") if observed else None)
        if not observed:
            return f"(mkc {pc} false false None)"
        o = "None"
        if "ocall" in obs:
            ci = self.as_c03(inp, obs["bps"])
            o = f"(Some (C03_Check.mko {c03.config_term(ci, obs['ocall']['draws'])} {c03.obs_term(ci, obs['ocall'])}))"
        return f"(mkc {pc} {L.b(obs['sim'])} {L.b(bool(obs['wrote']))} {o})"

    @staticmethod
    def _rows(inp):
        return [[f"R{s_}", lab] for s_, lab in inp["info"]]

    def _short(self, inp):
        return inp["norep"] and any(c < inp["ns"] for c in info_counts(inp["pops"], self._rows(inp)))

    def nontrivial(self, inp, obs):
        near = any(c in (inp["ns"] - 1, inp["ns"]) for c in info_counts(inp["pops"], self._rows(inp)))
        return bool(inp["norep"] and near)

    def classes(self, inp, obs):
        rows = self._rows(inp)
        out = ["norep" if inp["norep"] else "replacement", "ref=" + inp["ref"]["fmt"], "out=" + inp["out"],
               f"chroms={len(inp['chroms'])}", f"gens={len(inp['gens'])}"]
        out += ["labels:" + x for x in sorted(Params._pair_relations({"pops": inp["pops"], "info": rows}))]
        if inp["norep"]:
            out += ["short-population-" + w for w in sorted(deficient_positions(inp["ns"], inp["pops"], rows))]
            if covered_by_containing_label(inp["ns"], inp["pops"], rows):
                out.append("short-but-containing-labels-suffice")
        out += sorted(sharing(rows, set(inp["pops"])))
        if isinstance(obs, dict) and "sim" in obs:
            out.append(f"verdict-{(obs.get('val') or {}).get('cls')}")
            if obs["sim"]:
                out.append("simulated")
            oc = obs.get("ocall")
            if oc and "out" in oc:
                out.append("completed")
                if any(len([t for t in hap if t[1] == c]) > 1 for hap in obs["bps"] for c in inp["chroms"]):
                    out.append("several-blocks-on-a-chromosome")
            elif oc:
                out.append("output_vcf-raised:" + ("no-available-sample" if "No available sample" in oc["failed"].get("msg", "")
                                                   else oc["failed"].get("cls", "?")))
        return out

    def shrink(self, inp):
        if len(inp["gens"]) > 1:
            yield dict(inp, gens=inp["gens"][:-1])
        unused = sorted(set(lab for _, lab in inp["info"]) - set(inp["pops"]))
        for u in unused:
            yield dict(inp, info=[x for x in inp["info"] if x[1] != u])
        ref = inp["ref"]
        for vi in range(len(ref["vars"])):
            if len(ref["vars"]) > 1:
                yield dict(inp, ref=dict(ref, vars=ref["vars"][:vi] + ref["vars"][vi + 1:],
                                         nalleles=ref["nalleles"][:vi] + ref["nalleles"][vi + 1:],
                                         data=[row[:vi] + row[vi + 1:] for row in ref["data"]]))
        if len(inp["chroms"]) > 1:
            for j, c in enumerate(inp["chroms"]):
                if any(v[1] != c for v in ref["vars"]):
                    keep = [vi for vi, v in enumerate(ref["vars"]) if v[1] != c]
                    yield dict(inp, chroms=inp["chroms"][:j] + inp["chroms"][j + 1:],
                               maps={kk: vv for kk, vv in inp["maps"].items() if kk != str(c)},
                               ref=dict(ref, vars=[ref["vars"][vi] for vi in keep], nalleles=[ref["nalleles"][vi] for vi in keep],
                                        data=[[row[vi] for vi in keep] for row in ref["data"]]))
        for f in ("pop_field", "sample_field"):
            if inp[f]:
                yield dict(inp, **{f: False})
        if inp["out"] != "vcf":
            yield dict(inp, out="vcf")
        if ref["fmt"] != "vcf.gz":
            yield dict(inp, ref=dict(ref, fmt="vcf.gz"))
        for j in range(len(inp["info"])):
            yield dict(inp, info=inp["info"][:j] + inp["info"][j + 1:])

    def mutate(self, inp, rng):
        for _ in range(3):
            yield dict(inp, seed=int(rng.integers(1, 2**31 - 1)))
        rows = self._rows(inp)
        for p in inp["pops"]:
            lines = [x for x in inp["info"] if x[1] == p]
            if len(lines) >= inp["ns"]:
                drop = set(x[0] for x in lines[inp["ns"] - 1:])
                yield dict(inp, norep=True, info=[x for x in inp["info"] if x[0] not in drop])
        for mode in ("all-share", "pool", "subset"):
            yield dict(inp, norep=True, seed=int(rng.integers(1, 2**31 - 1)),
                       info=[[int(a), b] for a, b in overlap_rows(rng, inp["info"], list(inp["pops"]), mode)])

    def signature(self, inp, obs):
        if not isinstance(obs, dict) or "sim" not in obs:
            return "cli command not observed"
        if self._short(inp) and (obs["sim"] or obs["wrote"] or (obs.get("val") or {}).get("cls") == 0):
            return ("cli simgenotype --no_replacement passes validation with fewer samples in a population than "
                    "simulated samples")
        if (obs.get("val") or {}).get("cls") == 3 and not self._short(inp):
            return "cli validate_params reports too few samples for a panel that has enough in every population"
        oc = obs.get("ocall")
        if oc and "out" in oc:
            o = oc["out"]
            for j in range(len(o["vars"])):
                col = [row[j] for row in o["gt"]]
                if len(set(col)) < len(col):
                    return "cli one reference haplotype copied into two simulated haplotypes at a variant"
        return "cli observation differs from the model (no clause of the property broken)"


class TVKernel(Kernel):
    """The same generated calls, evaluated against the MiniPy syntax regenerated from the current source
    (translator + interpreter validation); holds is the kernel relation's property checker."""
    name = "tv_kernel"
    coq_lib = "HVG"
    coq_module = "TVM_C14"
    coq_check = "check_tv_kernel"
    coq_case_type = "C14_Check.kcase"
    coq_model = "model_tv_kernel"
    coq_imports = ["Tracts", "C01_Model", "C14_Model", "C14_Check"]
    budget = {"quick": 600, "thorough": 6000}

    def signature(self, inp, obs):
        return "tv_" + super().signature(inp, obs)



from .c14_conv import Conv, TVConv  # noqa: E402

RELATIONS = [Kernel(), Norep(), Params(), Cli(), TVKernel(), Conv(), TVConv()]

LEVEL_TEXT = (
    "Coq theorems over all histories of _find_coord/_find_random_sample calls and all shuffles (no size bound) about a "
    "Gallina model of the --no_replacement bookkeeping; the model is tied to /repo on every run by evaluating, inside "
    "Coq, model-vs-implementation agreement and the property's finite checker on generated call histories and on "
    "end-to-end output_vcf(no_replacement) runs over panels whose reference haplotypes are identifiable."
)
LEVEL_NOTE = (
    "Trusted: Coq kernel/vm_compute; the hand-written model (validated only differentially); recorded numpy shuffles are "
    "inputs (universally quantified in the theorems). validate_params' sample-info checks are modelled here over "
    "interned labels (count by label equality; theorems C14_params_*: rejected iff some population has fewer lines with "
    "exactly its label than simulated samples, for all tables and label sets) and at character level in C20; the other "
    "checks of validate_params are C20's."
)
TECHNIQUE = "Coq proof of an interval-disjointness invariant by induction over call histories + vm_compute-evaluated correspondence"
