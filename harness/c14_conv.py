"""C14 (and C03): direct calls of sim_genotype._convert_haplotype with np.random.shuffle / np.random.choice
recorded.  Relations
  conv    : agreement with the hand-written models (C14_Model.conv_norep, C03_Model.conv_rep); holds = the
            haps_used table stays pairwise disjoint across the call (--no_replacement)
  tv_conv : the same calls evaluated against the MiniPy syntax of _convert_haplotype regenerated from the
            current source (translator + interpreter validation)
"""
import collections

import numpy as np

from . import coqlit as L
from .core import Relation, err_kind

GRID = [10, 20, 21, 40, 60, 61, 100, 101, 150, 2147483647]


def chrom_str(c):
    return "X" if c == 23 else str(c)


def chrom_key(c):
    # what _convert_haplotype registers in haps_used: the command-line string, or the int 23 for X
    return 23 if c == 23 else str(c)


def seg_term(s):
    return f"(mkseg {L.z(s[0])} {L.z(s[1])} {L.z(s[2])} {L.z(s[3])})"


def ival_term(t):
    return f"({L.z(t[0])}, {L.z(t[1])}, {L.z(t[2])})"


def used_term(u):
    return L.lst(u, ival_term)


def tab_term(t):
    return L.lst(t, lambda kv: f"({L.z(kv[0])}, {L.zl(kv[1])})")


def block_term(b):
    return f"(mkb {L.z(b[0])} {L.z(b[1])} {L.z(b[2])} {L.z(b[3])})"


class Conv(Relation):
    name = "conv"
    coq_module = "C14_CheckConv"
    coq_check = "check_conv"
    coq_case_type = "vcase"
    coq_model = "model_conv"
    coq_imports = ["Tracts", "C01_Model", "C14_Model", "C03_Model"]
    budget = {"quick": 600, "thorough": 8000}
    anchors = [("haptools/sim_genotype.py", "_convert_haplotype")]

    def generate(self, rng, n, tier):
        out = []
        for _ in range(n):
            ns = int(rng.integers(1, 5))
            npop = int(rng.integers(2, 5))  # labels 0 (Admixed) .. npop-1
            malformed = rng.random() < 0.15
            chroms = sorted(set(int(x) for x in rng.choice([1, 2, 3, 22, 23], size=int(rng.integers(1, 4)))))
            hap = []
            for c in chroms:
                k = int(rng.integers(1, 5))
                ends = sorted(set(int(x) for x in rng.choice(GRID[:-1], size=k))) + [GRID[-1]]
                for e in ends:
                    p = int(rng.integers(1, npop))
                    if malformed and rng.random() < 0.12:
                        p = int(rng.choice([0, npop, npop + 1]))
                    hap.append([p, c, e, int(rng.integers(0, 50))])
            c = int(rng.choice(chroms)) if rng.random() < 0.93 else int(rng.choice([4, 23, 1]))
            # population table: label k -> sample indices; some labels missing or empty
            tab = []
            for k in range(1, npop):
                r = rng.random()
                if r < 0.08:
                    continue  # label absent from the sample-info file
                m = 0 if r < 0.14 else int(rng.integers(1, ns + 1))
                smp = [int(x) for x in rng.choice(ns, size=m, replace=False)]
                if malformed and smp and rng.random() < 0.25:
                    smp.insert(int(rng.integers(0, len(smp) + 1)), -1)  # a name the panel lacks
                tab.append([k, smp])
            if rng.random() < 0.1:
                tab.append([0, [int(rng.integers(0, ns))]])
            # pre-existing registrations
            hu = [[] for _ in range(2 * ns)]
            for _ in range(int(rng.integers(0, 5))):
                a, b = sorted(int(x) for x in rng.choice(GRID[:-1] + [0, 1], size=2))
                hu[int(rng.integers(0, 2 * ns))].append([int(rng.choice(chroms)), a, b])
            out.append({"ns": ns, "npop": npop, "hap": hap, "c": c, "tab": tab, "hu": hu,
                        "norep": bool(rng.random() < 0.6), "seed": int(rng.integers(0, 2**31)),
                        "kind": "malformed" if malformed else "wellformed"})
        # width-boundary stream: a reference haplotype that already holds more than 255 registered intervals
        out += [self.many_registered(rng) for _ in range(1 if tier == "quick" else 4)]
        return out

    def many_registered(self, rng):
        """two reference samples; haplotype 0 holds 254..300 disjoint registrations [10i, 10i+5] of the converted chromosome
        in random order; the simulated haplotype's blocks end inside / between the registrations number 254..257"""
        m = int(rng.choice([254, 255, 256, 257, int(rng.integers(258, 301))]))
        c = int(rng.choice([1, 2, 23]))
        order = [int(x) for x in rng.permutation(m)]
        hu = [[[c, 10 * i, 10 * i + 5] for i in order], [], [], []]
        ends = sorted(set(10 * order[j] + int(rng.choice([-1, 2, 5, 7])) for j in (253, 254, 255, 256, m - 1) if j < m))
        ends = [e for e in ends if e > 0][:int(rng.integers(1, 5))] + [GRID[-1]]
        hap = [[1, c, e, 0] for e in ends]
        tab = [[1, [int(x) for x in rng.permutation(2)][:int(rng.integers(1, 3))]]]
        return {"ns": 2, "npop": 2, "hap": hap, "c": c, "tab": tab, "hu": hu, "norep": True,
                "seed": int(rng.integers(0, 2**31)), "kind": "many-registered"}

    def run_impl(self, inp):
        from haptools.admix_storage import HaplotypeSegment as S
        from haptools import sim_genotype as sg

        ns, npop = inp["ns"], inp["npop"]
        hap = [S(s[0], s[1], s[2], float(s[3])) for s in inp["hap"]]
        pop_dict = {k: ("Admixed" if k == 0 else f"P{k}") for k in range(npop)}
        name = lambda i: f"s{i}" if i >= 0 else "absent"
        pop_sample = collections.defaultdict(list)
        for k, smp in inp["tab"]:
            pop_sample[pop_dict[k]] = [name(i) for i in smp]
        sample_dict = {f"s{i}": i for i in range(ns + 2)}
        haps_used = [[(chrom_key(t[0]), t[1], t[2]) for t in u] for u in inp["hu"]]
        rec = {"shuffle": [], "choice": []}
        rng = np.random.default_rng(inp["seed"])
        idx_of = lambda nm: int(nm[1:]) if nm != "absent" else -1

        def shuffle(lst):
            if len(lst) == 0:
                return
            perm = rng.permutation(len(lst))
            lst[:] = [lst[i] for i in perm]
            rec["shuffle"].append([idx_of(x) for x in lst])

        def choice(lst):
            if len(lst) == 0:
                raise ValueError("a cannot be empty")
            i = int(rng.integers(0, len(lst)))
            rec["choice"].append(i)
            return lst[i]

        old = (np.random.shuffle, np.random.choice)
        np.random.shuffle, np.random.choice = shuffle, choice
        try:
            try:
                pos, pops, samples, sind, inds = sg._convert_haplotype(
                    hap, chrom_str(inp["c"]), pop_dict, pop_sample, sample_dict, haps_used, inp["norep"])
                blocks = []
                for i in range(len(pos)):
                    blocks.append([int(pos[i]), int(pops[i]), int(sind[i]), int(inds[i]) if inp["norep"] else -1])
                res = {"ok": blocks}
            except Exception as e:  # noqa
                res = {"err": err_kind(e)}
        finally:
            np.random.shuffle, np.random.choice = old
        inv = {v: k for k, v in pop_dict.items()}
        tab_after = [[inv[lab], [idx_of(x) for x in lst]] for lab, lst in pop_sample.items() if lab in inv]
        back = lambda c: 23 if c == 23 else int(c)
        hu_after = [[[back(t[0]), int(t[1]), int(t[2])] for t in u] for u in haps_used]
        return {"res": res, "hu": hu_after, "tab": tab_after, "shuffle": rec["shuffle"], "choice": rec["choice"]}

    def encode(self, inp, obs):
        if "res" not in obs:
            obs = {"res": {"err": obs.get("kind", 99)}, "hu": [], "tab": [], "shuffle": [], "choice": []}
        return (f"(mkv {L.b(inp['norep'])} {L.z(inp['npop'])} {L.lst(inp['hap'], seg_term)} {L.z(inp['c'])} "
                f"{tab_term(inp['tab'])} {L.lst(inp['hu'], used_term)} {L.lst(obs['shuffle'], L.zl)} "
                f"{L.zl(obs['choice'])} {L.res(obs['res'], lambda b: L.lst(b, block_term))} "
                f"{L.lst(obs['hu'], used_term)} {tab_term(obs['tab'])})")

    def nontrivial(self, inp, obs):
        return "res" in obs and "ok" in obs["res"] and len(obs["res"]["ok"]) >= 2

    def classes(self, inp, obs):
        out = [inp["kind"], "norep" if inp["norep"] else "replacement"]
        if "res" in obs:
            out.append("ok" if "ok" in obs["res"] else f"err{obs['res']['err']}")
        if inp["c"] == 23:
            out.append("chrom-X")
        if max([len(u) for u in inp["hu"]] + [0]) > 255:
            out.append("more-than-255-intervals-on-a-reference-haplotype")
        # overlapping populations: a reference sample in the lists of two labels
        seen = {}
        for k, smp in inp["tab"]:
            for x in smp:
                seen.setdefault(x, set()).add(k)
        if any(len(v) > 1 for x, v in seen.items() if x >= 0):
            out.append("sample-under-several-populations")
        return out

    def shrink(self, inp):
        for i in range(len(inp["hap"])):
            yield dict(inp, hap=inp["hap"][:i] + inp["hap"][i + 1:])
        for i in range(len(inp["hu"])):
            if inp["hu"][i]:
                yield dict(inp, hu=inp["hu"][:i] + [[]] + inp["hu"][i + 1:])
        for i in range(len(inp["tab"])):
            yield dict(inp, tab=inp["tab"][:i] + inp["tab"][i + 1:])

    def signature(self, inp, obs):
        r = obs.get("res", {})
        return (f"conv {'no_replacement' if inp['norep'] else 'replacement'}: "
                + ("table not disjoint after the call" if "ok" in r else f"raised kind {r.get('err')}"))


class TVConv(Conv):
    name = "tv_conv"
    coq_lib = "HVG"
    coq_module = "TVM_C14"
    coq_check = "check_tv_conv"
    coq_case_type = "C14_CheckConv.vcase"
    coq_model = "model_tv_conv"
    coq_imports = Conv.coq_imports + ["C14_Check", "C14_CheckConv"]
    budget = {"quick": 300, "thorough": 4000}

    def signature(self, inp, obs):
        return "tv_" + super().signature(inp, obs)
