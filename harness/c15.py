"""C15 - phenotype/covariate files round-trip bit-exactly; table operations are exact.

Relations
  roundtrip   : Phenotypes/Covariates.write then read on generated float64 tables (by bit-pattern class)
                and name multisets (collisions incl. already-suffixed forms), plain or gzip; besides the 1-6 x 1-5
                tables: WIDE tables (999 / 1000 / 1001 / 1002 / ~1500 columns: numpy summarises a printed row of more
                than 1000 elements), LONG tables (1000 / 1001 / 1025 samples), one name 11-130 (-1002) times (suffix
                counter past 9|10, 99|100, 999|1000), rows whose text is near / far beyond numpy's default line width
                (75), and small tables written while hostile ambient numpy print options are in force
  read        : read() of hand-made files: comment lines, missing '#IID', NA/na/text cells, blank lines,
                ragged rows, sample filters; records, names and the number of error messages compared
  standardize : Phenotypes.standardize on well-conditioned tables incl. constant columns; agree = exact rational
                (deviation, variance) model per cell, holds = mean 0 / variance 1 of the output (independent checks)
  ops         : ONE append / subset / check_missing on a fresh small table (ids interned)
  opseq       : SEQUENCES (1-8) of index / subset (copy, in place, re-ordering, shrinking, unknown and repeated ids) /
                append (fitting or wrong length) / check_missing (flag, discard) / standardize / write+read on one
                Phenotypes or Covariates object; the full table is observed after every step.  agree = the cache-free
                model C15_SeqModel.run, holds = each step against the table the implementation held before it
"""
import logging
import os
import shutil
import struct
import tempfile

import numpy as np

from . import c15_lit as CL
from . import coqlit as L
from .core import Relation, err_kind

_SC = float(os.environ.get("HV_A7_SCALE", "1"))  # development only: scale the budgets


def _bud(q, t):
    return {"quick": max(1, int(q * _SC)), "thorough": t}


PROP = "C15"
CLAIMED = True
COQ_MODULES = ["Stats", "StatsR", "C15_Model", "C15_Check", "C15_Proofs", "C15_SeqModel", "C15_SeqCheck", "C15_SeqProofs",
               "C15_Std"]
PROPERTY_MODULE = "C15_Property"
# Coq's Reals library (as for C09): only the theorems that relate the exact rational (deviation, variance) model of
# standardize to the real-number standardisation of StatsR.v depend on them; every other theorem is closed
ALLOWED_AXIOMS = [
    "ClassicalDedekindReals.sig_not_dec",
    "ClassicalDedekindReals.sig_forall_dec",
    "FunctionalExtensionality.functional_extensionality_dep",
]
# Translation validation: the unique-column-name loop of Phenotypes.write (the statements from `uniq_names = Counter()` to
# just before the 2D-shape check) is regenerated from the current source on every run (harness/pytrans.py ->
# HVG.Gen_Phenotypes) and proved equal to C15_Model.unique_names for all name tuples (coq/translated/TV_C15.v).
TRANSLATION = {
    "spec": {
        "module": "Gen_Phenotypes",
        "text": True,    # names are strings by code points; the f-string is interpreted (str(int) = Coq's decimal printer)
        "functions": [
            ("haptools/data/phenotypes.py", "write", {
                "name": "write_unique_names", "top": True, "in_class": "Phenotypes",
                "start": {"assign": "uniq_names"}, "stop": {"before_if_raise": True},
                "params": ["self_names"], "result": "names",
                # self.names is read (twice) and nothing in the slice can change it: a by-value parameter
                "self_attrs": {"names": "self_names"},
                "class_chain": [("haptools/data/phenotypes.py", "Phenotypes"), ("haptools/data/data.py", "Data")]}),
        ],
    },
    "models": ["TVM_C15"],
    "proofs": ["TV_C15"],
}
RULE = (
    "roundtrip: non-trivial = the table holds a value of a boundary bit-pattern class (subnormal, +-0, 2^k/10^k +- 1 ulp, "
    "1e+-300, >= 2^53, 17 significant digits, mixed magnitudes in one row), or the name multiset has a collision, or the "
    "table has more than 1000 columns, or ambient numpy print options are set. "
    "read: non-trivial = the file has a comment line, a non-numeric cell or a sample filter. standardize: always "
    "(constant and non-constant columns). ops: non-trivial = the operation changes the table or raises. "
    "opseq: non-trivial = a look-up by id (index / subset with a request) is executed after an earlier step changed the "
    "object's table. Distinct = distinct canonical JSON."
)
TRUSTED = [
    "float64 text codec (numpy array2string floatmode='unique' + float64 parsing) is a Section contract "
    "parse (fmt x) = Some x, exercised bit-for-bit on every roundtrip case",
    "csv.reader field splitting on names/samples without tab, newline, CR or double quote",
    "standardize compared with exact rational mean/variance to 1e-9 (relative to dev^2 + var) on well-conditioned columns",
    "opseq: the cells after a standardize step are taken from the observation (checked against the exact rational model "
    "of the model's own cells before the step) - the model does not compute floats",
    "long case literals are written as generators (zrep / zseq / nrep / gnames / by_cols, harness/c15_lit.py; meaning "
    "proved: C15_zseq_spec, C15_zrep_spec, C15_gnames_spec, C15_by_cols_spec); the compressor is lossless on any list, "
    "is applied to the implementation's output as to the input, and re-expands every literal before use",
    "Coq's Reals axioms (sig_not_dec, sig_forall_dec, functional_extensionality_dep) under the six theorems that relate "
    "the exact (deviation, variance) model of standardize to the real-number standardisation; all other theorems closed",
]
ASSUMPTIONS = [
    "names and sample ids contain no tab/newline/CR/double quote; tables have >= 1 sample and >= 1 column",
    "standardize clause: finite columns with |mean| <= 1e3 * stdev, variance >= 1e-100, |x| <= 1e100 (or exactly "
    "constant); a column holding nan/inf is modelled as all-nan (agree only); NaN payloads not compared",
    "opseq: a look-up on an axis that currently holds duplicate ids is not made (the single-operation relation `ops` "
    "covers the ValueError), write+read is not made on a table without rows or columns; both are no-ops of the model too",
    "roundtrip under ambient numpy print options: only options that Phenotypes.write pins in its array2string call "
    "(threshold, edgeitems, linewidth, floatmode, suppress, sign) or that numpy ignores under floatmode='unique' "
    "(precision) are set; nanstr / infstr / formatter / legacy are left at their defaults",
]


def f2b(x):
    return struct.unpack("<Q", struct.pack("<d", float(x)))[0]


def b2f(b):
    return struct.unpack("<d", struct.pack("<Q", int(b)))[0]


def canon_bits(b):
    x = b2f(b)
    return f2b(float("nan")) if x != x else int(b)


def chars(s):
    return L.zl([ord(c) for c in s])


def names_term(l):
    return CL.names_c(l)   # plain element-by-element literal below 24 names, generators (nrep / gnames) above


def rows_term(rows):
    return CL.rows_c(rows)  # plain below 24 rows / cells per row, generators (zrep / zseq / by_cols) above


def ulp_step(x, k):
    b = f2b(x)
    return b2f(b + k) if x > 0 else b2f(b - k) if x < 0 else x


def rand_float(rng):
    """(value, class label) by bit-pattern class"""
    c = int(rng.integers(0, 14))
    sgn = -1.0 if rng.random() < 0.4 else 1.0
    if c == 0:
        return sgn * b2f(int(rng.integers(1, 2**52))), "subnormal"
    if c == 1:
        return sgn * 0.0, "zero"
    if c == 2:
        return sgn * ulp_step(2.0 ** int(rng.integers(-60, 61)), int(rng.integers(-1, 2))), "pow2+-ulp"
    if c == 3:
        return sgn * ulp_step(10.0 ** int(rng.integers(-20, 23)), int(rng.integers(-1, 2))), "pow10+-ulp"
    if c == 4:
        return sgn * float(rng.uniform(1, 10)) * 10.0 ** float(rng.choice([300, -300, 307, -307])), "1e+-300"
    if c == 5:
        return sgn * float(int(rng.integers(2**52, 2**53 + 2))), "int>=2^52"
    if c == 6:
        return sgn * float(int(rng.integers(0, 1000))), "small-int"
    if c == 7:
        return sgn * float(rng.random()), "17-digit"
    if c == 8:
        return sgn * float(np.float64(rng.choice([0.1, 0.2, 0.3, 1 / 3, 2 / 3, 1e-5, 123456.789, 5e-324, 1.7976931348623157e308]))), "decimal"
    if c == 9:
        b = int(rng.integers(0, 2**63 - 1))
        x = b2f(b)
        if x != x or x in (float("inf"), float("-inf")):
            x = 1.5
        return sgn * x, "random-bits"
    if c == 10:
        return float(rng.choice([-9.0, 9.0, -9.000000000000002, 1e16, 1e-4, 9.999999999999999e-05, 1e15, 99999.99999999999])), "format-switch"
    if c == 11:
        r = rng.random()
        return (float("inf") if r < 0.3 else float("-inf") if r < 0.6 else float("nan")), "non-finite"
    return sgn * float(np.round(rng.normal(0, 3), int(rng.integers(0, 4)))), "short-decimal"


NAME_POOL = ["a", "a", "a", "a-1", "a-1", "a-2", "a-1-1", "b", "b-1", "x", "a-", "a-01", "height", "b"]
SAMPLE_POOL = ["s1", "s2", "HG00096", "HG00097", "NA12878", "#s", "NA", "x_1", "007", "s 3", "-9", "a-1"]


def make_table(rng, maxn=6, maxm=5, finite_only=False):
    n, m = int(rng.integers(1, maxn + 1)), int(rng.integers(1, maxm + 1))
    names = [str(rng.choice(NAME_POOL)) for _ in range(m)]
    if rng.random() < 0.3:
        names = [f"p{j}" for j in range(m)]
    samples = [str(x) for x in rng.choice(SAMPLE_POOL, size=n, replace=False)]
    data, classes = [], set()
    for i in range(n):
        row = []
        for j in range(m):
            x, c = rand_float(rng)
            while finite_only and (x != x or abs(x) == float("inf")):
                x, c = rand_float(rng)
            row.append(f2b(x))
            classes.add(c)
        data.append(row)
    return names, samples, data, sorted(classes)


# ---- tables straddling numpy's print thresholds ---------------------------------------------------
# np.array2string summarises an array of more than `threshold` (default 1000) elements to `edgeitems` (3) cells on either
# side of a literal "..." cell and wraps a line longer than `linewidth` (75) characters; Phenotypes.write prints every row
# with it.  A table has to have > 1000 COLUMNS (resp. a row text > 75 characters) to reach either default.
WIDE_M = (999, 1000, 1001, 1002)
LONG_N = (1000, 1001, 1025)
INF = float("inf")


def _run_ok(base, ln):
    """base .. base+ln are finite float64 bit patterns of one sign"""
    top = base + ln
    return top < 2**64 and (top >> 63) == (base >> 63) and ((top >> 52) & 0x7FF) < 0x7FF


def block_cells(rng, m, style=None, finite_only=False):
    """m cells as a few blocks - a constant cell, or a run of ADJACENT float64 (bit pattern +1: every cell needs its own
    shortest repr) - with single cells of any class at both edges and around position 1000.  Such a row costs a few
    hundred characters of literal (harness/c15_lit.py) instead of 20 per cell.  Returns (bits, class labels)."""
    style = style or str(rng.choice(["const", "ulp-run", "blocks"]))
    cuts = [0, m]
    if style == "blocks" and m > 2:
        cuts = sorted({0, m, *[int(x) for x in rng.integers(1, m, size=int(rng.integers(1, 5)))]})
    row, labs = [], {"row:" + style}
    for a, b in zip(cuts, cuts[1:]):
        x, c = rand_float(rng)
        while finite_only and (x != x or abs(x) == INF):
            x, c = rand_float(rng)
        labs.add(c)
        base = f2b(x)
        run = style == "ulp-run" or (style == "blocks" and rng.random() < 0.5)
        if run and x == x and abs(x) != INF and _run_ok(base, b - a):
            row += list(range(base, base + (b - a)))
        else:
            row += [base] * (b - a)
    for pos in (0, 1, 2, m - 3, m - 2, m - 1, 998, 999, 1000, 1001):
        if 0 <= pos < m and rng.random() < 0.3:
            x, c = rand_float(rng)
            while finite_only and (x != x or abs(x) == INF):
                x, c = rand_float(rng)
            row[pos] = f2b(x)
            labs.add(c)
    return row, labs


def wide_names(rng, m):
    """m column names: distinct, all equal (the suffix counter runs to m-1: width changes at 10, 100, 1000), equal with
    already-suffixed forms in between, or two blocks of equal names"""
    style = str(rng.choice(["distinct", "distinct", "all-same", "same+suffixed", "two-blocks"]))
    if style == "distinct":
        return [f"p{j}" for j in range(m)], style
    base = str(rng.choice(["a", "b", "a-1", "height"]))
    names = [base] * m
    if style == "same+suffixed":
        for _ in range(int(rng.integers(1, 5))):
            k = int(rng.choice([1, 9, 10, 11, 99, 100, 101, 999, 1000, m - 2, m - 1, m]))
            names[int(rng.integers(0, m))] = f"{base}-{k}"
    elif style == "two-blocks":
        h = int(rng.integers(1, m))
        names = [base] * h + ["x"] * (m - h)
    return names, style


# ambient numpy print options a caller may have set (np.set_printoptions) before calling write(): only options that
# Phenotypes.write pins explicitly in its array2string call (or that numpy documents as ignored under floatmode="unique")
def ambient_printopts(rng):
    pool = {"threshold": [0, 1, 3, 5, 1000], "edgeitems": [0, 1, 2], "linewidth": [1, 10, 40, 75], "precision": [0, 2, 8, 17],
            "suppress": [True, False], "floatmode": ["fixed", "maxprec", "maxprec_equal", "unique"], "sign": ["-", "+", " "]}
    keys = [k for k in sorted(pool) if rng.random() < 0.6] or ["threshold", "edgeitems", "linewidth"]
    return {k: (pool[k][int(rng.integers(0, len(pool[k])))]) for k in keys}


def new_obj(cls, fname, log=None):
    from haptools.data import Covariates, Phenotypes

    return (Covariates if cls == "C" else Phenotypes)(fname, log=log)


def quiet_logger(counter=None):
    lg = logging.Logger("hv_c15")
    lg.propagate = False

    class H(logging.Handler):
        def emit(self, record):
            if counter is not None and record.levelno >= logging.ERROR:
                counter.append(record.getMessage()[:60])

    lg.addHandler(H())
    return lg


class RoundTrip(Relation):
    name = "roundtrip"
    coq_module = "C15_Check"
    coq_check = "check_rt"
    coq_case_type = "rtcase"
    coq_model = "model_rt"
    coq_imports = ["Stats", "C15_Model"]
    budget = _bud(900, 20000)
    max_cases_per_shard = 150
    anchors = [("haptools/data/phenotypes.py", "Phenotypes.write"), ("haptools/data/phenotypes.py", "Phenotypes.read"),
               ("haptools/data/phenotypes.py", "Phenotypes.__iter__"), ("haptools/data/phenotypes.py", "Phenotypes._iterate")]

    # ---- input classes beyond the 1-6 x 1-5 tables ------------------------------------------------------
    def _case(self, rng, names, samples, data, classes, klass, **kw):
        return dict({"cls": "C" if rng.random() < 0.25 else "P", "gz": bool(rng.random() < 0.25), "names": names,
                     "samples": samples, "data": data, "classes": sorted(classes), "klass": klass}, **kw)

    def _wide(self, rng, m, n=None, style=None, distinct=False):
        """m columns around numpy's summarisation threshold (1000 elements per printed row) x 1-2 samples"""
        n = n or int(rng.integers(1, 3))
        names, nstyle = wide_names(rng, m) if not distinct else ([f"p{j}" for j in range(m)], "distinct")
        rows, labs = [], {"names:" + nstyle}
        for _ in range(n):
            r, l = block_cells(rng, m, style)
            rows.append(r)
            labs |= l
        samples = [str(x) for x in rng.choice(SAMPLE_POOL, size=n, replace=False)]
        return self._case(rng, names, samples, rows, labs, "wide")

    def _long(self, rng, n):
        """n > 1000 samples x 1-2 columns (every row is printed on its own)"""
        m = int(rng.integers(1, 3))
        cols, labs = [], set()
        for _ in range(m):
            c, l = block_cells(rng, n)
            cols.append(c)
            labs |= l
        return self._case(rng, [str(rng.choice(NAME_POOL)) for _ in range(m)], [f"s{i}" for i in range(n)],
                          [[c[i] for c in cols] for i in range(n)], labs, "long")

    def _many_dup(self, rng):
        """one name 11 ... 130 times: the suffix counter passes 9|10 and 99|100; some columns already carry such a suffix"""
        m = int(rng.choice([11, 12, 20, 101, 102, 130]))
        base = str(rng.choice(["a", "b", "a-1", "p"]))
        names = [base] * m
        for _ in range(int(rng.integers(0, 5))):
            k = int(rng.choice([1, 8, 9, 10, 11, 98, 99, 100, 101, m - 2, m - 1, m]))
            names[int(rng.integers(0, m))] = str(rng.choice([f"{base}-{k}", f"{base}-{k}-1", f"{base}-0{k}"]))
        row, labs = block_cells(rng, m, finite_only=False)
        return self._case(rng, names, [str(rng.choice(SAMPLE_POOL))], [row], labs | {"names:many-duplicates"}, "many-dup")

    def _long_row(self, rng):
        """rows whose text is far longer than numpy's default line width (75): 6-40 cells of 17-24 characters"""
        n, m = int(rng.integers(1, 4)), int(rng.integers(6, 41))
        data = []
        for _ in range(n):
            row = []
            for _ in range(m):
                c = int(rng.integers(0, 4))
                sgn = -1.0 if rng.random() < 0.5 else 1.0
                x = (sgn * float(rng.random()) if c == 0 else
                     sgn * float(rng.uniform(1, 10)) * 10.0 ** float(rng.choice([300, -300, 307, -307, 100, -100])) if c == 1 else
                     sgn * b2f(int(rng.integers(1, 2**52))) if c == 2 else
                     sgn * b2f(int(rng.integers(2**52, 0x7FF0000000000000))))
                row.append(f2b(x))
            data.append(row)
        names = [f"p{j}" for j in range(m)]
        samples = [str(x) for x in rng.choice(SAMPLE_POOL, size=n, replace=False)]
        return self._case(rng, names, samples, data, {"17-digit", "1e+-300", "subnormal", "random-bits"}, "long-row")

    def _width75(self, rng):
        """rows of short cells whose text is about as long as numpy's default line width (60-100 characters)"""
        n, m = int(rng.integers(1, 3)), int(rng.integers(14, 30))
        pool = [0.5, 1.0, -1.0, 2.25, 10.0, 0.0, -0.5, 3.0, 7.5, -9.0, 12.0, 0.25]
        k = int(rng.integers(1, 4))
        data = [[f2b(float(rng.choice(pool[: 4 * k]))) for _ in range(m)] for _ in range(n)]
        names = [f"p{j}" for j in range(m)]
        samples = [str(x) for x in rng.choice(SAMPLE_POOL, size=n, replace=False)]
        return self._case(rng, names, samples, data, {"short-decimal", "small-int"}, "row-width~75")

    def generate(self, rng, n, tier):
        # the width-boundary stream (corpus/C15/wide_1001_roundtrip.json is a further such case on every run).  It goes
        # to the END of the list - the cases are evaluated in shards of 150, the last shard is the small remainder - but
        # before the very last case (the evidence file quotes the first two and the last input of every relation)
        big, out = [], []
        if tier == "thorough":
            for m in WIDE_M + (1003, 1280, 1500, 2001):
                big.append(self._wide(rng, m))
                big.append(self._wide(rng, m))
            for nn in LONG_N + (2049,):
                big.append(self._long(rng, nn))
            # one row of ~100 000 characters (4096 adjacent float64 of 17 digits each)
            big.append(self._wide(rng, 4096, 1, "ulp-run", True))
        else:
            big.append(self._wide(rng, int(rng.choice([1001, 1002]))))
            big.append(self._wide(rng, int(rng.choice([999, 1000, 1003, int(rng.integers(1004, 1600))]))))
            big.append(self._long(rng, int(rng.choice(LONG_N))))
        n = max(n, len(big) + 1)
        while len(out) < n - len(big):
            r = rng.random()
            if r < 0.012:
                out.append(self._many_dup(rng))
            elif r < 0.024:
                out.append(self._long_row(rng))
            elif r < 0.036:
                out.append(self._width75(rng))
            else:
                names, samples, data, classes = make_table(rng)
                c = self._case(rng, names, samples, data, classes, "small")
                if rng.random() < 0.05:
                    c["popt"] = ambient_printopts(rng)
                out.append(c)
        return out[:-1] + big + out[-1:]

    def exhaustive(self, tier):
        import itertools

        out = []
        pool = ["a", "a-1", "a-2", "a-1-1", "b"]
        for m in (1, 2, 3, 4):
            for names in itertools.product(pool, repeat=m):
                out.append({"cls": "P", "gz": False, "names": list(names), "samples": ["s1"],
                            "data": [[f2b(float(j)) for j in range(m)]], "classes": ["exhaustive-names"]})
        return out

    def run_impl(self, inp):
        d = tempfile.mkdtemp(prefix="hv_c15_")
        try:
            ext = ".covar" if inp["cls"] == "C" else ".pheno"
            fn = os.path.join(d, "t" + ext + (".gz" if inp["gz"] else ""))
            try:
                p = new_obj(inp["cls"], fn, quiet_logger())
                p.names = tuple(inp["names"])
                p.samples = tuple(inp["samples"])
                p.data = np.array(inp["data"], dtype="uint64").view("float64").reshape(len(inp["data"]), len(inp["names"]))
                # ambient print options (a caller's np.set_printoptions) are in force while the file is written
                with np.printoptions(**(inp.get("popt") or {})):
                    p.write()
                q = new_obj(inp["cls"], fn, quiet_logger())
                q.read()
                back = np.ascontiguousarray(np.asarray(q.data, dtype="float64"))
                return {"ok": {"names": [str(x) for x in q.names], "samples": [str(x) for x in q.samples],
                               "data": [[int(v) for v in row] for row in back.view("uint64").tolist()]}}
            except Exception as e:  # noqa
                return {"err": err_kind(e), "cls": type(e).__name__, "msg": str(e)[:200]}
        finally:
            shutil.rmtree(d, ignore_errors=True)

    def encode(self, inp, obs):
        if "ok" in obs:
            o = obs["ok"]
            ot = f"(Ok ({names_term(o['names'])}, {names_term(o['samples'])}, {rows_term(o['data'])}))"
        else:
            ot = f"(Err {L.z(obs.get('err', obs.get('kind', 99)))})"
        return f"(mkrt {names_term(inp['names'])} {names_term(inp['samples'])} {rows_term(inp['data'])} {ot})"

    def nontrivial(self, inp, obs):
        boundary = {"subnormal", "zero", "pow2+-ulp", "pow10+-ulp", "1e+-300", "int>=2^52", "17-digit", "format-switch"}
        return (bool(boundary & set(inp.get("classes", []))) or len(set(inp["names"])) < len(inp["names"])
                or len(inp["names"]) > 1000 or bool(inp.get("popt")))

    def classes(self, inp, obs):
        out = list(inp.get("classes", [])) + [inp["cls"], "gz" if inp["gz"] else "plain", "class:" + inp.get("klass", "small")]
        nm = inp["names"]
        n, m = len(inp["samples"]), len(nm)
        # numpy's default thresholds: a printed row of > 1000 elements, a row text of > 75 characters
        out.append("columns>1000" if m > 1000 else "columns=1000" if m == 1000 else "columns=999" if m == 999 else "columns<999")
        out.append("samples>1000" if n > 1000 else "samples=1000" if n == 1000 else "samples<1000")
        if inp.get("popt"):
            out += ["ambient-printoptions"] + [f"ambient:{k}" for k in sorted(inp["popt"])]
        if len(set(nm)) < len(nm):
            out.append("duplicate-names")
            top = max(nm.count(x) for x in set(nm))
            out.append("same-name>=1000x" if top >= 1000 else "same-name>=100x" if top >= 100 else "same-name>=10x" if top >= 10
                       else "same-name<10x")
            if m <= 200 and any(a + "-" in b or b + "-" in a for a in nm for b in nm if a != b):
                out.append("duplicate+already-suffixed-form")
        vals = [[b2f(b) for b in row] for row in inp["data"][:4]]
        for row in vals:
            fin = [abs(x) for x in row if x == x and x != 0 and abs(x) != INF]
            if len(fin) > 1 and max(fin) / min(fin) > 1e20:
                out.append("row-mixes-magnitudes")
            # lower bound of the row's text: shortest repr of every cell + separators
            if m <= 200:
                w = sum(len(repr(x)) for x in row) + m
                out.append("row-text>75" if w > 80 else "row-text~75" if w >= 60 else "row-text<75")
        if "err" in obs:
            out.append(f"err{obs['err']}")
        return sorted(set(out))

    def shrink(self, inp):
        n, m = len(inp["samples"]), len(inp["names"])
        one = f2b(1.0)
        if inp.get("popt"):
            yield {k: v for k, v in inp.items() if k != "popt"}
            for k in sorted(inp["popt"]):
                yield dict(inp, popt={a: b for a, b in inp["popt"].items() if a != k})
        for i in range(n):
            if 1 < n <= 40:
                yield dict(inp, samples=inp["samples"][:i] + inp["samples"][i + 1:], data=inp["data"][:i] + inp["data"][i + 1:])
        if n > 40:  # long tables: drop halves, quarters, ... of the rows from either end
            k = n // 2
            while k >= 1:
                yield dict(inp, samples=inp["samples"][: n - k], data=inp["data"][: n - k])
                yield dict(inp, samples=inp["samples"][k:], data=inp["data"][k:])
                k //= 2
        if m > 40:  # wide tables: drop halves, quarters, ... of the columns from either end; plain names and cells
            k = m // 2
            while k >= 1:
                yield dict(inp, names=inp["names"][: m - k], data=[r[: m - k] for r in inp["data"]])
                yield dict(inp, names=inp["names"][k:], data=[r[k:] for r in inp["data"]])
                k //= 2
            if inp["names"] != [f"p{j}" for j in range(m)]:
                yield dict(inp, names=[f"p{j}" for j in range(m)])
        else:
            for j in range(m):
                if m > 1:
                    yield dict(inp, names=inp["names"][:j] + inp["names"][j + 1:], data=[r[:j] + r[j + 1:] for r in inp["data"]])
        if n * m > 200:
            if any(b != one for r in inp["data"] for b in r):
                yield dict(inp, data=[[one] * m for _ in range(n)])
        else:
            for i in range(n):
                for j in range(m):
                    if inp["data"][i][j] != one:
                        dd = [list(r) for r in inp["data"]]
                        dd[i][j] = one
                        yield dict(inp, data=dd)
        if inp["gz"]:
            yield dict(inp, gz=False)
        if inp["cls"] == "C":
            yield dict(inp, cls="P")

    def mutate(self, inp, rng):
        for k in range(10):
            names = [str(rng.choice(NAME_POOL)) for _ in inp["names"]]
            yield dict(inp, names=names)

    def signature(self, inp, obs):
        if "ok" not in obs:
            return f"roundtrip write/read raised {obs.get('cls', obs.get('__exc__', '?'))}"
        o = obs["ok"]
        if len(set(o["names"])) < len(o["names"]):
            return "roundtrip written column names collide after suffixing"
        if o["names"] != inp["names"] and len(set(inp["names"])) == len(inp["names"]):
            return "roundtrip distinct names changed"
        if o["samples"] != inp["samples"]:
            return "roundtrip samples differ"
        if [[canon_bits(b) for b in r] for r in o["data"]] != [[canon_bits(b) for b in r] for r in inp["data"]]:
            return "roundtrip float64 values not bit-identical"
        return "roundtrip names not derived from the input names"


NUM_FORMS = ["repr", "fixed", "exp", "pad", "plus", "bare"]
BAD_CELLS = ["NA", "na", "text", "", "1,5", "--1", "1.5x", "0x10", "1d5", "None", "1 2", "."]


def num_token(rng):
    x, _ = rand_float(rng)
    if x != x:
        return "nan", f2b(float("nan"))
    form = str(rng.choice(NUM_FORMS))
    if form == "repr":
        return repr(x), f2b(x)
    if form == "fixed":
        s = f"{x:.3f}" if abs(x) < 1e15 else repr(x)
    elif form == "exp":
        s = f"{x:.6e}"
    elif form == "pad":
        s = f"  {x!r} "
    elif form == "plus":
        s = ("+" if x >= 0 and not str(x).startswith("-") else "") + repr(x)
    else:
        s = str(rng.choice(["1e5", ".5", "5.", "1_0", "inf", "-inf", "Infinity", "1E-3", "-0", "00012", "-9", "-9.0", "1e400", "1e-400"]))
    return s, f2b(float(s))


class Read(Relation):
    name = "read"
    coq_module = "C15_Check"
    coq_check = "check_rd"
    coq_case_type = "rdcase"
    coq_model = "model_rd"
    coq_imports = ["Stats", "C15_Model"]
    budget = _bud(700, 15000)
    max_cases_per_shard = 100
    anchors = [("haptools/data/phenotypes.py", "Phenotypes.read"), ("haptools/data/phenotypes.py", "Phenotypes.__iter__"),
               ("haptools/data/phenotypes.py", "Phenotypes._iterate")]

    def generate(self, rng, n, tier):
        out = []
        for i in range(n):
            m = int(rng.integers(1, 4))
            nrows = int(rng.integers(1, 6))
            lines = []  # each token: [text, bits or None]
            kind = "wellformed"
            r = rng.random()
            for _ in range(int(rng.choice([0, 0, 1, 2]))):
                lines.append([[str(rng.choice(["#comment", "##x", "# a b", "#", "#II", "#iid"])), None]]
                             + [["q", None]] * int(rng.integers(0, 3)))
            first = "#IID"
            if r < 0.08:
                first = str(rng.choice(["ID", "IID", "sample", "#IIDx", "#IID2"]))
                kind = "header-not-#IID"
            hdr_m = m
            if r > 0.95:
                hdr_m = 0
                kind = "one-column-header"
            lines.append([[first, None]] + [[f"p{j}", None] for j in range(hdr_m)])
            samples = [str(x) for x in rng.choice(SAMPLE_POOL, size=nrows, replace=False)]
            pbad = float(rng.choice([0, 0.1, 0.3]))
            for s in samples:
                row = [[s, None]]
                for j in range(m):
                    if rng.random() < pbad:
                        row.append([str(rng.choice(BAD_CELLS)), None])
                    else:
                        t, b = num_token(rng)
                        row.append([t, b])
                lines.append(row)
            if 0.08 <= r < 0.14:
                j = int(rng.integers(len(lines) - nrows, len(lines)))
                lines[j] = lines[j][:-1] if rng.random() < 0.5 else lines[j] + [["7", f2b(7.0)]]
                kind = "ragged"
            elif 0.14 <= r < 0.19:
                lines.insert(int(rng.integers(0, len(lines) + 1)), [])
                kind = "blank-line"
            elif 0.19 <= r < 0.22:
                lines = lines[: len(lines) - nrows]
                kind = "no-data-rows"
            elif 0.22 <= r < 0.24:
                lines = [l for l in lines if l and l[0][0].startswith("#") and not l[0][0].startswith("#IID")]
                kind = "only-comments"
            elif 0.24 <= r < 0.28:
                # a '#' line after the header is a data row, not a comment
                lines.append([["#late", None], *[[repr(float(j)), f2b(float(j))] for j in range(m)]])
                kind = "hash-row-after-header"
            sel = None
            if rng.random() < 0.3:
                k = int(rng.integers(0, nrows + 1))
                sel = [str(x) for x in rng.choice(samples, size=k, replace=False)] + (["zz"] if rng.random() < 0.5 else [])
            out.append({"cls": "C" if rng.random() < 0.25 else "P", "gz": bool(rng.random() < 0.2), "lines": lines,
                        "sel": sel, "kind": kind})
        return out

    def exhaustive(self, tier):
        """3 data rows x 2 cells: every subset of non-numeric cells x every placement of one '#' line (before the
        header it is a comment, after it a data row) x {no filter, a two-sample filter}"""
        import itertools

        out = []
        samples = ["s1", "s2", "s3"]
        for bad in itertools.product([False, True], repeat=6):
            for place in [None, 0, 1, 2, 3, 4]:
                for sel in (None, ["s1", "s3"]):
                    lines = [[["#IID", None], ["p0", None], ["p1", None]]]
                    for i, s_ in enumerate(samples):
                        row = [[s_, None]]
                        for j in range(2):
                            v = float(10 * i + j) + 0.5
                            row.append(["NA", None] if bad[2 * i + j] else [repr(v), f2b(v)])
                        lines.append(row)
                    if place is not None:
                        lines.insert(place, [["#c", None], ["7.0", f2b(7.0)], ["8.0", f2b(8.0)]])
                    out.append({"cls": "P", "gz": False, "lines": lines, "sel": sel, "kind": "exhaustive"})
        return out

    def run_impl(self, inp):
        import gzip

        d = tempfile.mkdtemp(prefix="hv_c15_")
        try:
            ext = ".covar" if inp["cls"] == "C" else ".pheno"
            fn = os.path.join(d, "t" + ext + (".gz" if inp["gz"] else ""))
            text = "".join("\t".join(t[0] for t in line) + "\n" for line in inp["lines"])
            with (gzip.open if inp["gz"] else open)(fn, "wt") as f:
                f.write(text)
            errs = []
            try:
                p = new_obj(inp["cls"], fn, quiet_logger(errs))
                p.read(samples=set(inp["sel"]) if inp["sel"] is not None else None)
                return {"ok": {"samples": [str(x) for x in p.samples], "names": [str(x) for x in p.names],
                               "data": [[f2b(v) for v in row] for row in np.asarray(p.data, dtype="float64").tolist()],
                               "nerr": len(errs)}}
            except BaseException as e:  # noqa  (StopIteration is not an Exception subclass issue, but be safe)
                return {"err": err_kind(type(e).__name__) if isinstance(e, StopIteration) else err_kind(e),
                        "cls": type(e).__name__, "msg": str(e)[:200]}
        finally:
            shutil.rmtree(d, ignore_errors=True)

    def encode(self, inp, obs):
        tok = lambda t: f"({chars(t[0])}, {L.opt(t[1], L.z)})"
        lines = L.lst(inp["lines"], lambda l: L.lst(l, tok))
        sel = L.opt(inp["sel"], names_term)
        if "ok" in obs:
            o = obs["ok"]
            ot = f"(Ok ({names_term(o['samples'])}, {names_term(o['names'])}, {rows_term(o['data'])}, {L.z(o['nerr'])}))"
        else:
            ot = f"(Err {L.z(obs.get('err', obs.get('kind', 99)))})"
        return f"(mkrd {lines} {sel} {ot})"

    def nontrivial(self, inp, obs):
        return (inp["sel"] is not None or any(l and l[0][0].startswith("#") and not l[0][0].startswith("#IID") for l in inp["lines"])
                or any(t[1] is None for l in inp["lines"][1:] for t in l[1:]))

    def classes(self, inp, obs):
        out = [inp["kind"], inp["cls"], "gz" if inp["gz"] else "plain", "filter" if inp["sel"] is not None else "all-samples"]
        if "ok" in obs:
            out.append("skipped-rows" if obs["ok"]["nerr"] else "no-skipped-rows")
        else:
            out.append(f"err{obs.get('err')}")
        return out

    def shrink(self, inp):
        ls = inp["lines"]
        for i in range(len(ls)):
            yield dict(inp, lines=ls[:i] + ls[i + 1:])
        if inp["sel"] is not None:
            yield dict(inp, sel=None)
        width = max((len(l) for l in ls), default=0)
        for j in range(1, width):
            yield dict(inp, lines=[l[:j] + l[j + 1:] for l in ls])
        if inp["gz"]:
            yield dict(inp, gz=False)

    def signature(self, inp, obs):
        if "ok" not in obs:
            return f"read raised {obs.get('cls', obs.get('__exc__', '?'))} on a well-formed file"
        return "read records differ from the numeric rows of the file (row skipped/shifted/misparsed or error count)"


class Standardize(Relation):
    name = "standardize"
    coq_module = "C15_SeqCheck"          # agree = exact rational model, holds = mean 0 / variance 1 of the output
    coq_check = "check_st2"
    coq_case_type = "C15_Check.stcase"
    coq_model = "model_st2"
    coq_imports = ["Stats", "C15_Model", "C15_Check"]
    budget = _bud(500, 10000)
    max_cases_per_shard = 120
    anchors = [("haptools/data/phenotypes.py", "Phenotypes.standardize")]

    def _column(self, rng, n):
        c = int(rng.integers(0, 6))
        if rng.random() < 0.05:
            # a column holding nan / inf: every cell becomes nan (all zeros if it is constant +-inf); model only
            col = [float(x) for x in rng.choice([float("inf"), float("-inf"), float("nan"), 1.0, 2.5, 0.0], size=n)]
            if all(np.isfinite(col)):
                col[int(rng.integers(0, n))] = float("inf")
            return col, "non-finite"
        if c == 0:
            v = float(rng.choice([0.1, 0.7, 1.1, 2.3, 0.3, 5.0, -3.3, 0.0, -0.0, 1e-3, 123.456, 1 / 3]))
            return [v] * n, "constant"
        if c == 1:
            col = [float(x) for x in rng.integers(-3, 4, size=n)]
            lab = "small-ints"
        elif c == 2:
            col = [float(x) for x in rng.normal(float(rng.choice([0, 10, -50])), float(rng.choice([0.5, 1, 20])), size=n)]
            lab = "normal"
        elif c == 3:
            col = [float(x) for x in rng.choice([0.0, 1.0], size=n)]
            lab = "binary"
        elif c == 4:
            col = [float(x) for x in rng.choice([0.1, 0.2, 0.3, 0.7], size=n)]
            lab = "decimal-levels"
        else:
            col = [float(np.round(x, 2)) for x in rng.uniform(-100, 100, size=n)]
            lab = "uniform"
        if len(set(col)) == 1:
            lab = "constant"
        elif abs(np.mean(col)) > 1e3 * np.std(col):
            col = [float(i) for i in range(n)]
        return col, lab

    def _long_column(self, rng, n, cheap=False):
        """n > 1000 cells in 2-6 blocks of equal values (numpy reduces > 8 / > 128 elements pairwise, in blocks), or one
        block: a constant column.  The standardised column has the same blocks, so the literal stays small.  (Exact
        rational statistics of 1000 cells cost 5-20 CPU seconds in Coq: `cheap` = integer levels, for the quick tier.)"""
        r = rng.random() if not cheap else float(rng.uniform(0.7, 1.0))
        if r < 0.2:
            v = float(rng.choice([0.1, 0.7, 1.1, 2.3, 0.3, 5.0, -3.3, 1e-3, 123.456, 1 / 3]))
            return [v] * n, "constant"
        levels = ([0.0, 1.0] if r < 0.4 else [0.1, 0.2, 0.3, 0.7, 1 / 3, -2.5] if r < 0.7 else
                  [float(x) for x in rng.integers(-50, 51, size=6)])
        k = int(rng.integers(2, 7))
        cuts = sorted({0, n, *[int(x) for x in rng.integers(1, n, size=k - 1)]})
        col = []
        for a, b in zip(cuts, cuts[1:]):
            col += [float(rng.choice(levels))] * (b - a)
        if len(set(col)) == 1:
            return col, "constant"
        return col, "blocks"

    def _long(self, rng, n, cheap=False):
        m = 1 if cheap else int(rng.integers(1, 3))
        cols, labs = zip(*[self._long_column(rng, n, cheap) for _ in range(m)])
        if cheap and rng.random() < 0.5:   # a constant column beside it costs nothing
            cols, labs = list(cols) + [[0.1] * n], list(labs) + ["constant"]
            m = 2
        return {"cls": "C" if rng.random() < 0.2 else "P", "data": [[f2b(cols[j][i]) for j in range(m)] for i in range(n)],
                "labs": list(labs) + ["long"]}

    def generate(self, rng, n, tier):
        big = [self._long(rng, int(rng.choice(LONG_N)), cheap=True)]
        if tier == "thorough":
            big += [self._long(rng, nn) for nn in LONG_N + (127, 128, 129, 2049)]
        out = []
        n = max(n, len(big) + 1)
        while len(out) < n - len(big):
            ns, m = int(rng.integers(1, 8)), int(rng.integers(1, 4))
            cols, labs = zip(*[self._column(rng, ns) for _ in range(m)])
            out.append({"cls": "C" if rng.random() < 0.2 else "P",
                        "data": [[f2b(cols[j][i]) for j in range(m)] for i in range(ns)], "labs": list(labs)})
        return out[:-1] + big + out[-1:]   # see RoundTrip.generate

    def run_impl(self, inp):
        import warnings

        try:
            p = new_obj(inp["cls"], "x.pheno", quiet_logger())
            p.data = np.array([[b2f(b) for b in row] for row in inp["data"]], dtype="float64")
            p.samples = tuple(f"s{i}" for i in range(len(inp["data"])))
            p.names = tuple(f"p{j}" for j in range(len(inp["data"][0])))
            with warnings.catch_warnings():
                warnings.simplefilter("ignore")
                with np.errstate(all="ignore"):
                    p.standardize()
            return {"ok": [[f2b(v) for v in row] for row in p.data.tolist()]}
        except Exception as e:  # noqa
            return {"err": err_kind(e), "cls": type(e).__name__}

    def encode(self, inp, obs):
        ot = f"(Ok {rows_term(obs['ok'])})" if "ok" in obs else f"(Err {L.z(obs.get('err', obs.get('kind', 99)))})"
        return f"(mkst {rows_term(inp['data'])} {ot})"

    def classes(self, inp, obs):
        n = len(inp["data"])
        return list(inp["labs"]) + [f"n={n}" if n < 100 else "n>1000" if n > 1000 else "n=1000" if n == 1000 else "n>=100"]

    def shrink(self, inp):
        d = inp["data"]
        m = len(d[0])
        for j in range(m):
            if m > 1:
                yield dict(inp, data=[r[:j] + r[j + 1:] for r in d], labs=inp["labs"][:j] + inp["labs"][j + 1:])
        if len(d) > 40:
            k = len(d) // 2
            while k >= 1:
                yield dict(inp, data=d[: len(d) - k])
                yield dict(inp, data=d[k:])
                k //= 2
        else:
            for i in range(len(d)):
                if len(d) > 1:
                    yield dict(inp, data=d[:i] + d[i + 1:])

    def signature(self, inp, obs):
        if "ok" not in obs:
            return f"standardize raised {obs.get('cls', '?')}"
        cols = list(zip(*[[b2f(b) for b in r] for r in inp["data"]]))
        outs = list(zip(*[[b2f(b) for b in r] for r in obs["ok"]]))
        for c, o in zip(cols, outs):
            if len(set(c)) == 1 and any(v != 0 for v in o):
                return "standardize constant column not all zeros"
        return "standardize column not mean 0 / variance 1"


class Ops(Relation):
    name = "ops"
    coq_module = "C15_Check"
    coq_check = "check_op"
    coq_case_type = "opcase"
    coq_model = "model_op"
    coq_imports = ["Stats", "C15_Model"]
    budget = _bud(900, 20000)
    anchors = [("haptools/data/phenotypes.py", "Phenotypes.append"), ("haptools/data/phenotypes.py", "Phenotypes.subset"),
               ("haptools/data/phenotypes.py", "Phenotypes.check_missing"), ("haptools/data/phenotypes.py", "Phenotypes.index")]
    CELLS = [-9.0, -9.0, 9.0, -9.000000000000002, 0.0, 1.5, -0.0, 2.0, float("nan"), 1e300]

    def _table(self, rng, p9):
        n, m = int(rng.integers(1, 6)), int(rng.integers(1, 5))
        samples = [int(x) for x in rng.choice(8, size=n, replace=False)]
        names = [int(x) for x in rng.choice(8, size=m, replace=False)]
        data = [[f2b(-9.0 if rng.random() < p9 else float(rng.choice(self.CELLS[2:]))) for _ in range(m)] for _ in range(n)]
        return samples, names, data

    def _req(self, rng, have):
        r = rng.random()
        if r < 0.3:
            return None
        pool = list(have) + [90, 91]
        k = int(rng.integers(0, len(pool) + 1))
        req = [int(x) for x in rng.choice(pool, size=k, replace=bool(rng.random() < 0.2))] if k else []
        return req

    def _big(self, rng, n, m):
        """one operation on an n x m table with n or m > 1000 (ids 0..n-1 / 0..m-1, cells in blocks)"""
        s, nm = list(range(n)), list(range(m))
        flat, _ = block_cells(rng, n * m if min(n, m) == 1 else n, finite_only=False)
        if min(n, m) == 1:
            d = [flat[i * m:(i + 1) * m] for i in range(n)]
        else:
            col2, _ = block_cells(rng, n)
            d = [[a, b] for a, b in zip(flat, col2)][:n]
            nm, m = [0, 1], 2
        kind = int(rng.integers(0, 3))
        edge = sorted({0, 1, 999, 1000, 1001, n - 2, n - 1} & set(range(n)))
        edge_n = sorted({0, 1, 999, 1000, 1001, m - 2, m - 1} & set(range(m)))
        if kind == 0:
            col, _ = block_cells(rng, n)
            if rng.random() < 0.2:
                col = col[:-1]
            op = {"k": "append", "unset": False, "name": 5000, "col": col}
        elif kind == 1:
            rs = rn = None
            if n > 1:
                pick = [int(x) for x in rng.choice(edge, size=min(len(edge), int(rng.integers(1, 6))), replace=False)]
                rs = pick + ([n + 7] if rng.random() < 0.5 else [])
                if rng.random() < 0.25:
                    rs = list(range(n - 1, -1, -1))        # everything, reversed
            if m > 2 or rng.random() < 0.3:
                rn = [int(x) for x in rng.choice(edge_n, size=min(len(edge_n), int(rng.integers(1, 5))), replace=False)]
            op = {"k": "subset", "rs": rs, "rn": rn, "inplace": bool(rng.random() < 0.5)}
        else:
            for i in rng.choice(edge, size=min(len(edge), int(rng.integers(0, 4))), replace=False):
                d[int(i)][int(rng.integers(0, m))] = f2b(-9.0)
            op = {"k": "missing", "discard": bool(rng.random() < 0.7)}
        return {"cls": "C" if rng.random() < 0.2 else "P", "samples": s, "names": nm, "data": d, "op": op, "dup": None,
                "big": "long" if n > m else "wide"}

    def generate(self, rng, n, tier):
        big = [self._big(rng, int(rng.choice(LONG_N)), 1), self._big(rng, 1, int(rng.choice(WIDE_M)))]
        if tier == "thorough":
            big += [self._big(rng, nn, int(rng.integers(1, 3))) for nn in LONG_N + (2049,) for _ in range(3)]
            big += [self._big(rng, 1, mm) for mm in WIDE_M + (1500,) for _ in range(3)]
        out = []
        for i in range(max(n - len(big), 1)):
            kind = int(rng.integers(0, 3))
            s, nm, d = self._table(rng, float(rng.choice([0, 0.1, 0.4, 1.0])) if kind == 2 else 0.05)
            dup = None
            if kind == 0:
                u = bool(rng.random() < 0.15)
                ln = len(s) if rng.random() < 0.85 else int(rng.integers(0, 7))
                col = [f2b(float(rng.choice(self.CELLS))) for _ in range(ln)]
                if u:
                    nm, d = [], []
                op = {"k": "append", "unset": u, "name": int(rng.integers(0, 10)), "col": col}
            elif kind == 1:
                if rng.random() < 0.1 and len(s) > 1:
                    s[-1] = s[0]
                    dup = "dup-samples"
                if rng.random() < 0.1 and len(nm) > 1:
                    nm[-1] = nm[0]
                    dup = "dup-names"
                op = {"k": "subset", "rs": self._req(rng, s), "rn": self._req(rng, nm), "inplace": bool(rng.random() < 0.5)}
            else:
                op = {"k": "missing", "discard": bool(rng.random() < 0.6)}
            out.append({"cls": "C" if rng.random() < 0.2 else "P", "samples": s, "names": nm, "data": d, "op": op, "dup": dup})
        return out[:-1] + big + out[-1:]   # see RoundTrip.generate

    def run_impl(self, inp):
        try:
            p = new_obj(inp["cls"], "x.pheno", quiet_logger())
            op = inp["op"]
            p.samples = tuple(f"s{i}" for i in inp["samples"])
            p.names = tuple(f"n{i}" for i in inp["names"])
            if not (op["k"] == "append" and op["unset"]):
                p.data = np.array([[b2f(b) for b in row] for row in inp["data"]], dtype="float64").reshape(
                    len(inp["samples"]), len(inp["names"]))
            res = p
            if op["k"] == "append":
                p.append(f"n{op['name']}", np.array([b2f(b) for b in op["col"]], dtype="float64"))
            elif op["k"] == "subset":
                rs = tuple(f"s{i}" for i in op["rs"]) if op["rs"] is not None else None
                rn = tuple(f"n{i}" for i in op["rn"]) if op["rn"] is not None else None
                r = p.subset(samples=rs, names=rn, inplace=op["inplace"])
                res = p if op["inplace"] else r
            else:
                p.check_missing(discard_also=op["discard"])
            data = np.asarray(res.data, dtype="float64")
            if data.ndim != 2:
                return {"err": 98, "cls": f"ndim{data.ndim}"}
            return {"ok": {"samples": [int(str(x)[1:]) for x in res.samples], "names": [int(str(x)[1:]) for x in res.names],
                           "data": [[f2b(v) for v in row] for row in data.tolist()]}}
        except Exception as e:  # noqa
            return {"err": err_kind(e), "cls": type(e).__name__, "msg": str(e)[:200]}

    @staticmethod
    def _tab(t):
        return f"(mktab {CL.zl_c(t['samples'])} {CL.zl_c(t['names'])} {rows_term(t['data'])})"

    def encode(self, inp, obs):
        op = inp["op"]
        if op["k"] == "append":
            o = f"(OpAppend {L.b(op['unset'])} {L.z(op['name'])} {CL.zl_c(op['col'])})"
        elif op["k"] == "subset":
            o = f"(OpSubset {L.opt(op['rs'], CL.zl_c)} {L.opt(op['rn'], CL.zl_c)})"
        else:
            o = f"(OpMissing {L.b(op['discard'])})"
        ot = f"(Ok {self._tab(obs['ok'])})" if "ok" in obs else f"(Err {L.z(obs.get('err', obs.get('kind', 99)))})"
        return f"(mkop {self._tab(inp)} {o} {ot})"

    def nontrivial(self, inp, obs):
        if "ok" not in obs:
            return True
        o = obs["ok"]
        return o["samples"] != inp["samples"] or o["names"] != inp["names"]

    def classes(self, inp, obs):
        op = inp["op"]
        out = [op["k"]]
        if op["k"] == "subset":
            out.append(f"rs={'none' if op['rs'] is None else 'empty' if not op['rs'] else 'some'}")
            out.append(f"rn={'none' if op['rn'] is None else 'empty' if not op['rn'] else 'some'}")
            if inp.get("dup"):
                out.append(inp["dup"])
        if op["k"] == "missing":
            nb = sum(any(b == f2b(-9.0) for b in r) for r in inp["data"])
            out.append("no-missing" if nb == 0 else "all-missing" if nb == len(inp["data"]) else "some-missing")
            out.append("discard" if op["discard"] else "raise")
        if op["k"] == "append" and op["unset"]:
            out.append("unset")
        out.append("samples>1000" if len(inp["samples"]) > 1000 else "samples=1000" if len(inp["samples"]) == 1000 else "samples<1000")
        out.append("columns>1000" if len(inp["names"]) > 1000 else "columns=1000" if len(inp["names"]) == 1000 else "columns<1000")
        if "ok" not in obs:
            out.append(f"err{obs.get('err')}")
        return out

    def shrink(self, inp):
        s, nm, d = inp["samples"], inp["names"], inp["data"]
        if inp["op"]["k"] != "append":
            if len(s) > 40:
                k = len(s) // 2
                while k >= 1:
                    yield dict(inp, samples=s[: len(s) - k], data=d[: len(s) - k])
                    yield dict(inp, samples=s[k:], data=d[k:])
                    k //= 2
            else:
                for i in range(len(s)):
                    if len(s) > 1:
                        yield dict(inp, samples=s[:i] + s[i + 1:], data=d[:i] + d[i + 1:])
        if len(nm) > 40:
            k = len(nm) // 2
            while k >= 1:
                yield dict(inp, names=nm[: len(nm) - k], data=[r[: len(nm) - k] for r in d])
                yield dict(inp, names=nm[k:], data=[r[k:] for r in d])
                k //= 2
        else:
            for j in range(len(nm)):
                if len(nm) > 1:
                    yield dict(inp, names=nm[:j] + nm[j + 1:], data=[r[:j] + r[j + 1:] for r in d])
        op = inp["op"]
        if op["k"] == "subset":
            for key in ("rs", "rn"):
                if op[key] is not None:
                    yield dict(inp, op=dict(op, **{key: None}))
                    for i in range(len(op[key])):
                        yield dict(inp, op=dict(op, **{key: op[key][:i] + op[key][i + 1:]}))

    def signature(self, inp, obs):
        k = inp["op"]["k"]
        if "ok" not in obs:
            return f"ops {k} raised {obs.get('cls', '?')}"
        return f"ops {k} result differs from the specification"



# ----------------------------------------------------------------------------------------------
# opseq: SEQUENCES of table operations on one object, the full table observed after every step
# ----------------------------------------------------------------------------------------------

M9 = f2b(-9.0)
SEQ_SAMPLES = ["s0", "s1", "s2", "s3", "s4", "s5", "s6", "HG00096", "NA12878", "-9", "007"]
SEQ_NAMES = ["a", "a", "a", "a-1", "a-2", "b", "b", "b-1", "a-1-1", "height", "p0", "p1"]
SEQ_CELLS = [9.0, -9.000000000000002, 0.0, 1.5, -0.0, 2.0, 0.1, -3.25, 7.0, 0.30000000000000004, 12.0, -1.0, 100.0]
UNKNOWN_IDS = ["zz", "s9", "a-9"]


def _tab_of(p):
    data = np.asarray(p.data, dtype="float64")
    if data.ndim != 2:
        return None
    rows = [[f2b(v) for v in row] for row in data.tolist()]
    if len(rows) == 0:
        rows = []
    return {"samples": [str(x) for x in p.samples], "names": [str(x) for x in p.names], "data": rows}


def _has_dup(l):
    return len(set(l)) < len(l)


def _is_lookup(op):
    return op["k"] == "index" or (op["k"] == "subset" and (op["rs"] is not None or op["rn"] is not None))


def ref_uniq(names):
    """Phenotypes.write's suffixing as repaired (used only to steer generation / describe failures)"""
    cnt, used, out = {}, set(), []
    for nm in names:
        new = nm
        while new in used:
            cnt[nm] = cnt.get(nm, 0) + 1
            new = f"{nm}-{cnt[nm]}"
        used.add(new)
        out.append(new)
    return out


def ref_step(op, t):
    """cache-free reference of one step on table dict t -> (ret, self_after); ret = table | ('err', kind) | None
    (None = not predicted: standardize).  NOT part of the verdict: used by signature/nontrivial only."""
    s, nm, d = t["samples"], t["names"], t["data"]
    k = op["k"]
    if k == "index":
        if (op["s"] and _has_dup(s)) or (op["n"] and _has_dup(nm)):
            return t, t  # skipped
        return t, t
    if k == "subset":
        if (op["rs"] is not None and _has_dup(s)) or (op["rn"] is not None and _has_dup(nm)):
            return t, t
        rows, ss = d, s
        if op["rs"] is not None:
            ss = [x for x in op["rs"] if x in s]
            rows = [d[s.index(x)] for x in ss]
        nn = nm
        if op["rn"] is not None:
            nn = [x for x in op["rn"] if x in nm]
            rows = [[r[nm.index(x)] for x in nn] for r in rows]
        o = {"samples": ss, "names": nn, "data": rows}
        return o, (o if op["inplace"] else t)
    if k == "append":
        col = op["col"][: len(s)] if op["fit"] else op["col"]
        if len(col) != len(d):
            return ("err", 1), t
        o = {"samples": s, "names": nm + [op["name"]], "data": [r + [v] for r, v in zip(d, col)]}
        return o, o
    if k == "missing":
        bad = [any(b == M9 for b in r) for r in d]
        if not any(bad):
            return t, t
        if not op["discard"]:
            return ("err", 1), t
        o = {"samples": [x for x, b in zip(s, bad) if not b], "names": nm, "data": [r for r, b in zip(d, bad) if not b]}
        return o, o
    if k == "writeread":
        if not s or not nm:
            return t, t
        o = {"samples": s, "names": ref_uniq(nm), "data": d}
        return o, o
    return None, None


def _canon_tab(t):
    return None if t is None else (tuple(t["samples"]), tuple(t["names"]), tuple(tuple(canon_bits(b) for b in r) for r in t["data"]))


class OpSeq(Relation):
    name = "opseq"
    coq_module = "C15_SeqCheck"
    coq_check = "check_seq"
    coq_case_type = "seqcase"
    coq_model = "model_seq"
    coq_imports = ["Stats", "C15_Model", "C15_Check", "C15_SeqModel"]
    budget = _bud(400, 10000)
    max_cases_per_shard = 40
    anchors = [("haptools/data/phenotypes.py", "Phenotypes.append"), ("haptools/data/phenotypes.py", "Phenotypes.subset"),
               ("haptools/data/phenotypes.py", "Phenotypes.check_missing"), ("haptools/data/phenotypes.py", "Phenotypes.index"),
               ("haptools/data/phenotypes.py", "Phenotypes.standardize"), ("haptools/data/phenotypes.py", "Phenotypes.read"),
               ("haptools/data/phenotypes.py", "Phenotypes.write")]
    CLASSES = ["random", "random", "random", "lookup-discard-lookup", "lookup-discard-lookup", "lookup-append-lookup",
               "lookup-inplace-lookup", "lookup-writeread-lookup", "append-m9-discard-lookup", "standardize-mix"]

    # ---- generation ---------------------------------------------------------------------------
    def _table(self, rng, nmin=1, distinct_names=None):
        n, m = int(rng.integers(nmin, 7)), int(rng.integers(1, 5))
        samples = [str(x) for x in rng.choice(SEQ_SAMPLES, size=n, replace=False)]
        if rng.random() < 0.04 and n > 1:
            samples[int(rng.integers(1, n))] = samples[0]
        if distinct_names is None:
            distinct_names = rng.random() < 0.6
        names = [f"p{j}" for j in range(m)] if distinct_names else [str(rng.choice(SEQ_NAMES)) for _ in range(m)]
        data = [[f2b(float(rng.choice(SEQ_CELLS))) for _ in range(m)] for _ in range(n)]
        if rng.random() < 0.06:  # nan / inf cells: identified nans round-trip, a standardized column becomes nan
            for _ in range(int(rng.integers(1, 4))):
                data[int(rng.integers(0, n))][int(rng.integers(0, m))] = f2b(float(rng.choice([float("nan"), float("inf"), float("-inf")])))
        return samples, names, data

    def _put_m9(self, rng, data, where=None):
        """-9 into first / middle / last rows, one or several columns; returns the labels"""
        n, m = len(data), len(data[0])
        labs = []
        where = where or [str(rng.choice(["first", "middle", "last", "none", "several", "all"]))]
        rows = set()
        for w in where:
            if w == "first":
                rows.add(0)
            elif w == "last":
                rows.add(n - 1)
            elif w == "middle" and n > 2:
                rows.add(int(rng.integers(1, n - 1)))
            elif w == "several":
                rows.update(int(x) for x in rng.choice(n, size=int(rng.integers(1, n + 1)), replace=False))
            elif w == "all":
                rows.update(range(n))
        for i in rows:
            for j in rng.choice(m, size=int(rng.integers(1, m + 1)), replace=False):
                data[i][int(j)] = M9
            labs.append("m9-first" if i == 0 else "m9-last" if i == n - 1 else "m9-middle")
        return sorted(set(labs))

    def _req(self, rng, pool, none_p=0.25):
        if rng.random() < none_p:
            return None
        pool = list(dict.fromkeys(pool)) or ["zz"]
        r = rng.random()
        if r < 0.3:  # re-ordering of everything
            return [str(x) for x in rng.permutation(pool)]
        k = int(rng.integers(0, len(pool) + 1))
        req = [str(x) for x in rng.choice(pool, size=k, replace=bool(rng.random() < 0.15))] if k else []
        if rng.random() < 0.3:
            req.insert(int(rng.integers(0, len(req) + 1)), str(rng.choice(UNKNOWN_IDS)))
        return req

    def _col(self, rng, m9=None):
        col = [f2b(float(rng.choice(SEQ_CELLS))) for _ in range(8)]
        if m9 is None:
            m9 = str(rng.choice(["none", "none", "first", "middle", "last"]))
        if m9 == "first":
            col[0] = M9
        elif m9 == "middle":
            col[int(rng.integers(1, 3))] = M9
        elif m9 == "last":
            for i in range(8):
                if rng.random() < 0.5 or i == 7:
                    col[i] = M9  # some position will be the current last row
                    break
        return col

    def _op(self, rng, st, kind=None):
        """one random operation; st = {'samples','names'}: pools of ids seen so far"""
        kind = kind or str(rng.choice(["index", "subset", "subset", "subset", "append", "missing", "missing",
                                       "standardize", "writeread"]))
        if kind == "index":
            s, n = bool(rng.random() < 0.8), bool(rng.random() < 0.6)
            return {"k": "index", "s": s, "n": n}
        if kind == "subset":
            rs = self._req(rng, st["samples"], 0.3)
            rn = self._req(rng, st["names"], 0.55)
            return {"k": "subset", "rs": rs, "rn": rn, "inplace": bool(rng.random() < 0.5)}
        if kind == "append":
            nm = f"n{len(st['names'])}" if rng.random() < 0.75 else str(rng.choice(SEQ_NAMES))
            st["names"].append(nm)
            fit = bool(rng.random() < 0.8)
            col = self._col(rng)
            if not fit:
                col = col[: int(rng.integers(0, 8))]
            return {"k": "append", "fit": fit, "name": nm, "col": col}
        if kind == "missing":
            return {"k": "missing", "discard": bool(rng.random() < 0.7)}
        if kind == "writeread":
            st["names"] = st["names"] + [x for x in ref_uniq(st["names"]) if x not in st["names"]]
            return {"k": "writeread"}
        return {"k": "standardize"}

    def _lookup(self, rng, st, axis="s"):
        """a look-up that leaves the object's table alone: index() or a copying subset"""
        if rng.random() < 0.4:
            return {"k": "index", "s": axis == "s" or bool(rng.random() < 0.5), "n": axis == "n" or bool(rng.random() < 0.5)}
        pool = st["samples"] if axis == "s" else st["names"]
        req = self._req(rng, pool, 0.0)
        return {"k": "subset", "rs": req if axis == "s" else None, "rn": req if axis == "n" else None, "inplace": False}

    def _one(self, rng, klass):
        labs = []
        if klass == "random":
            s, nm, d = self._table(rng)
            labs += self._put_m9(rng, d)
            st = {"samples": list(s), "names": list(nm)}
            ops = [self._op(rng, st) for _ in range(int(rng.integers(1, 9)))]
        elif klass == "lookup-discard-lookup":
            # look-up, discard a sample that is not the last one, look-up again (stale row numbers)
            s, nm, d = self._table(rng, nmin=2)
            labs += self._put_m9(rng, d, where=[str(rng.choice(["first", "middle", "several"]))])
            st = {"samples": list(s), "names": list(nm)}
            ops = [self._op(rng, st) for _ in range(int(rng.integers(0, 2)))]
            ops.append(self._lookup(rng, st, "s"))
            ops += [self._op(rng, st, str(rng.choice(["standardize", "append", "index"]))) for _ in range(int(rng.integers(0, 2)))
                    if rng.random() < 0.3]
            ops.append({"k": "missing", "discard": True})
            for _ in range(int(rng.integers(1, 3))):
                ops.append({"k": "subset", "rs": self._req(rng, st["samples"], 0.0), "rn": self._req(rng, st["names"], 0.7),
                            "inplace": bool(rng.random() < 0.4)})
        elif klass == "append-m9-discard-lookup":
            s, nm, d = self._table(rng, nmin=2)
            st = {"samples": list(s), "names": list(nm)}
            ops = [self._lookup(rng, st, str(rng.choice(["s", "n"])))]
            st["names"].append("nx")
            ops.append({"k": "append", "fit": True, "name": "nx", "col": self._col(rng, str(rng.choice(["first", "middle", "last"])))})
            ops.append({"k": "missing", "discard": bool(rng.random() < 0.85)})
            ops.append({"k": "subset", "rs": self._req(rng, st["samples"], 0.1), "rn": self._req(rng, st["names"], 0.4),
                        "inplace": bool(rng.random() < 0.4)})
            ops += [self._op(rng, st) for _ in range(int(rng.integers(0, 3)))]
        elif klass == "lookup-append-lookup":
            s, nm, d = self._table(rng, distinct_names=True)
            labs += self._put_m9(rng, d)
            st = {"samples": list(s), "names": list(nm)}
            ops = [self._lookup(rng, st, "n")]
            for _ in range(int(rng.integers(1, 3))):
                ops.append(self._op(rng, st, "append"))
            ops.append({"k": "subset", "rs": self._req(rng, st["samples"], 0.6), "rn": self._req(rng, st["names"], 0.0),
                        "inplace": bool(rng.random() < 0.5)})
            ops += [self._op(rng, st) for _ in range(int(rng.integers(0, 3)))]
        elif klass == "lookup-inplace-lookup":
            s, nm, d = self._table(rng, nmin=2, distinct_names=True)
            labs += self._put_m9(rng, d)
            st = {"samples": list(s), "names": list(nm)}
            ops = [self._lookup(rng, st, str(rng.choice(["s", "n"])))] if rng.random() < 0.6 else []
            ops.append({"k": "subset", "rs": self._req(rng, st["samples"], 0.2), "rn": self._req(rng, st["names"], 0.5), "inplace": True})
            for _ in range(int(rng.integers(1, 4))):
                ops.append({"k": "subset", "rs": self._req(rng, st["samples"], 0.2), "rn": self._req(rng, st["names"], 0.5),
                            "inplace": bool(rng.random() < 0.5)})
        elif klass == "lookup-writeread-lookup":
            s, nm, d = self._table(rng, distinct_names=False)
            if rng.random() < 0.5:  # a name occurring three or more times
                base = str(rng.choice(["a", "b", "a-1"]))
                nm = [base if rng.random() < 0.75 else x for x in (nm + [base, base, base])[: max(3, len(nm))]]
                d = [[f2b(float(rng.choice(SEQ_CELLS))) for _ in nm] for _ in s]
            labs += self._put_m9(rng, d)
            st = {"samples": list(s), "names": list(nm)}
            ops = [self._lookup(rng, st, "s")] if rng.random() < 0.6 else []
            if rng.random() < 0.4:
                ops.append(self._op(rng, st, "append"))
            ops.append(self._op(rng, st, "writeread"))
            new = ref_uniq(nm + [o["name"] for o in ops if o["k"] == "append"])
            ops.append({"k": "subset", "rs": self._req(rng, st["samples"], 0.5), "rn": self._req(rng, new, 0.0),
                        "inplace": bool(rng.random() < 0.5)})
            ops += [self._op(rng, st) for _ in range(int(rng.integers(0, 3)))]
        elif klass == "long-table":
            # > 1000 samples: look-up, discard rows at both ends and around row 1000, look up the rows behind them
            n = int(rng.choice([1001, 1002, 1025]))
            s = [f"s{i}" for i in range(n)]
            nm = ["p0"] if rng.random() < 0.6 else ["p0", "p1"]
            cols = []
            for _ in nm:
                cuts = sorted({0, n, *[int(x) for x in rng.integers(1, n, size=int(rng.integers(1, 4)))]})
                col = []
                for a, b in zip(cuts, cuts[1:]):
                    col += [f2b(float(rng.choice(SEQ_CELLS)))] * (b - a)
                cols.append(col)
            d = [[c[i] for c in cols] for i in range(n)]
            edge = sorted({0, 1, 999, 1000, n - 2, n - 1})
            for i in rng.choice(edge, size=int(rng.integers(1, 4)), replace=False):
                d[int(i)][int(rng.integers(0, len(nm)))] = M9
                labs.append("m9-first" if i == 0 else "m9-last" if i == n - 1 else "m9-middle")
            st = {"samples": [s[i] for i in edge] + ["zz"], "names": list(nm)}
            ops = [{"k": "index", "s": True, "n": True} if rng.random() < 0.5 else
                   {"k": "subset", "rs": [s[i] for i in reversed(edge)], "rn": None, "inplace": False},
                   {"k": "missing", "discard": True},
                   {"k": "subset", "rs": self._req(rng, st["samples"], 0.0), "rn": None, "inplace": bool(rng.random() < 0.3)}]
            tail = str(rng.choice(["standardize", "append-short", "append-fit", "writeread", "none"]))
            if tail == "standardize":
                ops.insert(1, {"k": "standardize"})
            elif tail == "append-short":
                ops.insert(1, {"k": "append", "fit": True, "name": "nx", "col": self._col(rng)})       # 8 values: wrong length
            elif tail == "append-fit":
                ops.insert(1, {"k": "append", "fit": True, "name": "nx", "col": [f2b(2.0)] * 500 + [f2b(-1.0)] * (n - 500)})
            elif tail == "writeread":
                ops.insert(2, {"k": "writeread"})
            labs = sorted(set(labs))
        elif klass == "wide-table":
            # > 1000 columns: every row of write() is printed past numpy's summarisation threshold
            m = int(rng.choice([1001, 1002]))
            n = int(rng.integers(1, 3))
            s = [str(x) for x in rng.choice(SEQ_SAMPLES, size=n, replace=False)]
            nm = [f"p{j}" for j in range(m)]
            d = []
            for _ in range(n):
                cuts = sorted({0, m, *[int(x) for x in rng.integers(1, m, size=int(rng.integers(1, 4)))]})
                row = []
                for a, b in zip(cuts, cuts[1:]):
                    row += [f2b(float(rng.choice(SEQ_CELLS)))] * (b - a)
                d.append(row)
            edge = [nm[j] for j in sorted({0, 1, 999, 1000, m - 1})]
            ops = [{"k": "index", "s": False, "n": True}, {"k": "writeread"},
                   {"k": "subset", "rs": None, "rn": [str(x) for x in rng.permutation(edge)] + ["zz"], "inplace": bool(rng.random() < 0.5)}]
            if rng.random() < 0.5:
                ops.insert(1, {"k": "append", "fit": True, "name": "p0" if rng.random() < 0.5 else "nx", "col": self._col(rng)})
        else:  # standardize-mix
            s, nm, d = self._table(rng, nmin=2, distinct_names=True)
            labs += self._put_m9(rng, d)
            st = {"samples": list(s), "names": list(nm)}
            ops = []
            for _ in range(int(rng.integers(2, 7))):
                ops.append(self._op(rng, st, "standardize" if rng.random() < 0.4 else None))
        return {"cls": "C" if rng.random() < 0.3 else "P", "gz": bool(rng.random() < 0.15), "samples": s, "names": nm,
                "data": d, "ops": ops[:8], "klass": klass, "labs": labs}

    def generate(self, rng, n, tier):
        # sequences on tables with > 1000 samples / columns cost ~13 CPU seconds each in Coq (the model's duplicate-id
        # test is quadratic): thorough tier, and the quick tier when it is escalated (anchors changed: budget x 5)
        big = []
        if tier == "thorough" or n >= 1000:
            k = 6 if tier == "thorough" else 1
            big = [self._one(rng, "long-table") for _ in range(k)] + [self._one(rng, "wide-table") for _ in range(k)]
        out = [self._one(rng, str(rng.choice(self.CLASSES))) for _ in range(max(n - len(big), 1))]
        return out[:-1] + big + out[-1:]

    def exhaustive(self, tier):
        """every sequence of length <= 3 over a ten-operation alphabet on one 4 x 2 table whose second row holds -9"""
        import itertools

        s, nm = ["s0", "s1", "s2", "s3"], ["a", "b"]
        d = [[f2b(1.0), f2b(2.0)], [M9, f2b(4.0)], [f2b(5.0), f2b(7.0)], [f2b(8.0), f2b(6.5)]]
        col = [f2b(3.0), f2b(0.5), M9, f2b(1.0)]
        alpha = [
            {"k": "index", "s": True, "n": True},
            {"k": "subset", "rs": ["s3", "s2", "s0"], "rn": None, "inplace": False},
            {"k": "subset", "rs": ["s2", "zz", "s3", "s1"], "rn": ["b"], "inplace": True},
            {"k": "subset", "rs": None, "rn": ["c", "b", "a"], "inplace": False},
            {"k": "append", "fit": True, "name": "c", "col": col},
            {"k": "append", "fit": False, "name": "a", "col": col[:2]},
            {"k": "missing", "discard": True},
            {"k": "missing", "discard": False},
            {"k": "standardize"},
            {"k": "writeread"},
        ]
        out = []
        for ln in (1, 2, 3):
            for ops in itertools.product(alpha, repeat=ln):
                out.append({"cls": "P", "gz": False, "samples": s, "names": nm, "data": d, "ops": [dict(o) for o in ops],
                            "klass": "exhaustive", "labs": ["m9-middle"]})
        return out

    # ---- running the implementation -----------------------------------------------------------
    def run_impl(self, inp):
        import warnings

        d = tempfile.mkdtemp(prefix="hv_c15_")
        steps = []
        try:
            ext = ".covar" if inp["cls"] == "C" else ".pheno"
            fn = os.path.join(d, "t" + ext + (".gz" if inp.get("gz") else ""))
            p = new_obj(inp["cls"], fn, quiet_logger())
            p.samples = tuple(inp["samples"])
            p.names = tuple(inp["names"])
            p.data = np.array([[b2f(b) for b in row] for row in inp["data"]], dtype="float64").reshape(
                len(inp["samples"]), len(inp["names"]))
            for op in inp["ops"]:
                k = op["k"]
                dup_s, dup_n = _has_dup(p.samples), _has_dup(p.names)
                skip = ((k == "index" and ((op["s"] and dup_s) or (op["n"] and dup_n)))
                        or (k == "subset" and ((op["rs"] is not None and dup_s) or (op["rn"] is not None and dup_n)))
                        or (k == "writeread" and (len(p.samples) == 0 or len(p.names) == 0)))
                ret = None
                if skip:
                    ret = {"ok": _tab_of(p)}
                else:
                    try:
                        res = p
                        with warnings.catch_warnings():
                            warnings.simplefilter("ignore")
                            with np.errstate(all="ignore"):
                                if k == "index":
                                    p.index(samples=op["s"], names=op["n"])
                                elif k == "subset":
                                    rs = tuple(op["rs"]) if op["rs"] is not None else None
                                    rn = tuple(op["rn"]) if op["rn"] is not None else None
                                    r = p.subset(samples=rs, names=rn, inplace=op["inplace"])
                                    res = p if op["inplace"] else r
                                elif k == "append":
                                    col = op["col"][: len(p.samples)] if op["fit"] else op["col"]
                                    p.append(op["name"], np.array([b2f(b) for b in col], dtype="float64"))
                                elif k == "missing":
                                    p.check_missing(discard_also=op["discard"])
                                elif k == "standardize":
                                    p.standardize()
                                elif k == "writeread":
                                    p.write()
                                    p.read()
                        ret = {"ok": _tab_of(res)}
                    except Exception as e:  # noqa
                        ret = {"err": err_kind(e), "cls": type(e).__name__, "msg": str(e)[:160]}
                self_t = _tab_of(p)
                if self_t is None or ("ok" in ret and ret["ok"] is None):
                    steps.append({"unobs": True})
                    break
                steps.append({"ret": ret, "self": self_t, "skipped": bool(skip)})
            return {"steps": steps}
        finally:
            shutil.rmtree(d, ignore_errors=True)

    # ---- Coq term -----------------------------------------------------------------------------
    def encode(self, inp, obs):
        steps = obs.get("steps") if isinstance(obs, dict) else None
        tabs, binds, ids, cells = {}, [], {}, {}

        # every distinct table / id / cell value is bound once (Coq parses ~12 k literal characters per second)
        def ident(x):
            if x not in ids:
                ids[x] = f"i{len(ids)}"
                binds.append(f"let {ids[x]} : name := {chars(x)} in")
            return ids[x]

        def cell(b):
            if b not in cells:
                cells[b] = f"c{len(cells)}"
                binds.append(f"let {cells[b]} := {L.z(b)} in")
            return cells[b]

        def idlist(l):
            # long id lists as generators (nrep / gnames), short ones by their bound identifiers
            return CL.names_c(l) if len(l) >= CL.MIN_LEN else L.lst(l, ident)

        def celllist(l):
            return CL.zl_c(l) if len(l) >= CL.MIN_LEN else L.lst(l, cell)

        def tab(t):
            key = canon_json(t)
            if key not in tabs:
                big = len(t["samples"]) >= CL.MIN_LEN or len(t["names"]) >= CL.MIN_LEN
                body = (f"mktab {idlist(t['samples'])} {idlist(t['names'])} "
                        + (CL.rows_c(t["data"]) if big else L.lst(t["data"], lambda r: L.lst(r, cell))))
                tabs[key] = f"t{len(tabs)}"
                binds.append(f"let {tabs[key]} : ntab := {body} in")
            return tabs[key]

        t0 = tab({"samples": inp["samples"], "names": inp["names"], "data": inp["data"]})
        if steps is None:  # crash / timeout / uncaught: nothing observed
            k = obs.get("kind", 99) if isinstance(obs, dict) else 99
            steps = []
            obs_terms = [f"(Err {L.z(k)}, {t0})"]
        else:
            obs_terms = []
        ops = []
        for i, op in enumerate(inp["ops"]):
            so = steps[i] if i < len(steps) else None
            k = op["k"]
            if k == "index":
                ops.append(f"SIndex {L.b(op['s'])} {L.b(op['n'])}")
            elif k == "subset":
                ops.append(f"SSubset {L.opt(op['rs'], idlist)} {L.opt(op['rn'], idlist)} {L.b(op['inplace'])}")
            elif k == "append":
                ops.append(f"SAppend {L.b(op['fit'])} {ident(op['name'])} {celllist(op['col'])}")
            elif k == "missing":
                ops.append(f"SMissing {L.b(op['discard'])}")
            elif k == "writeread":
                ops.append("SWriteRead")
            else:
                out = "[]"
                if so and "ret" in so and "ok" in so["ret"]:
                    out = f"(data {tab(so['ret']['ok'])})"
                ops.append(f"SStandardize {out}")
        for so in steps:
            if so.get("unobs"):
                obs_terms.append(f"(Err 97, {t0})")
                break
            r = so["ret"]
            rt = f"Ok {tab(r['ok'])}" if "ok" in r else f"Err {L.z(r['err'])}"
            obs_terms.append(f"({rt}, {tab(so['self'])})")
        return "(" + " ".join(binds) + f" mksq {t0} {L.lst(ops)} {L.lst(obs_terms)})"

    # ---- bookkeeping --------------------------------------------------------------------------
    def _walk(self, inp, obs):
        """(index, op, table before, step observation) for every observed step"""
        cur = {"samples": inp["samples"], "names": inp["names"], "data": inp["data"]}
        for i, (op, so) in enumerate(zip(inp["ops"], (obs or {}).get("steps", []) if isinstance(obs, dict) else [])):
            if so.get("unobs"):
                return
            yield i, op, cur, so
            cur = so["self"]

    def nontrivial(self, inp, obs):
        changed = False
        for i, op, before, so in self._walk(inp, obs):
            if changed and _is_lookup(op) and not so["skipped"]:
                return True
            if _canon_tab(so["self"]) != _canon_tab(before):
                changed = True
        return False

    def classes(self, inp, obs):
        out = [inp.get("klass", "?"), inp["cls"], f"len={len(inp['ops'])}"] + list(inp.get("labs", []))
        out.append("samples>1000" if len(inp["samples"]) > 1000 else "samples<=1000")
        out.append("columns>1000" if len(inp["names"]) > 1000 else "columns<=1000")
        prior = set()
        for i, op, before, so in self._walk(inp, obs):
            k = op["k"]
            out.append(f"op:{k}")
            if so["skipped"]:
                out.append(f"skipped:{k}")
                continue
            if "err" in so["ret"]:
                out.append(f"{k}:err{so['ret']['err']}")
            if _is_lookup(op):
                for pk in sorted(prior):
                    out.append(f"lookup-after-{pk}")
                if k == "subset":
                    for ax, have in (("rs", before["samples"]), ("rn", before["names"])):
                        req = op[ax]
                        if req is not None:
                            out.append(f"{ax}:" + ("empty" if not req else "unknown-id" if any(x not in have for x in req)
                                                   else "reorder-all" if sorted(req) == sorted(have) and req != have
                                                   else "repeat" if _has_dup(req) else "some"))
                    out.append("subset:inplace" if op["inplace"] else "subset:copy")
            if _canon_tab(so["self"]) != _canon_tab(before):
                tag = k
                if k == "missing":
                    bad = [any(b == M9 for b in r) for r in before["data"]]
                    tag = "discard-not-last" if any(bad[:-1]) else "discard-last-only"
                    if all(bad):
                        tag = "discard-all"
                elif k == "subset":
                    tag = "inplace-subset"
                prior.add(tag)
        return sorted(set(out))

    def shrink(self, inp):
        ops = inp["ops"]
        for i in range(len(ops)):
            if len(ops) > 1:
                yield dict(inp, ops=ops[:i] + ops[i + 1:])
        s, nm, d = inp["samples"], inp["names"], inp["data"]
        if len(s) > 40:
            k = len(s) // 2
            while k >= 1:
                yield dict(inp, samples=s[: len(s) - k], data=d[: len(s) - k])
                yield dict(inp, samples=s[k:], data=d[k:])
                k //= 2
        else:
            for i in range(len(s)):
                if len(s) > 1:
                    yield dict(inp, samples=s[:i] + s[i + 1:], data=d[:i] + d[i + 1:])
        if len(nm) > 40:
            k = len(nm) // 2
            while k >= 1:
                yield dict(inp, names=nm[: len(nm) - k], data=[r[: len(nm) - k] for r in d])
                yield dict(inp, names=nm[k:], data=[r[k:] for r in d])
                k //= 2
        else:
            for j in range(len(nm)):
                if len(nm) > 1:
                    yield dict(inp, names=nm[:j] + nm[j + 1:], data=[r[:j] + r[j + 1:] for r in d])
        for i, op in enumerate(ops):
            if op["k"] == "subset":
                for key in ("rs", "rn"):
                    if op[key] is not None:
                        yield dict(inp, ops=ops[:i] + [dict(op, **{key: None})] + ops[i + 1:])
                        for x in range(len(op[key])):
                            yield dict(inp, ops=ops[:i] + [dict(op, **{key: op[key][:x] + op[key][x + 1:]})] + ops[i + 1:])
                if op["inplace"]:
                    yield dict(inp, ops=ops[:i] + [dict(op, inplace=False)] + ops[i + 1:])
        for i in range(len(s) if len(s) * len(nm) <= 200 else 0):
            for j in range(len(nm)):
                if d[i][j] not in (M9, f2b(1.0)):
                    dd = [list(r) for r in d]
                    dd[i][j] = f2b(1.0)
                    yield dict(inp, data=dd)
        if inp.get("gz"):
            yield dict(inp, gz=False)
        if inp["cls"] == "C":
            yield dict(inp, cls="P")

    def mutate(self, inp, rng):
        """boundary-directed variants of a disagreeing sequence: put -9 into a row that is not the last one, make sure a
        look-up precedes the discard and a look-up of the surviving samples (in table order and reversed) follows it;
        the same around every in-place subset / append / write+read of the sequence"""
        s, nm = list(inp["samples"]), list(inp["names"])
        base_ops = [dict(o) for o in inp["ops"]]
        n = len(s)
        for row in range(max(1, n - 1)):
            d = [list(r) for r in inp["data"]]
            if n > 1:
                d[row][int(rng.integers(0, len(nm)))] = M9
            surv = [x for x, r in zip(s, d) if M9 not in r]
            for first in ({"k": "index", "s": True, "n": True},
                          {"k": "subset", "rs": list(reversed(s)), "rn": None, "inplace": False}):
                for tail in (surv, list(reversed(surv)), surv[-1:]):
                    ops = [first, {"k": "missing", "discard": True}, {"k": "subset", "rs": tail, "rn": None, "inplace": False}]
                    yield dict(inp, data=d, ops=ops, klass="mutate:lookup-discard-lookup")
                    yield dict(inp, data=d, ops=(base_ops[:3] + ops)[:8], klass="mutate:prefix+lookup-discard-lookup")
        for i, op in enumerate(base_ops):
            if op["k"] in ("append", "writeread", "missing", "standardize") or (op["k"] == "subset" and op["inplace"]):
                pre = {"k": "index", "s": True, "n": True}
                allnames = ref_uniq(nm + [o["name"] for o in base_ops[: i + 1] if o["k"] == "append"])
                post = [{"k": "subset", "rs": list(reversed(s)), "rn": None, "inplace": False},
                        {"k": "subset", "rs": None, "rn": list(reversed(allnames)), "inplace": False}]
                yield dict(inp, ops=(base_ops[:i] + [pre, op] + post)[:8], klass="mutate:lookup-around-" + op["k"])

    def signature(self, inp, obs):
        """the first step whose observation a cache-free reference does not explain, the last step before it that changed
        the table, and whether a look-up was made earlier"""
        prior = []
        for i, op, before, so in self._walk(inp, obs):
            k = op["k"]
            if not so["skipped"]:
                ret, after = ref_step(op, before)
                if ret is not None:
                    got = ("err", so["ret"]["err"]) if "err" in so["ret"] else _canon_tab(so["ret"]["ok"])
                    want = ret if isinstance(ret, tuple) else _canon_tab(ret)
                    changes = [x for x in prior if x != "lookup"]
                    hist = (changes[-1] if changes else "nothing") + (" preceded by a look-up" if "lookup" in prior else "")
                    if got != want:
                        what = (f"raised {so['ret'].get('cls', '?')}" if "err" in so["ret"] else "returned other rows/columns/names")
                        return f"opseq {k} after {hist}: {what}"
                    if _canon_tab(so["self"]) != _canon_tab(after):
                        return f"opseq {k} after {hist}: left the object's own table wrong"
                elif "err" in so["ret"]:
                    return f"opseq standardize raised {so['ret'].get('cls', '?')}"
            if _canon_tab(so["self"]) != _canon_tab(before) or _is_lookup(op):
                prior.append(("lookup" if _is_lookup(op) and not (k == "subset" and op["inplace"]) else
                              "discard" if k == "missing" else k))
        return "opseq standardize output / unobserved step"


def canon_json(t):
    import json

    return json.dumps(t, sort_keys=True)


class TVNames(RoundTrip):
    """The name tuples of the roundtrip relation (same generator, same exhaustive 780 tuples over {a, a-1, a-2, a-1-1, b}),
    with the unique-name loop of Phenotypes.write evaluated from the MiniPy syntax regenerated from the current source:
    agree = the interpreted slice computes the column names Phenotypes.write put into the header line.  Validates the
    translator and the interpreter (Counter, set, enumerate, the f-string, str(int)) against the real code; holds is
    checked by the roundtrip relation."""
    name = "tv_names"
    coq_lib = "HVG"
    coq_module = "TVM_C15"
    coq_check = "check_tv_names"
    coq_case_type = "tvncase"
    coq_model = "tv_model_names"
    coq_imports = ["Stats", "C15_Model", "C15_Check"]
    budget = _bud(300, 6000)
    max_cases_per_shard = 150
    anchors = [("haptools/data/phenotypes.py", "Phenotypes.write")]

    def generate(self, rng, n, tier):
        out = []
        for c in super().generate(rng, n, tier):
            m = len(c["names"])
            # only the names matter here: one sample, cells 0.0 (the wide / many-duplicate name tuples are kept)
            out.append({"cls": c["cls"], "gz": False, "names": c["names"], "samples": ["s1"], "data": [[0] * m],
                        "classes": [x for x in c.get("classes", []) if x.startswith("names:")],
                        "klass": c.get("klass", "small")})
        return out

    def run_impl(self, inp):
        d = tempfile.mkdtemp(prefix="hv_c15_")
        try:
            fn = os.path.join(d, "t" + (".covar" if inp["cls"] == "C" else ".pheno"))
            try:
                p = new_obj(inp["cls"], fn, quiet_logger())
                p.names = tuple(inp["names"])
                p.samples = tuple(inp["samples"])
                p.data = np.array(inp["data"], dtype="uint64").view("float64").reshape(1, len(inp["names"]))
                p.write()
                with open(fn, newline="") as f:
                    header = f.readline()
                if not header.endswith("\n") or not header.startswith("#IID\t"):
                    return {"err": 97, "cls": "Unobserved", "msg": "header line not of the form #IID<TAB>names"}
                return {"ok": {"names": header[:-1].split("\t")[1:]}}
            except Exception as e:  # noqa
                return {"err": err_kind(e), "cls": type(e).__name__, "msg": str(e)[:200]}
        finally:
            shutil.rmtree(d, ignore_errors=True)

    def encode(self, inp, obs):
        if "ok" in obs:
            ot = f"(Ok {names_term(obs['ok']['names'])})"
        else:
            ot = f"(Err {L.z(obs.get('err', obs.get('kind', 99)))})"
        return f"(mktvn {names_term(inp['names'])} {ot})"

    def shrink(self, inp):
        m = len(inp["names"])
        if m > 40:
            k = m // 2
            while k >= 1:
                yield dict(inp, names=inp["names"][: m - k], data=[[0] * (m - k)])
                yield dict(inp, names=inp["names"][k:], data=[[0] * (m - k)])
                k //= 2
        else:
            for j in range(m):
                if m > 1:
                    yield dict(inp, names=inp["names"][:j] + inp["names"][j + 1:], data=[[0] * (m - 1)])
        if inp["cls"] == "C":
            yield dict(inp, cls="P")

    def mutate(self, inp, rng):
        for k in range(10):
            names = [str(rng.choice(NAME_POOL)) for _ in inp["names"]]
            yield dict(inp, names=names)

    def signature(self, inp, obs):
        if "ok" not in obs:
            return f"tv_names write raised {obs.get('cls', obs.get('__exc__', '?'))}"
        return "tv_names: the translated unique-name loop and Phenotypes.write disagree on the written column names"


RELATIONS = [RoundTrip(), Read(), Standardize(), Ops(), OpSeq(), TVNames()]

LEVEL_TEXT = (
    "Coq theorems over all name lists, tables and files (no size bound) about a Gallina model of Phenotypes.write's name "
    "suffixing (incl. the counter on any number of equal names), the reader's header detection and row skipping, append, "
    "subset (both axes, error branches) and check_missing, and about arbitrary SEQUENCES of these operations on one object "
    "(by induction over the operation list: each call acts on the current table only, tables stay rectangular, a discarded "
    "sample never resolves again); standardize has an exact model (cells dev/sqrt(var) as pairs over Q) proved equal to the "
    "real-number standardisation (mean 0, variance 1; zeros if constant) and the two standardize checkers are proved sound; "
    "the float64 text codec is a Section contract. The model and the property's boolean checkers are evaluated inside Coq "
    "on every generated write/read (incl. tables beyond numpy's 1000-element print threshold and 75-character line width), "
    "hand-made file, standardize call, table operation and operation sequence run against the implementation."
)
LEVEL_NOTE = (
    "partial: bit-exactness of numpy's shortest-unique printing + float64 parsing is a contract (parse (fmt x) = Some x), "
    "validated bit-for-bit on every roundtrip case, not a theorem; the floats standardize stores are compared cell by cell "
    "with the exact (deviation, variance) pair to 1e-9 on well-conditioned columns (agree; C15_zcheck_real_meaning says what "
    "that tolerance means against the real-number model) while holds checks mean 0 / variance 1 of the output to 1e-9 "
    "(C15_standardize_holds_sound). Trusted: Coq kernel/vm_compute, the hand-written model, csv.reader's field splitting, "
    "the Reals axioms under the six real-number theorems."
)
TECHNIQUE = "Coq proof (induction over name lists / file rows / tables) + vm_compute-evaluated correspondence against the implementation"
