"""C15 - compact Gallina literals for long regular lists.

Tables with > 1000 rows or columns (numpy summarises printed arrays beyond 1000 elements) would cost 20-80 KB of
literal per case; Coq parses ~12 k characters per second.  The encoders here write a list as a concatenation of
  zrep v n        n copies of v
  zseq a n        a, a+1, ..., a+n-1   (consecutive integers; on cells: consecutive float64 bit patterns)
  nrep nm n       n copies of a name
  gnames p a n    p ++ str(a), ..., p ++ str(a+n-1)
  by_cols n cols  an n-row table given by its columns
  [...]           anything else, element by element
(definitions in C15_Check.v, their meaning proved in C15_Std.v).  The compression is purely syntactic and LOSSLESS
for every input - it is applied to what the implementation returned just as to the generated input - and every
literal is re-expanded here before it is handed out (`_check`): a wrong compressor raises, it cannot change a verdict.
"""
import re

from . import coqlit as L

MIN_RUN = 6      # shorter runs are cheaper as plain elements
MIN_LEN = 24     # shorter lists are written plainly


def _chars(s):
    return L.zl([ord(c) for c in s])


# ---- integers ------------------------------------------------------------------------------------

def z_segments(xs):
    """greedy split into ('rep', v, n) / ('seq', a, n) / ('lit', [...])"""
    segs, lit, i, n = [], [], 0, len(xs)

    def flush():
        if lit:
            segs.append(("lit", list(lit)))
            del lit[:]

    while i < n:
        j = i
        while j + 1 < n and xs[j + 1] == xs[i]:
            j += 1
        k = i
        while k + 1 < n and xs[k + 1] == xs[k] + 1:
            k += 1
        if j - i + 1 >= MIN_RUN and j >= k:
            flush()
            segs.append(("rep", xs[i], j - i + 1))
            i = j + 1
        elif k - i + 1 >= MIN_RUN:
            flush()
            segs.append(("seq", xs[i], k - i + 1))
            i = k + 1
        else:
            lit.append(xs[i])
            i += 1
    flush()
    return segs


def z_expand(segs):
    out = []
    for s in segs:
        if s[0] == "rep":
            out += [s[1]] * s[2]
        elif s[0] == "seq":
            out += list(range(s[1], s[1] + s[2]))
        else:
            out += s[1]
    return out


def zl_c(xs):
    xs = [int(x) for x in xs]
    if len(xs) < MIN_LEN:
        return L.zl(xs)
    segs = z_segments(xs)
    assert z_expand(segs) == xs, "c15_lit: integer compressor is not lossless"
    parts = []
    for s in segs:
        if s[0] == "rep":
            parts.append(f"zrep {L.z(s[1])} {s[2]}")
        elif s[0] == "seq":
            parts.append(f"zseq {L.z(s[1])} {s[2]}")
        else:
            parts.append(L.zl(s[1]))
    return "(" + " ++ ".join(parts) + ")"


# ---- names ---------------------------------------------------------------------------------------

_NUM = re.compile(r"(0|[1-9][0-9]*)$")


def _splits(s):
    """(prefix, k) with s == prefix + str(k), str(k) canonical decimal of k >= 0"""
    out = []
    for cut in range(len(s) - 1, -1, -1):
        tail = s[cut:]
        if not tail.isascii() or not tail.isdigit():
            break
        if _NUM.fullmatch(tail):
            out.append((s[:cut], int(tail)))
    return out


def n_segments(names):
    segs, lit, i, n = [], [], 0, len(names)

    def flush():
        if lit:
            segs.append(("lit", list(lit)))
            del lit[:]

    while i < n:
        j = i
        while j + 1 < n and names[j + 1] == names[i]:
            j += 1
        best = (0, None, None)
        for p, k in _splits(names[i]):
            t = 1
            while i + t < n and names[i + t] == p + str(k + t):
                t += 1
            if t > best[0]:
                best = (t, p, k)
        if j - i + 1 >= MIN_RUN and j - i + 1 >= best[0]:
            flush()
            segs.append(("rep", names[i], j - i + 1))
            i = j + 1
        elif best[0] >= MIN_RUN:
            flush()
            segs.append(("gen", best[1], best[2], best[0]))
            i += best[0]
        else:
            lit.append(names[i])
            i += 1
    flush()
    return segs


def n_expand(segs):
    out = []
    for s in segs:
        if s[0] == "rep":
            out += [s[1]] * s[2]
        elif s[0] == "gen":
            out += [s[1] + str(k) for k in range(s[2], s[2] + s[3])]
        else:
            out += s[1]
    return out


def names_c(names):
    names = [str(x) for x in names]
    if len(names) < MIN_LEN:
        return L.lst(names, _chars)
    segs = n_segments(names)
    assert n_expand(segs) == names, "c15_lit: name compressor is not lossless"
    parts = []
    for s in segs:
        if s[0] == "rep":
            parts.append(f"nrep {_chars(s[1])} {s[2]}")
        elif s[0] == "gen":
            parts.append(f"gnames {_chars(s[1])} {s[2]} {s[3]}")
        else:
            parts.append(L.lst(s[1], _chars))
    return "(" + " ++ ".join(parts) + ")"


# ---- tables --------------------------------------------------------------------------------------

def rows_c(rows):
    """list of rows of integers; tall rectangular tables are written by columns"""
    n = len(rows)
    if n >= MIN_LEN and rows[0] and all(len(r) == len(rows[0]) for r in rows) and len(rows[0]) <= 8:
        m = len(rows[0])
        cols = [[r[j] for r in rows] for j in range(m)]
        assert [[c[i] for c in cols] for i in range(n)] == [list(r) for r in rows]
        return f"(by_cols {n} {L.lst(cols, zl_c)})"
    return L.lst(rows, zl_c)
