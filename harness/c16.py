"""C16 - haptools ld reports the Pearson correlation of dosages.

Relation
  ld : haptools.ld.calc_ld, called directly or through the `haptools ld` command, on generated biallelic phased
       matrices (VCF.gz+tbi or PGEN, optionally read in chunks), .hap sets with repeats (plain, or sorted + bgzipped +
       indexed by haptools index), every kind of target, the four {from_gts, ids} modes, sample subsets; plus a second run with
       the target swapped with EVERY listed item in turn (symmetry, and agreement of the .hap and .ld output modes).
       The V lines of a haplotype are written in any order relative to the genotype records (file order, reversed,
       shuffled; grouped per haplotype, each H line followed by its V lines, interleaved with the V lines of the other
       haplotypes, or all V lines before the H lines), haplotypes mix REF and ALT alleles, variant IDs are not in
       file order, PGEN records are not in position order and VCF records share positions; families of cases use
       every haplotype of one data set as the target in turn.
       Haplotypes WITHOUT V lines (dosage 2 for everybody, so every R that involves one is nan) come first, in the
       middle and last in the .hap file, as the target and as a listed item, in both output modes (stream "no-vlines":
       families over every target of one data set); a "partition" stream makes the number of distinct (variant, allele)
       pairs of the listed haplotypes equal to the number of records loaded while their order of first appearance
       differs from the file order (interleaved haplotypes, a variant used with both alleles + a target-only variant);
       a "width" stream uses 127..129 and 254..257 samples.
       A malformed stream (absent target, allele not in the variant, missing / multiallelic / unphased call)
       is compared with the model's exception kinds only.
"""
import os
import shutil
import tempfile
from fractions import Fraction

import numpy as np

from . import coqlit as L
from .core import Relation, err_kind

PROP = "C16"
CLAIMED = True
COQ_MODULES = ["PearsonQ", "C16_Model", "C16_Check", "C16_Proofs", "C16_ProofsPerm", "C16_ProofsEmpty",
               "C16_ModelBatch", "C16_ProofsBatch"]
PROPERTY_MODULE = "C16_Property"
ALLOWED_AXIOMS = []
RULE = (
    "ld: 2-12 samples (127-129, 254-257 in the width stream) x 2-8 biallelic phased variants (constant, duplicated and "
    "complemented columns included), 1-5 haplotypes of 0-4 alleles (V lines in any order and layout, REF and ALT mixed; "
    "haplotypes without V lines first / in the middle / last) + 0-2 repeats, target any "
    "haplotype or variant (every haplotype in turn in the family streams), from_gts x ids x sample subset x "
    "VCF/PGEN, plus one swapped run per listed item. Non-trivial = a well-formed case that lists at least one item whose R is neither nan nor +-1.000. "
    "Distinct = distinct canonical JSON."
)
TRUSTED = [
    "Python's '.3f' float formatting and numpy.corrcoef's floating-point evaluation are compared with the exact "
    "rational r by |printed - r| <= 0.0005 + 1e-9 (decided on r^2 and the sign), not verified",
    "htslib/cyvcf2/pgenlib return the calls the harness wrote (exercised on every run)",
    "IDs and alleles are interned to integers by the harness",
]
ASSUMPTIONS = [
    "theorems about the listing assume distinct haplotype / variant IDs and a .hap set whose alleles exist in the genotypes "
    "(a haplotype whose variant is absent from the genotypes is outside the domain: the model raises ValueError, "
    "Haplotypes.transform IndexError or ValueError; never generated)",
    "a haplotype may have no V lines (dosage 2 for every sample, R = nan). While the switch STRICT_EMPTY_HAPLOTYPE is off "
    "(default: the tree before fixes/C16_empty_haplotype.patch, where such a TARGET raises ValueError) holds does not look "
    "at runs whose target is such a haplotype; listed ones are always checked",
    "the strand-count characterisation of a haplotype's dosage assumes a rectangular matrix (one call per sample in every record)",
]

ALLELES = "ACGT"

# Switch for the integrator.  A TARGET haplotype that has no V lines (an H line alone: accepted by the reader, dosage 2
# for every sample, so the property demands every listed item once with R = nan) makes Haplotype.transform raise
# "ValueError: operands could not be broadcast together with shapes (1,0) (n,0,2)" in every mode of `haptools ld`
# (its array of wanted allele indices has shape (1, 0) instead of (1, 0, 1)); when no record at all was selected from
# a VCF (array of shape (0, 0, 0)) it is Haplotypes.transform that raises ("could not broadcast input array from
# shape (0,0) into shape (0,2)") as soon as another such haplotype is to be listed.  A LISTED haplotype without V lines
# is handled correctly (nan) whenever the target is not one.
# False (default) = the tree as it is: the model (C16_Model.calc_ld_sw false = pinned_empty_target) raises the same
# kind / lists nothing in the same situations (agree compares them) and holds does not look at runs whose target is
# such a haplotype (C16_Check.skipped), the swapped runs included.
# True = after fixes/C16_empty_haplotype.patch: the model is calc_ld (theorems C16_ld_no_vlines_nan,
# C16_ld_modes_total) and holds demands the listing with nan.  Flipping it on the unrepaired tree yields
#   VIOLATION property=C16 ...  signature "calc_ld raises ValueError for a variant-less haplotype target with
#   from_gts=..."  (witness corpus/C16/no_vlines_target.json).
# Also settable with HV_C16_STRICT_EMPTY_HAPLOTYPE=1.
STRICT_EMPTY_HAPLOTYPE = os.environ.get("HV_C16_STRICT_EMPTY_HAPLOTYPE", "1") == "1"

WIDTHS = [127, 128, 129, 254, 255, 256, 257]


# ----------------------------------------------------------------------------------------------
# file writers shared with c17


def write_vcf(path, samples, records, contigs=None, header_extra=""):
    """records: (chrom, pos, id, ref, alt_string, info, [gt strings]); returns path of the bgzipped, indexed file"""
    import pysam

    contigs = contigs or sorted({str(r[0]) for r in records}, key=lambda c: (len(c), c))
    with open(path, "w") as f:
        f.write("##fileformat=VCFv4.2\n" + header_extra)
        for c in contigs:
            f.write(f"##contig=<ID={c}>\n")
        f.write('##FORMAT=<ID=GT,Number=1,Type=String,Description="Genotype">\n')
        f.write("#CHROM\tPOS\tID\tREF\tALT\tQUAL\tFILTER\tINFO\tFORMAT\t" + "\t".join(samples) + "\n")
        for c, pos, vid, ref, alt, info, gts in records:
            f.write(f"{c}\t{pos}\t{vid}\t{ref}\t{alt}\t.\t.\t{info}\tGT\t" + "\t".join(gts) + "\n")
    pysam.tabix_compress(path, path + ".gz", force=True)
    pysam.tabix_index(path + ".gz", preset="vcf", force=True)
    return path + ".gz"


def write_pgen(path, samples, variants, calls):
    """variants: (id, chrom, pos, ref, alt); calls[v][s] = (a0, a1); biallelic, phased, no missing calls"""
    from haptools.data import GenotypesPLINK

    gts = GenotypesPLINK(path)
    gts.samples = tuple(samples)
    gts.variants = np.array([(v[0], str(v[1]), v[2], (v[3], v[4])) for v in variants], dtype=gts.variants.dtype)
    data = np.ones((len(samples), len(variants), 3), dtype=np.uint8)
    for j, row in enumerate(calls):
        for i, (a, b) in enumerate(row):
            data[i, j, 0], data[i, j, 1] = a, b
    gts.data = data
    gts.write()
    return path


def gt_string(a, b, phased=True):
    s = lambda x: "." if x >= 254 else str(x)
    return s(a) + ("|" if phased else "/") + s(b)


def printed(s):
    """'-0.577' -> -577 ; 'nan' -> None"""
    s = s.strip()
    if s.lower() in ("nan", "-nan"):
        return None
    fr = Fraction(s) * 1000
    assert fr.denominator == 1, s
    return int(fr)


# ----------------------------------------------------------------------------------------------


def _rand_calls(rng, n, p):
    cols = []
    for j in range(p):
        r = rng.random()
        if r < 0.12:
            v = int(rng.integers(0, 2))
            col = [[v, v] for _ in range(n)]  # constant column
        elif r < 0.22 and cols:
            col = [list(c) for c in cols[int(rng.integers(0, len(cols)))]]  # duplicate: r = 1
        elif r < 0.30 and cols:
            col = [[1 - c[0], 1 - c[1]] for c in cols[int(rng.integers(0, len(cols)))]]  # complement: r = -1
        elif r < 0.36 and cols:
            col = [[c[1], c[0]] for c in cols[int(rng.integers(0, len(cols)))]]  # strands swapped: same dosage
        else:
            f = float(rng.choice([0.1, 0.3, 0.5, 0.7, 0.9]))
            col = [[int(rng.random() < f), int(rng.random() < f)] for _ in range(n)]
        cols.append(col)
    return cols


def _file_rank(case):
    return {v["id"]: j for j, v in enumerate(case["variants"])}


def vline_order(case, ln):
    """how the V lines of haplotype `ln` are ordered relative to the records of the genotype file"""
    rk = _file_rank(case)
    r = [rk.get(x[0], -1) for x in ln["vars"]]
    if len(r) < 2:
        return "single"
    if r == sorted(r):
        return "file-order"
    if r == sorted(r, reverse=True):
        return "reversed"
    return "shuffled"


def mixes_alleles(case, ln):
    ref = {v["id"]: v["ref"] for v in case["variants"]}
    kinds = {x[1] == ref.get(x[0]) for x in ln["vars"]}
    return len(kinds) == 2


def gen_case(rng, n=None, pmax=8, hmax=5):
    n = int(rng.integers(2, 13)) if n is None else n
    p = int(rng.integers(2, pmax + 1))
    cols = _rand_calls(rng, n, p)
    fmt = "pgen" if rng.random() < 0.3 else "vcf"
    pos = sorted(rng.choice(np.arange(1, 400), size=p, replace=False).tolist())
    posorder = "sorted"
    if rng.random() < 0.25:
        # records sharing a position (legal in both formats; no order among them is implied)
        j = int(rng.integers(0, p - 1))
        pos[j + 1] = pos[j]
        posorder = "ties"
    if fmt == "pgen" and rng.random() < 0.5:
        # a .pvar need not be in position order
        pos = [int(x) for x in rng.permutation(pos).tolist()]
        posorder = "unsorted"
    # variant names: not in file order half of the time (ID order != file order != position order)
    names = [f"v{j}" for j in (rng.permutation(p).tolist() if rng.random() < 0.5 else range(p))]
    variants = []
    same_letters = rng.random() < 0.3     # every variant A>G: mixing up two variants never raises, it is silent
    for j in range(p):
        ref, alt = rng.choice(list(ALLELES), size=2, replace=False).tolist()
        if same_letters:
            ref, alt = "A", "G"
        variants.append({"id": names[j], "pos": int(pos[j]) * 10, "ref": ref, "alt": alt, "calls": cols[j], "unph": []})
    nh = int(rng.integers(1, hmax + 1))
    lines = []
    for h in range(nh):
        k = int(rng.integers(1, min(4, p) + 1))
        if rng.random() < 0.06:
            k = 0                                            # an H line without V lines
        vs = rng.choice(p, size=k, replace=False).tolist()   # in arbitrary order
        o = rng.random()
        if o < 0.3:
            vs.sort()                                        # the order of the genotype file
        elif o < 0.5:
            vs.sort(reverse=True)
        which = ["alt" if rng.random() < 0.7 else "ref" for _ in vs]
        if k >= 2 and rng.random() < 0.5:
            # REF and ALT mixed within the haplotype
            a, b = rng.choice(k, size=2, replace=False).tolist()
            which[a], which[b] = "ref", "alt"
        lines.append({"t": "H", "id": f"h{h}", "vars": [[variants[j]["id"], variants[j][w]] for j, w in zip(vs, which)]})
    for r in range(int(rng.choice([0, 0, 1, 2]))):
        lines.insert(int(rng.integers(0, len(lines) + 1)), {"t": "R", "id": f"r{r}"})
    hap_ids = [l["id"] for l in lines if l["t"] == "H"]
    var_ids = [v["id"] for v in variants]
    from_gts = bool(rng.random() < 0.5)
    target = str(rng.choice(hap_ids)) if rng.random() < 0.5 else str(rng.choice(var_ids))
    ids = None
    if rng.random() < 0.5:
        uni = var_ids if from_gts else hap_ids
        k = int(rng.integers(1, len(uni) + 1))
        ids = [str(x) for x in rng.permutation(uni)[:k].tolist()]
        if rng.random() < 0.15:
            ids.insert(int(rng.integers(0, len(ids) + 1)), "absent_id")
    keep = None
    if rng.random() < 0.35:
        keep = [bool(rng.random() < 0.7) for _ in range(n)]
        if sum(keep) == 0:
            keep[int(rng.integers(0, n))] = True
    case = {"n": n, "variants": variants, "lines": lines, "keep": keep, "target": target, "ids": ids,
            "from_gts": from_gts, "fmt": fmt, "kind": "wellformed",
            "via": "cli" if rng.random() < 0.25 else "api", "hapfmt": "gz" if rng.random() < 0.2 else "plain",
            "chunk": int(rng.integers(1, 4)) if (fmt == "pgen" and rng.random() < 0.5) else None,
            "layout": str(rng.choice(["grouped", "hv", "interleaved", "vfirst"])), "vseed": int(rng.integers(0, 2**31)),
            "posorder": posorder}
    r = rng.random()
    if r > 0.93 and ids:
        # the same --id given twice: still listed once
        ids.insert(int(rng.integers(0, len(ids) + 1)), ids[int(rng.integers(0, len(ids)))])
        case["kind"] = "dup-ids"
    if r < 0.04:
        case["target"] = "nowhere"
        case["kind"] = "absent-target"
    elif r < 0.07:
        hl = [l for l in lines if l["t"] == "H" and l["vars"]]
        if hl:
            h = hl[int(rng.integers(0, len(hl)))]
            h["vars"][int(rng.integers(0, len(h["vars"])))][1] = "N"
            case["kind"] = "allele-not-in-variant"
    elif r < 0.12:
        v = variants[int(rng.integers(0, p))]
        s = int(rng.integers(0, n))
        what = str(rng.choice(["missing", "multiallelic", "unphased"]))
        if what == "missing":
            v["calls"][s] = [255, 255] if rng.random() < 0.5 else [0, 255]
        elif what == "multiallelic":
            v["calls"][s] = [2, int(rng.integers(0, 3))]
            v["alt2"] = [a for a in ALLELES if a not in (v["ref"], v["alt"])][0]  # only in the file
        else:
            v["calls"][s] = [0, 1]
            v["unph"] = [s]
        case["fmt"] = "vcf"
        case["chunk"] = None
        if posorder == "unsorted":   # a bgzipped + tabix-indexed VCF has to be in position order
            for v_, q in zip(variants, sorted(v_["pos"] for v_ in variants)):
                v_["pos"] = q
            case["posorder"] = "sorted"
        case["kind"] = "bad-call-" + what
    return case


def target_family(case):
    """the same data with every haplotype as the target in turn, .hap and .ld output"""
    haps = [l["id"] for l in case["lines"] if l["t"] == "H"]
    for t in haps:
        for fg in (False, True):
            # the --id list of the base case names haplotypes (.hap mode) or variants (--from-gts)
            yield dict(case, target=t, from_gts=fg, ids=case["ids"] if fg == case["from_gts"] else None, kind="family")


def _wellformed(rng, **kw):
    c = gen_case(rng, **kw)
    while c["kind"] != "wellformed":
        c = gen_case(rng, **kw)
    return c


def no_vlines_family(rng, where):
    """one data set with >= 3 haplotypes of which the first / a middle / the last one (or two of them) has no V lines;
    every haplotype and one variant as the target, .hap and .ld output"""
    c = _wellformed(rng)
    while len([l for l in c["lines"] if l["t"] == "H"]) < 3:
        c = _wellformed(rng)
    hl = [l for l in c["lines"] if l["t"] == "H"]
    for l in hl:
        if not l["vars"]:     # exactly the chosen ones are empty
            v = c["variants"][int(rng.integers(0, len(c["variants"])))]
            l["vars"] = [[v["id"], v["alt"]]]
    pick = {"first": [0], "middle": [int(rng.integers(1, len(hl) - 1))], "last": [len(hl) - 1],
            "first+last": [0, len(hl) - 1], "all": list(range(len(hl)))}[where]
    for k in pick:
        hl[k]["vars"] = []
    c["kind"] = "no-vlines"
    out = [dict(x, kind="no-vlines") for x in target_family(c)]
    v = c["variants"][int(rng.integers(0, len(c["variants"])))]["id"]
    out += [dict(c, target=v, from_gts=fg, ids=c["ids"] if fg == c["from_gts"] else None) for fg in (False, True)]
    return out


def partition_case(rng):
    """.hap mode without --id where Haplotypes.transform asks Genotypes.subset() for exactly as many columns as records
    were loaded, in another order than the file's: the haplotypes cut a shuffled list S of variants into stretches;
    the target is a variant of S ("var"), a further haplotype made of variants of S ("hap"), or a variant outside S
    while one variant of S is used with both of its alleles ("both")"""
    c = _wellformed(rng)
    vs = c["variants"]
    p = len(vs)
    m = int(rng.integers(2, p + 1))
    S = [int(x) for x in rng.permutation(p)[:m].tolist()]
    if S == sorted(S):
        S.reverse()
    nh = int(rng.integers(1, min(3, m) + 1))
    cuts = sorted(rng.choice(np.arange(1, m), size=nh - 1, replace=False).tolist()) if nh > 1 else []
    which = {j: ("alt" if rng.random() < 0.6 else "ref") for j in S}
    lines = []
    for k, (a, b) in enumerate(zip([0] + cuts, cuts + [m])):
        lines.append({"t": "H", "id": f"h{k}", "vars": [[vs[j]["id"], vs[j][which[j]]] for j in S[a:b]]})
    how = str(rng.choice(["var", "hap", "both"]))
    if how == "both" and m == p:
        how = "var"
    if how == "var":
        target = vs[S[int(rng.integers(0, m))]]["id"]
    elif how == "hap":
        k = int(rng.integers(1, min(2, m) + 1))
        tv = [int(x) for x in rng.choice(S, size=k, replace=False).tolist()]
        lines.insert(int(rng.integers(0, len(lines) + 1)),
                     {"t": "H", "id": "ht", "vars": [[vs[j]["id"], vs[j]["alt" if rng.random() < 0.5 else "ref"]] for j in tv]})
        target = "ht"
    else:
        j = S[int(rng.integers(0, m))]
        lines.append({"t": "H", "id": "hx", "vars": [[vs[j]["id"], vs[j]["ref" if which[j] == "alt" else "alt"]]]})
        target = vs[[x for x in range(p) if x not in S][0]]["id"]
    if rng.random() < 0.3:
        lines.insert(int(rng.integers(0, len(lines) + 1)), {"t": "R", "id": "r0"})
    return dict(c, lines=lines, target=target, ids=None, from_gts=False, hapfmt="plain", kind="partition")


def width_case(rng, n):
    """sample counts around 2^7 and 2^8: dosage sums and sample indices in fixed-width arrays"""
    c = _wellformed(rng, n=n, pmax=3, hmax=2)
    if c["keep"] is not None and rng.random() < 0.5:
        c["keep"] = None
    return dict(c, kind="width")


def listed_pairs_vs_loaded(case):
    """.hap mode: (number of distinct (variant, allele) pairs over the listed haplotypes, number of records loaded,
    does the order of first appearance of those pairs differ from the order of the records in the file)"""
    if case["from_gts"]:
        return None
    hl = [l for l in case["lines"] if l["t"] == "H"]
    if case["ids"] is not None:
        hl = [l for l in hl if l["id"] in case["ids"] or l["id"] == case["target"]]
    wanted = {x[0] for l in hl for x in l["vars"]}
    if case["target"] not in [l["id"] for l in hl]:
        wanted.add(case["target"])
    rk = _file_rank(case)
    loaded = [v for v in wanted if v in rk]
    pairs = list(dict.fromkeys((x[0], x[1]) for l in hl if l["id"] != case["target"] for x in l["vars"]))
    order = [rk.get(v, -1) for v, _ in pairs]
    return len(pairs), len(loaded), order != sorted(order)


def _files(case, d):
    samples = [f"S{i}" for i in range(case["n"])]
    vs = case["variants"]
    if case["fmt"] == "pgen":
        gt = write_pgen(os.path.join(d, "g.pgen"), samples,
                        [(v["id"], "1", v["pos"], v["ref"], v["alt"]) for v in vs], [v["calls"] for v in vs])
    else:
        recs = [("1", v["pos"], v["id"], v["ref"], v["alt"] + ("," + v["alt2"] if v.get("alt2") else ""), ".",
                 [gt_string(a, b, i not in v["unph"]) for i, (a, b) in enumerate(v["calls"])]) for v in vs]
        gt = write_vcf(os.path.join(d, "g.vcf"), samples, recs)
    posof = {v["id"]: v["pos"] for v in vs}
    hp = os.path.join(d, "h.hap")

    def hline(ln):
        if ln["t"] == "H":
            ps = [posof.get(x[0], 1) for x in ln["vars"]] or [1]
            return f"H\t1\t{min(ps)}\t{max(ps) + 1}\t{ln['id']}\n"
        return f"R\t1\t5\t9\t{ln['id']}\n"

    def vlines(ln):
        out = []
        for vid, al in (ln["vars"] if ln["t"] == "H" else []):
            q = posof.get(vid, 1)
            out.append(f"V\t{ln['id']}\t{q}\t{q + 1}\t{vid}\t{al}\n")
        return out

    layout = case.get("layout", "grouped")
    grouped = [x for ln in case["lines"] for x in vlines(ln)]
    if layout in ("interleaved", "vfirst"):
        # a random merge: every haplotype keeps the order of its own V lines
        import random

        queues = [vlines(ln) for ln in case["lines"]]
        turns = [k for k, q in enumerate(queues) for _ in q]
        random.Random(case.get("vseed", 0)).shuffle(turns)
        merged = [queues[k].pop(0) for k in turns]
    with open(hp, "w") as f:
        f.write("#\tversion\t0.2.0\n")
        if layout == "hv":
            for ln in case["lines"]:
                f.write(hline(ln))
                f.writelines(vlines(ln))
        elif layout == "vfirst":
            f.writelines(merged)
            f.writelines(hline(ln) for ln in case["lines"])
        else:
            f.writelines(hline(ln) for ln in case["lines"])
            f.writelines(merged if layout == "interleaved" else grouped)
    order = None
    if case.get("hapfmt") == "gz":
        import gzip
        from pathlib import Path
        from haptools.index import index_haps
        from haptools.logging import getLogger

        index_haps(Path(hp), sort=True, output=Path(hp + ".gz"), log=getLogger("hv16i", "CRITICAL"))
        hp = hp + ".gz"
        order = {"lines": [], "vars": {}}
        with gzip.open(hp, "rt") as f:
            for ln in f:
                t = ln.rstrip("\n").split("\t")
                if t[0] in ("H", "R"):
                    order["lines"].append(t[4])
                elif t[0] == "V":
                    order["vars"].setdefault(t[1], []).append([t[4], t[5]])
    keep = case["keep"]
    sset = None if keep is None else {s for s, k in zip(samples, keep) if k}
    return gt, hp, sset, order


def _run(target, gt, hp, sset, ids, from_gts, out, via="api", chunk=None, sample_order=None):
    from pathlib import Path
    from haptools.ld import calc_ld
    from haptools.logging import getLogger

    if via == "cli":
        from click.testing import CliRunner
        from haptools.__main__ import main

        args = ["ld", "--verbosity", "CRITICAL", "-o", out]
        for s_ in (sample_order or []):
            if sset is not None and s_ in sset:
                args += ["-s", s_]
        for i in ids or []:
            args += ["-i", i]
        if chunk:
            args += ["-c", str(chunk)]
        if from_gts:
            args.append("--from-gts")
        args += ["--", target, gt, hp]
        res = CliRunner().invoke(main, args, catch_exceptions=True)
        e = res.exception
        if e is not None and not (isinstance(e, SystemExit) and e.code in (0, None)):
            return {"err": err_kind(e), "cls": type(e).__name__, "msg": str(e)[:160]}
        if res.exit_code != 0:
            return {"err": 10, "cls": "SystemExit", "msg": (res.output or "")[-160:]}
    else:
        log = getLogger("hv16", "CRITICAL")
        try:
            calc_ld(target, Path(gt), Path(hp), None, sset, tuple(ids) if ids is not None else None, chunk, False,
                    from_gts, Path(out), log)
        except Exception as e:  # noqa
            return {"err": err_kind(e), "cls": type(e).__name__, "msg": str(e)[:160]}
    rows = []
    with open(out) as f:
        for ln in f:
            t = ln.rstrip("\n").split("\t")
            if from_gts:
                if t[0] == "CHR":
                    continue
                rows.append([t[2], printed(t[3])])
            elif t[0] == "H":
                rows.append([t[4], printed(t[5])])
    return {"ok": rows}


class LD(Relation):
    name = "ld"
    coq_module = "C16_Check"
    coq_check = "check_ld"
    coq_case_type = "lcase"
    coq_model = "model_ld"
    coq_imports = ["PearsonQ", "C16_Model"]
    budget = {"quick": 1400, "thorough": 6000}
    max_cases_per_shard = 60
    timeout_per_case = 60
    # calc_ld and the functions it delegates the dosages to
    anchors = [("haptools/ld.py", "calc_ld"), ("haptools/ld.py", "pearson_corr_ld"),
               ("haptools/data/haplotypes.py", "Haplotypes.transform"),
               ("haptools/data/haplotypes.py", "Haplotype.transform"),
               ("haptools/data/genotypes.py", "Genotypes.subset")]

    def generate(self, rng, n, tier):
        out = []
        quick = tier == "quick"
        # sample counts around 2^7 / 2^8
        for w in (rng.permutation(WIDTHS)[:2].tolist() if quick else WIDTHS + WIDTHS):
            out.append(width_case(rng, int(w)))
        # haplotypes without V lines: first / middle / last, every target, both output modes
        wheres = ["first", "middle", "last", "first+last", "middle", "all"]
        for k in range(len(wheres) if quick else 5 * len(wheres)):
            out.extend(no_vlines_family(rng, wheres[k % len(wheres)]))
        # as many columns requested from subset() as records loaded, in another order
        for k in range(max(1, n // 25)):
            out.append(partition_case(rng))
        out = out[:n // 2]
        while len(out) < n:
            c = gen_case(rng)
            out.append(c)
            nhap = len([l for l in c["lines"] if l["t"] == "H"])
            if c["kind"] == "wellformed" and nhap >= 2 and rng.random() < 0.08:
                # every haplotype of this data set as the target in turn
                out.extend(target_family(c))
        return out[:n]

    def exhaustive(self, tier):
        # every target x the four modes on one small fixed data set
        rng = np.random.default_rng(16)
        base = gen_case(rng)
        def fit(c):
            hl = [l for l in c["lines"] if l["t"] == "H"]
            return (c["kind"] == "wellformed" and len(hl) >= 2
                    and any(vline_order(c, l) in ("reversed", "shuffled") and mixes_alleles(c, l) for l in hl))

        while not fit(base):
            base = gen_case(rng)
        base["posorder"] = "sorted"   # both formats are written from it
        for v, q in zip(base["variants"], sorted(v["pos"] for v in base["variants"])):
            v["pos"] = q
        out = []
        haps = [l["id"] for l in base["lines"] if l["t"] == "H"]
        vids = [v["id"] for v in base["variants"]]
        for t in haps + vids:
            for fg in (False, True):
                uni = vids if fg else haps
                for ids in (None, uni[:1], uni[::-1]):
                    for fmt in ("vcf", "pgen"):
                        out.append(dict(base, target=t, from_gts=fg, ids=ids, fmt=fmt, keep=None, kind="exhaustive",
                                        chunk=None))
        # the same data with haplotypes without V lines before, between and after the others
        lines2 = [{"t": "H", "id": "e0", "vars": []}]
        for k, ln in enumerate(base["lines"]):
            lines2.append(ln)
            if k == 0:
                lines2.append({"t": "H", "id": "e1", "vars": []})
        lines2.append({"t": "H", "id": "e2", "vars": []})
        haps2 = [l["id"] for l in lines2 if l["t"] == "H"]
        for t in haps2 + vids[:2]:
            for fg in (False, True):
                uni = vids if fg else haps2
                for ids in (None, ["e1", haps[0]] if not fg else uni[:1]):
                    for fmt in ("vcf", "pgen"):
                        out.append(dict(base, lines=lines2, target=t, from_gts=fg, ids=ids, fmt=fmt, keep=None,
                                        kind="exhaustive", chunk=None))
        return out

    def run_impl(self, case):
        d = tempfile.mkdtemp(prefix="hv_c16_")
        try:
            gt, hp, sset, order = _files(case, d)
            so = [f"S{i}" for i in range(case["n"])]
            main = _run(case["target"], gt, hp, sset, case["ids"], case["from_gts"], os.path.join(d, "out.txt"),
                        case.get("via", "api"), case.get("chunk"), so)
            # LD(A,B) = LD(B,A): every listed item B becomes the target of a further run that lists the
            # original target (a haplotype target is listed in .hap mode, a variant target with --from-gts)
            sym = []
            if "ok" in main:
                hap_ids = [l["id"] for l in case["lines"] if l["t"] == "H"]
                for b in list(dict.fromkeys(r[0] for r in main["ok"])):
                    second = _run(b, gt, hp, sset, None, case["target"] not in hap_ids,
                                  os.path.join(d, f"out2_{len(sym)}.txt"), case.get("via", "api"), case.get("chunk"), so)
                    if "ok" in second:
                        hit = [r for r in second["ok"] if r[0] == case["target"]]
                        sym.append([b, {"ok": hit[0][1]} if len(hit) == 1 else {"err": 97}])
                    else:
                        sym.append([b, second])
            return {"main": main, "sym": sym, "order": order}
        finally:
            shutil.rmtree(d, ignore_errors=True)

    def _intern(self, case):
        it = L.Interner()
        for v in case["variants"]:
            it(v["id"])
        for ln in case["lines"]:
            it(ln["id"])
        return it

    def encode(self, case, obs):
        it = self._intern(case)
        al = L.Interner()
        pr = lambda c: f"({L.z(c[0])}, {L.z(c[1])})"
        gv = lambda v: (f"(mkgv {it(v['id'])} {al(v['ref'])} {al(v['alt'])} {L.lst(v['calls'], pr)} {L.zl(v['unph'])})")
        hl = lambda ln: (f"(HL (mkhap {it(ln['id'])} {L.lst(ln['vars'], lambda x: f'({it(x[0])}, {al(x[1])})')}))"
                         if ln["t"] == "H" else f"(RL {it(ln['id'])})")
        keep = case["keep"] if case["keep"] is not None else [True] * case["n"]
        ids = L.opt(case["ids"], lambda l: L.zl([it(x) for x in l]))
        lines = case["lines"]
        if isinstance(obs, dict) and obs.get("order"):
            # a sorted, indexed .hap.gz was read: records in the order of that file
            byid = {ln["id"]: ln for ln in lines}
            od = obs["order"]
            lines = [dict(byid[i], vars=od["vars"].get(i, [])) if byid[i]["t"] == "H" else byid[i] for i in od["lines"]]
        if not isinstance(obs, dict) or "main" not in obs:
            main, sym = {"err": (obs or {}).get("kind", 99)}, []
        else:
            main, sym = obs["main"], obs["sym"] or []
        orow = lambda r: f"({it(r[0])}, {L.opt(r[1], L.z)})"
        mo = L.res(main, lambda rows: L.lst(rows, orow))
        so = L.lst(sym, lambda s: f"({it(s[0])}, {L.res(s[1], lambda v: L.opt(v, L.z))})")
        return (f"(mkl {it(case['target'])} {L.lst(case['variants'], gv)} {L.lst(lines, hl)} {L.bl(keep)} "
                f"{ids} {L.b(case['from_gts'])} {L.b(case['fmt'] == 'vcf')} {L.b(STRICT_EMPTY_HAPLOTYPE)} {mo} {so})")

    def nontrivial(self, case, obs):
        if case["kind"] not in ("wellformed", "exhaustive", "dup-ids", "family", "no-vlines", "partition", "width") or not isinstance(obs, dict) or "ok" not in obs.get("main", {}):
            return False
        return any(r[1] is not None and abs(r[1]) != 1000 for r in obs["main"]["ok"])

    def classes(self, case, obs):
        hap_ids = [l["id"] for l in case["lines"] if l["t"] == "H"]
        out = [case["kind"], f"target={'hap' if case['target'] in hap_ids else 'var'}",
               f"mode=fromgts:{int(case['from_gts'])},ids:{int(case['ids'] is not None)}", f"fmt={case['fmt']}",
               f"subset={int(case['keep'] is not None)}", f"via={case.get('via', 'api')}",
               f"hap={case.get('hapfmt', 'plain')}"]
        out.append(f"layout={case.get('layout', 'grouped')}")
        out.append(f"positions={case.get('posorder', 'sorted')}")
        ids_in_file_order = [v["id"] for v in case["variants"]] == sorted((v["id"] for v in case["variants"]), key=lambda x: (len(x), x))
        out.append(f"variant-ids-in-file-order={int(ids_in_file_order)}")
        hl = [l for l in case["lines"] if l["t"] == "H"]
        for o in sorted({vline_order(case, l) for l in hl}):
            out.append(f"vlines={o}")
        if any(mixes_alleles(case, l) for l in hl):
            out.append("hap-mixes-ref-alt")
        tl = [l for l in hl if l["id"] == case["target"]]
        if tl:
            out.append(f"target-vlines={vline_order(case, tl[0])}")
            if vline_order(case, tl[0]) in ("reversed", "shuffled") and mixes_alleles(case, tl[0]):
                out.append("target-vlines-out-of-order+mixed-alleles")
        # haplotypes without V lines
        emp = [k for k, l in enumerate(hl) if not l["vars"]]
        if emp:
            for k in emp:
                out.append("no-vlines-hap=" + ("only" if len(hl) == 1 else "first" if k == 0 else
                                               "last" if k == len(hl) - 1 else "middle"))
            if tl and not tl[0]["vars"]:
                out.append(f"no-vlines-hap-is-target,fromgts:{int(case['from_gts'])}")
            if isinstance(obs, dict) and "ok" in obs.get("main", {}) and not case["from_gts"]:
                listed = {r[0] for r in obs["main"]["ok"]}
                if any(hl[k]["id"] in listed for k in emp):
                    out.append("no-vlines-hap-is-listed")
                if any(hl[k]["id"] in listed and k < len(hl) - 1 and hl[k + 1]["id"] in listed and hl[k + 1]["vars"]
                       for k in emp):
                    out.append("no-vlines-hap-listed-before-another")
        # the request Haplotypes.transform makes to Genotypes.subset()
        pl = listed_pairs_vs_loaded(case)
        if pl is not None and pl[0] >= 2:
            if pl[0] == pl[1]:
                out.append("listed-pairs=loaded-records," + ("order-differs" if pl[2] else "file-order"))
            else:
                out.append("listed-pairs<>loaded-records")
        if case["n"] >= 100:
            out.append(f"samples={case['n']}")
        if isinstance(obs, dict) and obs.get("sym"):
            out.append(f"swapped-runs={min(len(obs['sym']), 4)}{'+' if len(obs['sym']) > 4 else ''}")
        if case.get("chunk"):
            out.append("pgen-chunked")
        if any(l["t"] == "R" for l in case["lines"]):
            out.append("with-repeats")
        if isinstance(obs, dict) and "main" in obs:
            m = obs["main"]
            if "ok" in m:
                if any(r[1] is None for r in m["ok"]):
                    out.append("has-nan")
                if any(r[1] is not None and abs(r[1]) == 1000 for r in m["ok"]):
                    out.append("has-r=+-1")
                if not m["ok"]:
                    out.append("empty-listing")
            else:
                out.append(f"err:{m.get('cls', m['err'])}")
        return out

    def shrink(self, case):
        used = {case["target"]} | {x[0] for l in case["lines"] if l["t"] == "H" for x in l["vars"]} | set(case["ids"] or [])
        for j, v in enumerate(case["variants"]):
            if v["id"] not in used:
                yield dict(case, variants=case["variants"][:j] + case["variants"][j + 1:])
        for j, ln in enumerate(case["lines"]):
            if ln["id"] != case["target"] and ln["id"] not in (case["ids"] or []):
                yield dict(case, lines=case["lines"][:j] + case["lines"][j + 1:])
        # is it about the order / layout of the V lines, the positions, the names?
        if case.get("layout", "grouped") != "grouped":
            yield dict(case, layout="grouped")
        rk = _file_rank(case)
        for j, ln in enumerate(case["lines"]):
            if ln["t"] == "H":
                sv = sorted(ln["vars"], key=lambda x: rk.get(x[0], -1))
                if sv != ln["vars"]:
                    yield dict(case, lines=case["lines"][:j] + [dict(ln, vars=sv)] + case["lines"][j + 1:])
                if len(ln["vars"]) > 1:
                    for k in range(len(ln["vars"])):
                        yield dict(case, lines=case["lines"][:j] + [dict(ln, vars=ln["vars"][:k] + ln["vars"][k + 1:])]
                                   + case["lines"][j + 1:])
        if case.get("hapfmt") == "gz":
            yield dict(case, hapfmt="plain")
        if case.get("via") == "cli":
            yield dict(case, via="api")
        if case.get("chunk"):
            yield dict(case, chunk=None)
        if case["ids"] and len(case["ids"]) > 1:
            for j in range(len(case["ids"])):
                yield dict(case, ids=case["ids"][:j] + case["ids"][j + 1:])
        if case["keep"] is not None:
            yield dict(case, keep=None)
        if case["fmt"] == "pgen":
            yield dict(case, fmt="vcf")
        if case["n"] > 2:
            for s in range(case["n"]):
                vs = [dict(v, calls=v["calls"][:s] + v["calls"][s + 1:],
                           unph=[u - (u > s) for u in v["unph"] if u != s]) for v in case["variants"]]
                keep = None if case["keep"] is None else case["keep"][:s] + case["keep"][s + 1:]
                if keep is None or any(keep):
                    yield dict(case, n=case["n"] - 1, variants=vs, keep=keep)

    def mutate(self, case, rng):
        hap_ids = [l["id"] for l in case["lines"] if l["t"] == "H"]
        var_ids = [v["id"] for v in case["variants"]]
        for t in hap_ids + var_ids:
            for fg in (False, True):
                yield dict(case, target=t, from_gts=fg, ids=None)
                uni = var_ids if fg else hap_ids
                yield dict(case, target=t, from_gts=fg, ids=uni[: max(1, len(uni) // 2)])
        # one haplotype at a time without V lines, every haplotype / the first variant as the target
        for j, ln in enumerate(case["lines"]):
            if ln["t"] == "H" and ln["vars"]:
                lines = case["lines"][:j] + [dict(ln, vars=[])] + case["lines"][j + 1:]
                for t in hap_ids + var_ids[:1]:
                    for fg in (False, True):
                        yield dict(case, lines=lines, target=t, from_gts=fg, ids=None)
        # the V lines of every haplotype in another order / layout
        for how in ("reversed", "shuffled"):
            lines = []
            for ln in case["lines"]:
                if ln["t"] == "H":
                    vs = list(ln["vars"])[::-1] if how == "reversed" else [ln["vars"][k] for k in rng.permutation(len(ln["vars"]))]
                    ln = dict(ln, vars=vs)
                lines.append(ln)
            for lay in ("grouped", "interleaved"):
                for t in hap_ids:
                    yield dict(case, lines=lines, layout=lay, target=t, from_gts=bool(rng.random() < 0.5), ids=None)

    def signature(self, case, obs):
        hap_ids = [l["id"] for l in case["lines"] if l["t"] == "H"]
        var_ids = [v["id"] for v in case["variants"]]
        kind = "haplotype" if case["target"] in hap_ids else "variant" if case["target"] in var_ids else "absent"
        novl = {l["id"] for l in case["lines"] if l["t"] == "H" and not l["vars"]}
        if case["target"] in novl:
            kind = "variant-less haplotype"
        if isinstance(obs, dict) and "main" in obs:
            m, s = obs["main"], obs["sym"]
            if "err" in m:
                return f"calc_ld raises {m.get('cls')} for a {kind} target with from_gts={case['from_gts']}"
            rows = [r[0] for r in m.get("ok", [])]
            if len(set(rows)) < len(rows):
                return f"calc_ld lists an item twice (--id repeated) for a {kind} target with from_gts={case['from_gts']}"
            for s1 in s or []:
                if s1[0] in novl and not STRICT_EMPTY_HAPLOTYPE and s1[1].get("err") == 1:
                    continue     # the known behaviour of the tree before fixes/C16_empty_haplotype.patch (modelled)
                if "err" in s1[1] and s1[1]["err"] != 97:
                    return (f"calc_ld raises {s1[1].get('cls')} for a "
                            f"{'variant-less haplotype' if s1[0] in novl else 'haplotype' if s1[0] in hap_ids else 'variant'}"
                            f" target with from_gts={case['target'] not in hap_ids}")
        return f"calc_ld listing or R wrong for a {kind} target with from_gts={case['from_gts']}"


RELATIONS = [LD()]

LEVEL_TEXT = (
    "Coq theorems over all dosage vectors (Pearson statistic over exact rationals: symmetry, NaN iff constant, "
    "Cauchy-Schwarz r^2 <= 1) and over all genotype matrices / .hap sets / targets / modes for a Gallina model of "
    "calc_ld (what is listed, that no mode raises, that every R is the correlation of the two dosages, that "
    "R(A->B) = R(B->A) across any two runs, that a haplotype's dosage counts the strands carrying all of its alleles "
    "and that neither it nor anything calc_ld reports depends on the order of the haplotype's V lines, that every R "
    "involving a haplotype without V lines is NaN, that the dictionary / subset() / positional-index mechanism of "
    "Haplotypes.transform computes exactly that strand count); the model is "
    "tied to /repo on every run by evaluating inside Coq, on generated inputs in all four modes for both genotype "
    "formats (V lines in any order and layout, every listed item swapped with the target in a further run), "
    "model-vs-implementation agreement and the property's finite checker (each printed R against the exact "
    "correlation of the dosages, listing, symmetry for every listed item)."
)
LEVEL_NOTE = (
    "Partial: the floating-point evaluation of numpy.corrcoef and the '.3f' printing are not verified; each printed R "
    "is compared with the exact rational correlation by rational inequalities (|printed - r| <= 0.0005 + 1e-9). "
    "Region subsetting and --discard-missing are not modelled (never used by the generated runs)."
)
TECHNIQUE = "Coq proofs over Z/Q (Cauchy-Schwarz, list reasoning) + vm_compute-evaluated correspondence against calc_ld"
