"""C17 - clump output is exactly greedy LD clumping and always terminates.

Relations
  clump     : haptools.clump.clumpstr end to end, called directly or through the `haptools clump` command (SNP-only /
              STR-only / mixed, VCF.gz or PGEN SNPs, HipSTR-style STR VCF.gz or PGEN, Pearson / Exact) on generated
              summary-statistic tables: ties, p in {0, 1}, p around both
              thresholds, p1 > 1, several chromosomes, permuted / renamed / extra columns, '#' header, blank line,
              constant and missing genotype columns, duplicate variant IDs (about a quarter of the well-formed cases:
              '.' placeholders, one ID on two chromosomes / at two positions / shared by a SNP and an STR row; both LD
              modes).  --clump-kb: whole and fractional
              radii (k/1000 for integer k, radii whose size in bp is not a whole number, float64 neighbours of
              k/1000, radii whose float64 product with 1000 lies one ulp below / above an integer, 1 bp, 0, negative,
              100 Mb) with variants in LD with the index at floor(kb*1000)-1, floor, ceil, ceil+1 bp on both sides.
              The window is modelled in the code's float64 arithmetic (agree) and demanded as the rational test
              |dpos|/1000 < kb (holds).  All six columns of every row and the text of every member are compared.
              A hang is reported by the runner as a timeout (Err 12).  Malformed stream: missing header field,
              short row, unparsable number, variant without / with two genotype records, SNP file with a missing
              call.
  computeld : haptools.clump.ComputeLD called directly on (samples x 2) allele arrays with missing values,
              both LD types; Pearson within 1e-9 of the exact rational r^2, Exact in [0,1] and within 1e-6 of the
              haplotype-table r^2 when no sample is doubly heterozygous; every number the cubic solver presents
              as a real root is a root of the model's cubic.
"""
import itertools
import math
import os
import shutil
import tempfile
from decimal import Decimal
from fractions import Fraction

import numpy as np

from . import coqlit as L
from .c16 import gt_string, write_pgen, write_vcf
from .core import Relation, err_kind

PROP = "C17"
CLAIMED = True
COQ_MODULES = ["PearsonQ", "Stats", "C17_Model", "C17_Check", "C17_Proofs", "C17_ProofsExact"]
PROPERTY_MODULE = "C17_Property"
ALLOWED_AXIOMS = []
# Translation validation (harness/README.md): the pure-Python kernel of clumping is regenerated from the current source
# on every run and proved equal to the hand-written model (coq/translated/TV_C17.v).
TRANSLATION = {
    "spec": {
        "module": "Gen_Clump",
        # abs(dpos) / 1000: the float64 quotient is the Section variable fdiv of the generated module
        "float_div": True,
        "classes": [("haptools/clump.py", "Variant", 1)],
        # SummaryStats objects: only self.summstats is modelled (self.log is never used by the translated methods)
        "state_classes": [("haptools/clump.py", "SummaryStats", 2, ["summstats"])],
        # not translated: arbitrary functions of their argument values (Section variables ext_*)
        "externals": [("haptools/clump.py", "LoadVariant"), ("haptools/clump.py", "ComputeLD")],
        # WriteClump(indexvar, clumpvars, outf) = append (indexvar, clumpvars) to the list "$out"
        "outputs": {"WriteClump": {"stream": "$out", "args": [0, 1]}},
        "ignore_calls": ["log.debug"],
        "functions": [
            ("haptools/clump.py", "SummaryStats.GetNextIndexVariant"),
            ("haptools/clump.py", "SummaryStats.QueryWindow"),
            ("haptools/clump.py", "SummaryStats.RemoveClump"),
            # `indexvar = summstats.GetNextIndexVariant(clump_p1)` + `while indexvar is not None: ...` of clumpstr
            ("haptools/clump.py", "clumpstr", {
                "name": "_clump_loop", "while_var": "indexvar",
                "params": ["summstats", "clump_p1", "clump_kb", "clump_r2", "gts", "LD_type", "log"],
                "objects": {"summstats": "SummaryStats"}}),
            # the whole body of GetOverlappingSamples (two _SortSamples calls, the merge walk, the return statement);
            # snpgts.samples / strgts.samples are read-only parameters, _SortSamples an untranslated function declared in a
            # late section (the four functions above keep their text and arity)
            ("haptools/clump.py", "GetOverlappingSamples", {
                "name": "_overlap_walk", "top": True,
                "start": {"assign": "snp_match_inds"}, "stop": {"through_return": True},
                "params": ["snpgts_samples", "strgts_samples"], "result": None,
                "obj_attrs": {"snpgts": {"samples": "snpgts_samples"}, "strgts": {"samples": "strgts_samples"}},
                "late_externals": [("haptools/clump.py", "_SortSamples")]}),
        ],
    },
    "models": ["TVM_C17", "TVM_C17O"],
    # TV_C17: the three methods and the loop; TV_C17_Str: clumpstr with the translated loop = the model's clumpstr;
    # TV_C17O: GetOverlappingSamples = the model's overlapping
    "proofs": ["TV_C17", "TV_C17_Str", "TV_C17O"],
}
RULE = (
    "clump: 1-3 chromosomes, 0-8 SNPs and 0-5 STRs placed either on a grid of multiples of floor/ceil(kb*1000) (+-1) or "
    "around one anchor per chromosome at +-{floor-1, floor, ceil, ceil+1} bp (mostly in LD with the anchor), kb whole / "
    "fractional / float64-boundary / tiny / large, p-values from a "
    "pool with ties / 0 / 1 / values on both thresholds, 3-12 samples, repeated IDs in ~25% of the well-formed cases. Non-trivial = a well-formed case producing at "
    "least two clumps or a clump with a member other than its index. computeld: non-trivial = at least 3 samples "
    "left after the missing-call filter and both dosage vectors non-constant. Distinct = distinct canonical JSON."
)
TRUSTED = [
    "numpy.corrcoef's floating-point r^2 is compared with the exact rational r^2 within 1e-9; inputs whose exact "
    "r^2 is within 1e-9 of the --clump-r2 threshold are not generated",
    "ComputeExactLD's floating-point cubic solver is not verified (numeric comparison only)",
    "Python float()/int() parsing of table cells is supplied by the harness per cell; TRTools' allele-length "
    "harmonisation and cyvcf2/pgenlib reading are library contracts exercised on every run",
    "strings are interned to integers by the harness (sample names order-preservingly)",
]
ASSUMPTIONS = [
    "a variant is a row of a summary-statistics table (CHROM, POS), not its ID: the model removes clumped rows by load "
    "key, as the code compares Variant objects by identity, and holds_clump resolves every printed variant to a row by "
    "(ID, CHROM, POS) - rows that agree on the three cannot be told apart in the .clump file and the checker is stated "
    "modulo that (C17_greedy_okb_sound: the file is the printed form of SOME greedy clumping of the rows); "
    "clumps_disjoint_ids alone assumes distinct IDs",
    "index eligibility is p < p1 and p < 1 (DESIGN.md section 10); for p1 > 1 holds demands p < p1 of an index and p < 1 "
    "only of what may be left at the end",
    "positions differ by less than 2^53 (float(|dpos|)/1000.0 is then Python's correctly rounded int/int quotient)",
]

HIPSTR_HDR = (
    "##command=HipSTR-v0.7 --test\n"
    '##INFO=<ID=START,Number=1,Type=Integer,Description="start">\n'
    '##INFO=<ID=END,Number=1,Type=Integer,Description="end">\n'
    '##INFO=<ID=PERIOD,Number=1,Type=Integer,Description="period">\n'
)
P_POOL = ["0", "1e-300", "1e-10", "0.00005", "0.0001", "0.0001", "0.00011", "0.001", "0.001", "0.005", "0.01", "0.01",
          "0.011", "0.05", "0.5", "0.99", "1", "1.0", "2e-5", "3.5e-4", "1.2"]
P1_POOL = ["0.0001", "0.001", "0.01", "0.01", "0.05", "0.05", "0.5", "0.5", "1", "1", "1.5", "2"]
P2_POOL = ["0.01", "0.05", "1", "0.001", "0.5", "1.5"]
KB_POOL = ["0.05", "0.05", "0.1", "0.1", "0.25", "0.25", "1", "1", "2.5", "2.5", "250", "250", "0", "0.3", "0.7", "0.057"]
# k such that the float64 product (k/1000)*1000 lands one ulp below / above k (int(kb*1000) would be k-1 / a
# comparison in bp with the product would be off): 2.01 -> 2009.9999999999998, 1.001 -> 1000.9999999999999
K_PROD_BELOW = [k for k in range(1, 6000) if (k / 1000) * 1000 < k]
K_PROD_ABOVE = [k for k in range(1, 6000) if (k / 1000) * 1000 > k]


def gen_kb(rng):
    """(--clump-kb as the decimal typed, class label)"""
    r = rng.random()
    if r < 0.20:
        return str(rng.choice(KB_POOL)), "kb:pool"
    if r < 0.36:
        return repr(int(rng.integers(1, 5000)) / 1000), "kb:k/1000"
    if r < 0.50:
        lst, tag = (K_PROD_BELOW, "below") if rng.random() < 0.6 or not K_PROD_ABOVE else (K_PROD_ABOVE, "above")
        return repr(int(lst[int(rng.integers(0, len(lst)))]) / 1000), f"kb:k/1000,float-product-{tag}-k"
    if r < 0.66:
        k = int(rng.integers(0, 3000))
        frac = str(rng.choice(["5", "25", "1", "9", "001", "999", "0000001", "49"]))
        return str(Decimal(f"{k}.{frac}") / 1000), "kb:non-integral-bp"
    if r < 0.80:
        x = int(rng.integers(1, 5000)) / 1000
        for _ in range(int(rng.integers(1, 3))):
            x = math.nextafter(x, math.inf if rng.random() < 0.5 else -math.inf)
        return repr(x), "kb:float64-neighbour-of-k/1000"
    if r < 0.88:
        return str(rng.choice(["0.001", "0.0005", "0.0001", "0.002", "1e-9", "0.0015"])), "kb:tiny"
    if r < 0.95:
        return str(rng.choice(["1000", "10000", "99999.9995", "100000"])), "kb:large"
    return str(rng.choice(["0", "-1", "-0.001"])), "kb:nonpositive"


def kb_bounds(kb):
    """floor and ceil of the window radius in bp (of the decimal typed; never negative)"""
    bp = Fraction(kb) * 1000
    return max(0, math.floor(bp)), max(0, math.ceil(bp))
R2_POOL = ["0.5", "0.2", "0.8", "0", "0.99", "0.01", "-0.1", "0.3"]
FIELDS = [{"id": "SNP", "p": "P", "chrom": "CHR", "pos": "POS"},
          {"id": "ID", "p": "p-value", "chrom": "CHROM", "pos": "position"},
          {"id": "ID", "p": "P", "chrom": "CHROM", "pos": "POS"}]
EXTRA_COLS = ["REF", "ALT", "A1", "TEST", "OBS_CT", "BETA", "SE", "T_STAT", "ERRCODE"]


def str_values(v):
    """copy numbers as GenotypesTR loads them: per sample (a, b), 255 = missing"""
    copies = [v["ref_n"]] + list(v["alt_ns"])
    f = lambda x: 255 if x >= 254 else copies[x]
    return [[f(a), f(b)] for a, b in v["calls"]]


def exact_r2(c1, c2):
    """Pearson r^2 over samples valid in both, as Fraction; None = NaN; 0 if no sample is left"""
    pairs = [(a[0] + a[1], b[0] + b[1]) for a, b in zip(c1, c2) if max(a) < 254 and max(b) < 254]
    n = len(pairs)
    if n == 0:
        return Fraction(0)
    sx = sum(p[0] for p in pairs); sy = sum(p[1] for p in pairs)
    vx = n * sum(p[0] ** 2 for p in pairs) - sx * sx
    vy = n * sum(p[1] ** 2 for p in pairs) - sy * sy
    cv = n * sum(p[0] * p[1] for p in pairs) - sx * sy
    if vx == 0 or vy == 0:
        return None
    return Fraction(cv * cv, vx * vy)


def _snp_col(rng, n, cols):
    r = rng.random()
    if r < 0.12:
        v = int(rng.integers(0, 2))
        return [[v, v] for _ in range(n)]
    if r < 0.27 and cols:
        return [list(c) for c in cols[int(rng.integers(0, len(cols)))]]
    if r < 0.35 and cols:
        return [[1 - c[0], 1 - c[1]] for c in cols[int(rng.integers(0, len(cols)))]]
    if r < 0.55 and cols:
        base = cols[int(rng.integers(0, len(cols)))]
        return [[c[0] ^ int(rng.random() < 0.15), c[1] ^ int(rng.random() < 0.15)] for c in base]
    f = float(rng.choice([0.2, 0.5, 0.8]))
    return [[int(rng.random() < f), int(rng.random() < f)] for _ in range(n)]


def gen_clump(rng):
    kb, kbclass = gen_kb(rng)
    lo, hi = kb_bounds(kb)
    star = rng.random() < 0.6  # one anchor per chromosome, the others at the window boundary around it
    chroms = [str(c) for c in rng.choice(["1", "2", "X", "chr7"], size=int(rng.integers(1, 4)), replace=False)]
    mode = str(rng.choice(["snp", "snp", "str", "mixed", "mixed"]))
    ns = int(rng.integers(1, 9)) if mode != "str" else 0
    nt = int(rng.integers(1, 6)) if mode != "snp" else 0
    ld = "Exact" if (mode == "snp" and rng.random() < 0.3) else "Pearson"
    # positions.  grid: per chromosome around multiples of floor / ceil of the window in bp, so that |dpos| hits the
    # boundary exactly / +-1.  star: the first variant of a chromosome is its anchor, the others lie at
    # anchor +- {floor-1, floor, ceil, ceil+1} bp (and a few positions well inside / outside)
    used = set()
    anchor = {}

    def new_pos(c):
        if star:
            if c not in anchor:
                anchor[c] = hi + 2 + int(rng.integers(0, 40))
                used.add((c, anchor[c]))
                return anchor[c]
            offs = [lo - 1, lo, hi, hi + 1, lo - 1, lo, hi, hi + 1, 1, max(1, lo // 2), 2 * hi + 1, lo + hi]
            for _ in range(60):
                d = int(offs[int(rng.integers(0, len(offs)))]) * (1 if rng.random() < 0.5 else -1)
                base = anchor[c] + d
                if d != 0 and base > 0 and (c, base) not in used:
                    used.add((c, base))
                    return base
        step = hi if rng.random() < 0.5 else lo
        for _ in range(200):
            base = 1000 + step * int(rng.integers(0, 4)) + int(rng.choice([-1, 0, 0, 1, 2, int(rng.integers(0, max(step, 2)))]))
            if base > 0 and (c, base) not in used:
                used.add((c, base))
                return base
        while True:
            base = int(rng.integers(900, 1200))
            if (c, base) not in used:
                used.add((c, base))
                return base

    n = int(rng.integers(3, 13))
    names = [f"s{int(x):02d}" for x in rng.permutation(40)[: n + 4]]
    snp_samples = names[:n]
    snp = strs = None
    if ns:
        cols = []
        vars_ = []
        acol = {}  # star layout: the anchor's genotypes, copied by most variants of its chromosome (r2 = 1)
        for j in range(ns):
            c = str(rng.choice(chroms))
            if star and c in acol and rng.random() < 0.7:
                cols.append([list(x) for x in acol[c]] if rng.random() < 0.8 else [[1 - x[0], 1 - x[1]] for x in acol[c]])
            else:
                cols.append(_snp_col(rng, n, cols))
            if star and c not in acol:
                if len({x[0] + x[1] for x in cols[-1]}) == 1:
                    cols[-1][0] = [1 - cols[-1][0][0], cols[-1][0][1]]  # the anchor is not constant
                acol[c] = cols[-1]
            ref, alt = rng.choice(list("ACGT"), size=2, replace=False).tolist()
            vars_.append({"id": f"snp{j}", "chrom": c, "pos": new_pos(c), "ref": ref, "alt": alt, "calls": cols[-1]})
        anchors = {(c, p) for c, p in anchor.items()}
        vars_.sort(key=lambda v: (chroms.index(v["chrom"]), v["pos"]))
        snp = {"samples": snp_samples, "vars": vars_, "fmt": "pgen" if rng.random() < 0.3 else "vcf"}
    if nt:
        if mode == "mixed":
            k = int(rng.integers(max(1, n - 3), n + 1))
            shared = [snp_samples[i] for i in sorted(rng.choice(n, size=k, replace=False).tolist())]
            str_samples = [str(x) for x in rng.permutation(shared + names[n:n + int(rng.integers(0, 3))])]
        else:
            str_samples = snp_samples
        m = len(str_samples)
        vars_ = []
        for j in range(nt):
            c = str(rng.choice(chroms))
            motif = str(rng.choice(["A", "AC", "GT", "T"]))
            ref_n = int(rng.integers(2, 8))
            alt_ns = sorted(set(int(x) for x in rng.integers(1, 12, size=int(rng.integers(1, 4)))) - {ref_n}) or [ref_n + 1]
            if rng.random() < 0.04:
                # width boundary: copy numbers around 127|128 (uint8 genotype arrays; dosage sums around 255|256)
                ref_n = int(rng.choice([126, 127, 128]))
                alt_ns = sorted({ref_n + int(d) for d in rng.choice([-2, -1, 1, 2], size=2)})
            r = rng.random()
            if r < 0.15:
                calls = [[0, 0] for _ in range(m)]
            else:
                calls = [[int(rng.integers(0, len(alt_ns) + 1)), int(rng.integers(0, len(alt_ns) + 1))] for _ in range(m)]
            if rng.random() < 0.5:
                for s in range(m):
                    q = rng.random()
                    if q < 0.12:
                        calls[s] = [255, 255]
                    elif q < 0.16:
                        calls[s][1] = 255
            if rng.random() < 0.05:
                calls = [[255, 255] for _ in range(m)]
            elif star and snp and rng.random() < 0.6:
                # in LD with the SNP anchor of the chromosome: allele index = the anchor's allele (shared samples)
                a = next((v for v in snp["vars"] if (v["chrom"], v["pos"]) in anchors and v["chrom"] == c), None)
                if a is not None:
                    calls = [list(a["calls"][snp_samples.index(x)]) if x in snp_samples else calls[i]
                             for i, x in enumerate(str_samples)]
            elif star and vars_ and rng.random() < 0.6:
                calls = [[min(x, len(alt_ns)) if x < 254 else x for x in g] for g in vars_[0]["calls"]]
            vars_.append({"id": f"str{j}", "chrom": c, "pos": new_pos(c), "motif": motif, "ref_n": ref_n,
                          "alt_ns": alt_ns, "calls": calls})
        vars_.sort(key=lambda v: (chroms.index(v["chrom"]), v["pos"]))
        strs = {"samples": str_samples, "vars": vars_, "fmt": "pgen" if rng.random() < 0.25 else "vcf"}
        if strs["fmt"] == "pgen":
            for v in vars_:  # a PGEN call is missing as a whole
                v["calls"] = [[255, 255] if max(c) >= 254 else c for c in v["calls"]]
    fields = dict(FIELDS[int(rng.integers(0, len(FIELDS)))])

    def table(vars_):
        extra = [str(x) for x in rng.choice(EXTRA_COLS, size=int(rng.integers(0, 4)), replace=False)]
        header = [str(x) for x in rng.permutation([fields["id"], fields["p"], fields["chrom"], fields["pos"]] + extra)]
        rows = []
        for v in [vars_[i] for i in rng.permutation(len(vars_))] if rng.random() < 0.5 else vars_:
            pv = str(rng.choice(P_POOL))
            if star and anchor.get(v["chrom"]) == v["pos"] and rng.random() < 0.7:
                pv = str(rng.choice(["0", "1e-300", "1e-10"]))  # the anchor is (one of) the first index variants
            val = {fields["id"]: v["id"], fields["p"]: pv, fields["chrom"]: v["chrom"],
                   fields["pos"]: str(v["pos"])}
            rows.append([val.get(h, str(rng.choice(["ADD", ".", "2504", "-0.43", "G"]))) for h in header])
        return {"header": header, "hash": bool(rng.random() < 0.5), "rows": rows}

    cfg = {"snp": snp, "str": strs, "stats_snp": table(snp["vars"]) if snp else None,
           "stats_str": table(strs["vars"]) if strs else None, "fields": fields,
           "p1": str(rng.choice(P1_POOL)), "p2": str(rng.choice(P2_POOL)), "kb": kb, "r2": str(rng.choice(R2_POOL)),
           "ld": ld, "kind": "wellformed", "via": "cli" if rng.random() < 0.2 and not kb.startswith("-") else "api",
           "kbclass": kbclass, "layout": "star" if star else "grid"}
    if strs and any(all(max(c) >= 254 for c in v["calls"]) for v in strs["vars"]) and rng.random() < 0.6:
        cfg["r2"] = "0"  # no valid sample: ComputeLD returns exactly 0, which does not exceed a threshold of 0
    # malformed / special streams
    r = rng.random()
    tabs = [t for t in (cfg["stats_snp"], cfg["stats_str"]) if t]
    t = tabs[int(rng.integers(0, len(tabs)))]
    if r < 0.03:
        f = str(rng.choice(list(fields.values())))
        t["header"] = ["zz" if h == f else h for h in t["header"]]
        cfg["kind"] = "missing-header-field"
    elif r < 0.06 and t["rows"]:
        row = t["rows"][int(rng.integers(0, len(t["rows"])))]
        del row[int(rng.integers(1, len(row))):]
        cfg["kind"] = "short-row"
    elif r < 0.09 and t["rows"]:
        row = t["rows"][int(rng.integers(0, len(t["rows"])))]
        row[t["header"].index(fields[str(rng.choice(["p", "pos"]))])] = str(rng.choice(["NA", "1.5x", "."]))
        cfg["kind"] = "unparsable-number"
    elif r < 0.12 and t["rows"]:
        row = t["rows"][int(rng.integers(0, len(t["rows"])))]
        row[t["header"].index(fields["pos"])] = "77"
        cfg["kind"] = "no-genotype-record"
    elif r < 0.15 and snp:
        v = snp["vars"][int(rng.integers(0, len(snp["vars"])))]
        v["calls"][int(rng.integers(0, n))] = [255, 255]
        snp["fmt"] = "vcf"
        cfg["kind"] = "snp-missing-call"
    elif r < 0.18 and snp and strs:
        a, b = snp["vars"][0], strs["vars"][0]
        b["chrom"], b["pos"] = a["chrom"], a["pos"]
        strs["vars"].sort(key=lambda v: (chroms.index(v["chrom"]), v["pos"]))
        for row in cfg["stats_str"]["rows"]:
            h = cfg["stats_str"]["header"]
            if row[h.index(fields["id"])] == b["id"]:
                row[h.index(fields["chrom"])], row[h.index(fields["pos"])] = a["chrom"], str(a["pos"])
        cfg["kind"] = "two-records-one-position"
    elif r < 0.22 and len(t["rows"]) > 1:
        t["rows"].insert(int(rng.integers(1, len(t["rows"]))), [])
        cfg["kind"] = "blank-line"
    if cfg["kind"] in ("wellformed", "blank-line") and rng.random() < 0.3:
        _duplicate_ids(cfg, rng)
    _avoid_threshold(cfg)
    return cfg


def _duplicate_ids(cfg, rng):
    """Rows that carry one ID remain several variants (a Variant is a row: CHROM/POS, not its ID): placeholder IDs
    '.', the same ID on two chromosomes, at two positions of one chromosome, shared by a SNP row and an STR row.
    Half of the time the rows concerned get small p-values (each is then an index or a member somewhere)."""
    f = cfg["fields"]
    cells = []
    for key in ("stats_snp", "stats_str"):
        t = cfg[key]
        if not t:
            continue
        h = t["header"]
        ic, ich, ip = h.index(f["id"]), h.index(f["chrom"]), h.index(f["p"])
        for row in t["rows"]:
            if len(row) == len(h):
                cells.append((key, row, ic, ich, ip))
    if len(cells) < 2:
        return
    want = str(rng.choice(["dot", "two-chroms", "two-positions", "snp-str", "dot", "two-chroms"]))
    order = [cells[i] for i in rng.permutation(len(cells))]
    pick = None
    if want == "two-chroms":
        pick = next(([a, b] for a in order for b in order if a is not b and a[1][a[3]] != b[1][b[3]]), None)
    elif want == "two-positions":
        pick = next(([a, b] for a in order for b in order if a is not b and a[1][a[3]] == b[1][b[3]]), None)
    elif want == "snp-str":
        pick = next(([a, b] for a in order for b in order if a[0] != b[0]), None)
    if want == "dot" or pick is None:
        if pick is None and want != "dot":
            want = "any-two"
        k = int(rng.integers(2, min(4, len(order)) + 1)) if want == "dot" else 2
        pick = order[:k]
    name = "." if want == "dot" else pick[0][1][pick[0][2]]
    low = rng.random() < 0.5
    for _, row, ic, _, ip in pick:
        row[ic] = name
        if low:
            row[ip] = str(rng.choice(["0", "1e-300", "1e-10", "2e-5", "0.00005"]))
    cfg["dup"] = want


def _loaded_calls(cfg):
    out = {}
    if cfg["snp"]:
        for v in cfg["snp"]["vars"]:
            out[v["id"]] = (cfg["snp"]["samples"], v["calls"])
    if cfg["str"]:
        for v in cfg["str"]["vars"]:
            out[v["id"]] = (cfg["str"]["samples"], str_values(v))
    return out


def _avoid_threshold(cfg):
    """move --clump-r2 away from every exact pairwise r^2 (float vs exact comparison could differ)"""
    if cfg["ld"] != "Pearson":
        return
    calls = _loaded_calls(cfg)
    shared = None
    for s, _ in calls.values():
        shared = set(s) if shared is None else shared & set(s)
    shared = sorted(shared or [])
    al = {k: [c[s.index(x)] for x in shared] for k, (s, c) in calls.items()}
    vals = set()
    for a, b in itertools.combinations_with_replacement(sorted(al), 2):
        if not any(max(x) < 254 and max(y) < 254 for x, y in zip(al[a], al[b])):
            continue  # no sample left: ComputeLD returns the integer 0, compared exactly
        v = exact_r2(al[a], al[b])
        if v is not None:
            vals.add(v)
    thr = Fraction(cfg["r2"])
    k = 0
    while any(abs(v - thr) < Fraction(1, 10**8) for v in vals):
        k += 1
        thr = Fraction(cfg["r2"]) + Fraction(k, 1000)
    if k:
        cfg["r2"] = str(float(thr)) if thr.denominator in (1, 2, 4, 5, 8, 10) else f"{float(thr):.3f}"
        assert Fraction(cfg["r2"]) == thr, (cfg["r2"], thr)


def write_pgen_tr(base, samples, vars_):
    """STR genotypes as PLINK2 files written with pgenlib directly (GenotypesPLINKTR cannot write);
    the .pvar carries the HipSTR-style header and INFO fields TRTools needs"""
    import pgenlib

    with open(base + ".psam", "w") as f:
        f.write("#IID\n" + "\n".join(samples) + "\n")
    with open(base + ".pvar", "w") as f:
        f.write("##fileformat=VCFv4.2\n" + HIPSTR_HDR)
        for c in dict.fromkeys(v["chrom"] for v in vars_):
            f.write(f"##contig=<ID={c}>\n")
        f.write("#CHROM\tPOS\tID\tREF\tALT\tQUAL\tFILTER\tINFO\n")
        for v in vars_:
            per = len(v["motif"])
            f.write(f"{v['chrom']}\t{v['pos']}\t{v['id']}\t{v['motif'] * v['ref_n']}\t"
                    + ",".join(v["motif"] * k for k in v["alt_ns"])
                    + f"\t.\t.\tSTART={v['pos']};END={v['pos'] + per * v['ref_n'] - 1};PERIOD={per}\n")
    maxa = max(len(v["alt_ns"]) + 1 for v in vars_)
    with pgenlib.PgenWriter(filename=bytes(base + ".pgen", "utf8"), sample_ct=len(samples), variant_ct=len(vars_),
                            allele_ct_limit=maxa, nonref_flags=False, hardcall_phase_present=True) as w:
        for v in vars_:
            arr = np.array([(-9 if x >= 254 else x) for g in v["calls"] for x in g], dtype=np.int32)
            w.append_alleles(arr, all_phased=True, allele_ct=len(v["alt_ns"]) + 1)
    return base + ".pgen"


def _write_inputs(cfg, d):
    paths = {"gts_snps": None, "gts_strs": None, "summstats_snps": None, "summstats_strs": None}
    if cfg["snp"]:
        s = cfg["snp"]
        if s["fmt"] == "pgen":
            paths["gts_snps"] = write_pgen(os.path.join(d, "snps.pgen"), s["samples"],
                                           [(v["id"], v["chrom"], v["pos"], v["ref"], v["alt"]) for v in s["vars"]],
                                           [v["calls"] for v in s["vars"]])
        else:
            recs = [(v["chrom"], v["pos"], v["id"], v["ref"], v["alt"], ".", [gt_string(a, b) for a, b in v["calls"]])
                    for v in s["vars"]]
            paths["gts_snps"] = write_vcf(os.path.join(d, "snps.vcf"), s["samples"], recs,
                                          contigs=list(dict.fromkeys(v["chrom"] for v in s["vars"])))
    if cfg["str"]:
        s = cfg["str"]
        recs = []
        for v in s["vars"]:
            per = len(v["motif"])
            recs.append((v["chrom"], v["pos"], v["id"], v["motif"] * v["ref_n"],
                         ",".join(v["motif"] * k for k in v["alt_ns"]),
                         f"START={v['pos']};END={v['pos'] + per * v['ref_n'] - 1};PERIOD={per}",
                         [gt_string(a, b) for a, b in v["calls"]]))
        if s.get("fmt") == "pgen":
            paths["gts_strs"] = write_pgen_tr(os.path.join(d, "strs"), s["samples"], s["vars"])
        else:
            paths["gts_strs"] = write_vcf(os.path.join(d, "strs.vcf"), s["samples"], recs, header_extra=HIPSTR_HDR,
                                          contigs=list(dict.fromkeys(v["chrom"] for v in s["vars"])))
    for key, tab in (("summstats_snps", cfg["stats_snp"]), ("summstats_strs", cfg["stats_str"])):
        if tab:
            p = os.path.join(d, key + ".linear")
            with open(p, "w") as f:
                f.write(("#" if tab["hash"] else "") + "\t".join(tab["header"]) + "\n")
                for row in tab["rows"]:
                    f.write("\t".join(row) + "\n")
            paths[key] = p
    return paths


def _parse_float(tok):
    try:
        v = float(tok)
    except ValueError:
        return None
    if v != v or v in (float("inf"), float("-inf")):
        raise ValueError("nan/inf cells are not generated")
    return Fraction(v)


def _parse_int(tok):
    try:
        return int(tok)
    except ValueError:
        return None


class Clump(Relation):
    name = "clump"
    coq_module = "C17_Check"
    coq_check = "check_clump"
    coq_case_type = "ccase"
    coq_model = "model_clump"
    coq_imports = ["PearsonQ", "C17_Model"]
    budget = {"quick": 640, "thorough": 6000}
    max_cases_per_shard = 50
    timeout_per_case = 40
    anchors = [("haptools/clump.py", "SummaryStats.Load"), ("haptools/clump.py", "SummaryStats.GetNextIndexVariant"),
               ("haptools/clump.py", "SummaryStats.QueryWindow"), ("haptools/clump.py", "SummaryStats.RemoveClump"),
               ("haptools/clump.py", "GetOverlappingSamples"), ("haptools/clump.py", "_SortSamples"),
               ("haptools/clump.py", "LoadVariant"), ("haptools/clump.py", "_FilterGts"),
               ("haptools/clump.py", "ComputeLD"), ("haptools/clump.py", "WriteClump"),
               ("haptools/clump.py", "clumpstr")]

    def preamble(self):
        return "From Coq Require Import QArith PrimFloat.\nOpen Scope Z_scope."

    def generate(self, rng, n, tier):
        return [gen_clump(rng) for _ in range(n)]

    def exhaustive(self, tier):
        # all assignments of 3 p-values x all p1 on one 4-variant chromosome with a fixed LD structure
        cols = [[[0, 1], [1, 1], [0, 0], [1, 0], [0, 0], [1, 1]], [[0, 1], [1, 1], [0, 0], [1, 0], [0, 0], [1, 1]],
                [[1, 0], [0, 0], [1, 1], [0, 0], [0, 1], [0, 0]], [[0, 0], [0, 0], [0, 0], [0, 0], [0, 0], [0, 0]]]
        samples = [f"s{i}" for i in range(6)]
        out = []
        for ps in itertools.product(["0", "0.001", "1"], repeat=4):
            for p1 in ("0.001", "0.01", "1"):
                for pos in ([1000, 1100, 1101, 2000], [1000, 1099, 1100, 1200]):
                    vs = [{"id": f"snp{j}", "chrom": "1", "pos": pos[j], "ref": "A", "alt": "C", "calls": cols[j]}
                          for j in range(4)]
                    tab = {"header": ["SNP", "CHR", "POS", "P"], "hash": False,
                           "rows": [[v["id"], "1", str(v["pos"]), p] for v, p in zip(vs, ps)]}
                    out.append({"snp": {"samples": samples, "vars": vs, "fmt": "vcf"}, "str": None, "stats_snp": tab,
                                "stats_str": None, "fields": dict(FIELDS[0]), "p1": p1, "p2": "1", "kb": "0.1",
                                "r2": "0.5", "ld": "Pearson", "kind": "exhaustive"})
        return out

    def run_impl(self, cfg):
        import haptools.clump as cl
        from haptools.logging import getLogger

        d = tempfile.mkdtemp(prefix="hv_c17_")
        saved = (cl.LoadVariant, cl.ComputeLD)
        tags, table = {}, []
        try:
            paths = _write_inputs(cfg, d)
            load0, ld0 = saved

            def load(var, gts, log):
                arr = load0(var, gts, log)
                tags[id(arr)] = ([var.varid, var.chrom, int(var.pos)], arr)
                return arr

            def compute(cand, idx, ld_type, log):
                res = ld0(cand, idx, ld_type, log)
                a, b = tags.get(id(idx)), tags.get(id(cand))
                r2 = res[1]
                table.append([a[0] if a else None, b[0] if b else None,
                              None if r2 != r2 else [str(Fraction(float(r2)).numerator), str(Fraction(float(r2)).denominator)]])
                return res

            cl.LoadVariant, cl.ComputeLD = load, compute
            out = os.path.join(d, "out.clump")
            try:
                if cfg.get("via") == "cli":
                    from click.testing import CliRunner
                    from haptools.__main__ import main

                    args = ["clump", "--verbosity", "CRITICAL", "--out", out, "--ld", cfg["ld"],
                            "--clump-p1", cfg["p1"], "--clump-p2", cfg["p2"], "--clump-kb", cfg["kb"],
                            "--clump-r2", cfg["r2"], "--clump-id-field", cfg["fields"]["id"],
                            "--clump-field", cfg["fields"]["p"], "--clump-chrom-field", cfg["fields"]["chrom"],
                            "--clump-pos-field", cfg["fields"]["pos"]]
                    for opt, key in (("--summstats-snps", "summstats_snps"), ("--summstats-strs", "summstats_strs"),
                                     ("--gts-snps", "gts_snps"), ("--gts-strs", "gts_strs")):
                        if paths[key]:
                            args += [opt, paths[key]]
                    res = CliRunner().invoke(main, args, catch_exceptions=True)
                    if res.exception is not None and not (isinstance(res.exception, SystemExit) and res.exception.code in (0, None)):
                        raise res.exception
                else:
                    cl.clumpstr(paths["summstats_snps"], paths["summstats_strs"], paths["gts_snps"], paths["gts_strs"],
                                float(cfg["p1"]), float(cfg["p2"]), cfg["fields"]["id"], cfg["fields"]["p"],
                                cfg["fields"]["chrom"], cfg["fields"]["pos"], float(cfg["kb"]), float(cfg["r2"]),
                                cfg["ld"], out, getLogger("hv17", "CRITICAL"))
            except BaseException as e:  # noqa
                if isinstance(e, (KeyboardInterrupt, MemoryError)):
                    raise
                return {"err": err_kind(e), "cls": type(e).__name__, "msg": str(e)[:160], "table": table}
            rows = []
            with open(out) as f:
                lines = f.read().split("\n")
            if lines[0].split("\t") != ["ID", "CHROM", "POS", "P", "VARTYPE", "CLUMPVARS"]:
                return {"err": 97, "msg": "header changed"}
            for ln in lines[1:]:
                if not ln:
                    continue
                t = ln.split("\t")
                if len(t) != 6:
                    return {"err": 97, "msg": "row format changed"}
                members = [m.split(" ") for m in t[5].split(",")] if t[5] else []
                if any(len(m) != 5 for m in members):
                    return {"err": 97, "msg": "member format changed"}
                # [ID, member IDs, CHROM, POS, P, VARTYPE, members as printed (ID CHROM POS P VARTYPE)]
                rows.append([t[0], [m[0] for m in members], t[1], t[2], t[3], t[4], members])
            return {"ok": rows, "table": table}
        finally:
            cl.LoadVariant, cl.ComputeLD = saved
            shutil.rmtree(d, ignore_errors=True)

    # ---- encoding
    def encode(self, cfg, obs):
        toks = L.Interner()
        names = sorted(set((cfg["snp"] or {"samples": []})["samples"]) | set((cfg["str"] or {"samples": []})["samples"]))
        rank = {s: i for i, s in enumerate(names)}
        pr = lambda c: f"({L.z(c[0])}, {L.z(c[1])})"

        # long rational literals (1e-300 has 300-digit terms; Coq parses ~12 k characters per second) are bound once
        # per case by a let and referred to by name
        qtab = {}

        def qq(x):
            fr = Fraction(x)
            lit = L.q(fr)
            return lit if len(lit) < 28 else qtab.setdefault(fr, f"q{len(qtab)}")

        def cell(tok):
            return f"(mkcell {toks(tok)} {L.opt(_parse_int(tok), L.z)} {L.opt(_parse_float(tok), qq)})"

        def tab(t):
            if t is None:
                return "[]", "None"
            return L.zl([toks(h) for h in t["header"]]), f"(Some {L.lst(t['rows'], lambda r: L.lst(r, cell))})"

        def gset(s, values):
            if s is None:
                return "None"
            ents = [f"(mkg {toks(v['chrom'])} {L.z(v['pos'])} {L.lst(values(v), pr)})" for v in s["vars"]]
            return f"(Some (mkgs {L.zl([rank[x] for x in s['samples']])} {L.lst(ents)}))"

        h1, r1 = tab(cfg["stats_snp"])
        h2, r2 = tab(cfg["stats_str"])
        f = cfg["fields"]
        fields = f"(mkf {toks(f['id'])} {toks(f['p'])} {toks(f['chrom'])} {toks(f['pos'])})"
        k = (f"(mkcfg {h1} {r1} {h2} {r2} {fields} {qq(float(cfg['p1']))} {qq(float(cfg['p2']))} "
             f"{qq(float(cfg['r2']))} {L.b(cfg['ld'] == 'Exact')} "
             f"{gset(cfg['snp'], lambda v: v['calls'])} {gset(cfg['str'], str_values)})")
        # clump_kb: the float64 the code receives (bit exact) and the decimal typed
        kbf, kbdec = L.hexfloat(float(cfg["kb"])), qq(Fraction(cfg["kb"]))
        if not isinstance(obs, dict) or ("ok" not in obs and "err" not in obs):
            obs = {"err": (obs or {}).get("kind", 99), "table": []}
        table = []
        if cfg["ld"] == "Exact":
            for a, b, v in obs.get("table", []):
                if a is None or b is None:
                    continue
                qv = "None" if v is None else f"(Some (Qmake {L.z(int(v[0]))} {int(v[1])}%positive))"
                sg = lambda x: f"({toks(x[0])}, {toks(x[1])}, {L.z(int(x[2]))})"
                table.append(f"({sg(a)}, {sg(b)}, {qv})")
        if "ok" in obs:
            try:
                def vrow(i, c, pos, pv, ty):
                    return (f"({toks(i)}, {toks(c)}, {L.z(int(pos))}, {qq(Fraction(float(pv)))}, "
                            f"{L.z({'SNP': 0, 'STR': 1}[ty])})")

                o = "(Ok " + L.lst(obs["ok"], lambda r: f"({vrow(r[0], r[2], r[3], r[4], r[5])}, "
                                                          f"{L.lst(r[6], lambda m: vrow(*m))})") + ")"
            except (ValueError, KeyError, OverflowError):
                o = "(Err 97)"
        else:
            o = L.res(obs)
        term = f"(mkcc {k} {kbf} {kbdec} {L.lst(table)} {o})"
        if qtab:
            term = "(" + " ".join(f"let {n} := {L.q(fr)} in" for fr, n in qtab.items()) + " " + term + ")"
        return term

    def nontrivial(self, cfg, obs):
        if cfg["kind"] not in ("wellformed", "exhaustive", "blank-line", "duplicate-id") or not isinstance(obs, dict) or "ok" not in obs:
            return False
        rows = obs["ok"]
        return len(rows) >= 2 or any(set(r[1]) - {r[0]} for r in rows)

    def classes(self, cfg, obs):
        out = [cfg["kind"], "mode=" + ("mixed" if cfg["snp"] and cfg["str"] else "snp" if cfg["snp"] else "str"),
               "ld=" + cfg["ld"], cfg.get("kbclass", "kb:corpus"), "layout=" + cfg.get("layout", "fixed"),
               "p1>1" if float(cfg["p1"]) > 1 else "p1<=1"]
        out += self._window_classes(cfg, obs)
        out += self._dup_classes(cfg, obs)
        if cfg["snp"]:
            out.append("snpfmt=" + cfg["snp"]["fmt"])
        if cfg["str"]:
            out.append("strfmt=" + cfg["str"].get("fmt", "vcf"))
            if any(v["ref_n"] >= 126 for v in cfg["str"]["vars"]):
                out.append("str-copy-number>=126(uint8-width)")
        out.append("via=" + cfg.get("via", "api"))
        if isinstance(obs, dict) and "ok" in obs:
            rows = obs["ok"]
            out.append(f"clumps={min(len(rows), 5)}")
            if any(r[0] not in r[1] for r in rows):
                out.append("index-not-in-own-clump(constant/NaN)")
            if any(len(set(r[1]) - {r[0]}) for r in rows):
                out.append("clump-with-other-members")
            ps = [r[4] for r in rows]
            if len(set(ps)) < len(ps):
                out.append("tie-among-index-p")
        elif isinstance(obs, dict) and "err" in obs:
            out.append(f"err:{obs.get('cls', obs['err'])}")
        elif isinstance(obs, dict) and "__timeout__" in obs:
            out.append("timeout")
        return out

    def _dup_classes(self, cfg, obs):
        """duplicate IDs among the loaded rows (p <= p2), and whether each of the rows sharing an ID got clumped"""
        f = cfg["fields"]
        ids = []
        for key in ("stats_snp", "stats_str"):
            t = cfg[key]
            if not t or f["id"] not in t["header"] or f["p"] not in t["header"]:
                continue
            ic, ip = t["header"].index(f["id"]), t["header"].index(f["p"])
            for row in t["rows"]:
                if not row:
                    break
                try:
                    if len(row) > max(ic, ip) and float(row[ip]) <= float(cfg["p2"]):
                        ids.append(row[ic])
                except ValueError:
                    pass
        dup = {i for i in ids if ids.count(i) > 1}
        if not dup:
            return []
        out = ["dup-id:" + cfg.get("dup", "corpus"), "dup-id-loaded"]
        if isinstance(obs, dict) and "ok" in obs:
            n = sum(1 for r in obs["ok"] if r[0] in dup)
            out.append(f"dup-id-index-rows={min(n, 3)}")
        return out

    def _window_classes(self, cfg, obs):
        """which boundary distances occur between two variants of one chromosome (in bp, relative to kb*1000), and
        whether a variant at such a distance from an index is / is not a member of its clump"""
        lo, hi = kb_bounds(cfg["kb"])
        vs = [(v["chrom"], v["pos"], v["id"]) for g in (cfg["snp"], cfg["str"]) if g for v in g["vars"]]
        names = {lo - 1: "floor-1", lo: "floor", hi: "ceil", hi + 1: "ceil+1"} if hi != lo else \
                {lo - 1: "kb-1bp", lo: "kb-exactly", lo + 1: "kb+1bp"}
        out = set()
        member = {}
        if isinstance(obs, dict) and "ok" in obs:
            member = {r[0]: set(r[1]) for r in obs["ok"]}
        for a in vs:
            for b in vs:
                if a is not b and a[0] == b[0] and abs(a[1] - b[1]) in names and abs(a[1] - b[1]) > 0:
                    tag = "dist=" + names[abs(a[1] - b[1])]
                    out.add(tag)
                    if a[2] in member:
                        out.add(tag + (":member" if b[2] in member[a[2]] else ":not-member"))
        return sorted(out)

    def shrink(self, cfg):
        for key, skey in (("snp", "stats_snp"), ("str", "stats_str")):
            g, t = cfg[key], cfg[skey]
            if not g:
                continue
            f = cfg["fields"]
            cc = t["header"].index(f["chrom"]) if f["chrom"] in t["header"] else None
            pc = t["header"].index(f["pos"]) if f["pos"] in t["header"] else None
            for j, v in enumerate(g["vars"]):
                if len(g["vars"]) > 1:
                    rows = [r for r in t["rows"] if cc is None or pc is None or len(r) <= max(cc, pc)
                            or (r[cc], r[pc]) != (v["chrom"], str(v["pos"]))]
                    yield dict(cfg, **{key: dict(g, vars=g["vars"][:j] + g["vars"][j + 1:]), skey: dict(t, rows=rows)})
            for j in range(len(t["rows"])):
                yield dict(cfg, **{skey: dict(t, rows=t["rows"][:j] + t["rows"][j + 1:])})
        if cfg["snp"] and cfg["str"]:
            yield dict(cfg, str=None, stats_str=None)
            yield dict(cfg, snp=None, stats_snp=None)
        if cfg["snp"] and cfg["snp"]["fmt"] == "pgen":
            yield dict(cfg, snp=dict(cfg["snp"], fmt="vcf"))

    def mutate(self, cfg, rng):
        for p1 in P1_POOL:
            yield dict(cfg, p1=p1)
        for kb in KB_POOL:
            yield dict(cfg, kb=kb)
        for _ in range(8):
            yield dict(cfg, kb=gen_kb(rng)[0])

    def signature(self, cfg, obs):
        mode = "mixed" if cfg["snp"] and cfg["str"] else "snp" if cfg["snp"] else "str"
        if isinstance(obs, dict) and "__timeout__" in obs:
            return f"clumpstr does not terminate ({mode}, {cfg['ld']})"
        if isinstance(obs, dict) and "err" in obs:
            return f"clumpstr raises {obs.get('cls')} ({mode}, {cfg['ld']}, {cfg['kind']})"
        return f"clump file is not the greedy clumping ({mode}, {cfg['ld']})"


# --------------------------------------------------------------------------------------------


def gen_pair(rng):
    n = int(rng.integers(1, 13))
    ld = "Exact" if rng.random() < 0.5 else "Pearson"
    kind = "snp" if (ld == "Exact" or rng.random() < 0.5) else "str"
    if kind == "snp":
        f1, f2 = float(rng.choice([0.2, 0.5, 0.8])), float(rng.choice([0.2, 0.5, 0.8]))
        a = [[int(rng.random() < f1), int(rng.random() < f1)] for _ in range(n)]
        r = rng.random()
        if r < 0.2:
            b = [list(x) for x in a]
        elif r < 0.5:
            b = [[x[0] ^ int(rng.random() < 0.2), x[1] ^ int(rng.random() < 0.2)] for x in a]
        else:
            b = [[int(rng.random() < f2), int(rng.random() < f2)] for _ in range(n)]
        if rng.random() < 0.4:
            # no sample heterozygous at both variants
            for i in range(n):
                if a[i][0] != a[i][1] and b[i][0] != b[i][1]:
                    b[i] = [b[i][0], b[i][0]]
        if rng.random() < 0.1:
            v = int(rng.integers(0, 2))
            b = [[v, v] for _ in range(n)]
    else:
        a = [[int(rng.integers(1, 15)), int(rng.integers(1, 15))] for _ in range(n)]
        b = [[int(x[0] + rng.integers(-1, 2)) % 20, int(rng.integers(1, 15))] for x in a]
        if rng.random() < 0.1:
            b = [[5, 5] for _ in range(n)]
        if rng.random() < 0.12:
            # width boundary: copy numbers whose dosage sum straddles 255|256 (the arrays are uint8; 254/255 = missing)
            hi = [126, 127, 127, 128, 128, 129, 252, 253]
            a = [[int(rng.choice(hi)), int(rng.choice(hi))] for _ in range(n)]
            b = [[int(x[0] + rng.integers(-1, 2)) if x[0] < 253 else 253, int(rng.choice(hi))] for x in a]
    if rng.random() < 0.4:
        for i in range(n):
            if rng.random() < 0.2:
                (a if rng.random() < 0.5 else b)[i] = [255, 255] if rng.random() < 0.6 else [int(rng.integers(0, 2)), int(rng.choice([254, 255]))]
    return {"cand": a, "idx": b, "ld": ld}


def _wide(inp):
    return any(254 > x[0] + 0 and x[0] < 254 and x[1] < 254 and x[0] + x[1] > 255 for x in inp["cand"] + inp["idx"])


class ComputeLDRel(Relation):
    name = "computeld"
    coq_module = "C17_Check"
    coq_check = "check_computeld"
    coq_case_type = "dcase"
    coq_model = "model_computeld"
    coq_imports = ["PearsonQ", "C17_Model"]
    budget = {"quick": 4000, "thorough": 40000}
    max_cases_per_shard = 300
    timeout_per_case = 30
    anchors = [("haptools/clump.py", "ComputeLD"), ("haptools/clump.py", "_FilterGts"),
               ("haptools/clump.py", "ComputeExactLD"), ("haptools/clump.py", "_CalcLDStats"),
               ("haptools/clump.py", "_CalcBestRoot"), ("haptools/clump.py", "_CalcChiSQ")]

    def preamble(self):
        return "From Coq Require Import QArith.\nOpen Scope Z_scope."

    def generate(self, rng, n, tier):
        return [gen_pair(rng) for _ in range(n)]

    def exhaustive(self, tier):
        # every pair of 3-sample biallelic genotype vectors (dosage level), both LD types
        out = []
        gts = [[0, 0], [0, 1], [1, 1]]
        for a in itertools.product(gts, repeat=3):
            for b in itertools.product(gts, repeat=3):
                for ld in ("Pearson", "Exact"):
                    out.append({"cand": [list(x) for x in a], "idx": [list(x) for x in b], "ld": ld})
        return out

    def run_impl(self, inp):
        import haptools.clump as cl
        from haptools.logging import getLogger

        roots, allroots = [], []
        stats0, best0 = cl._CalcLDStats, cl._CalcBestRoot

        def stats(f00, p, q, gt_counts, n):
            fr = Fraction(float(f00))
            roots.append([str(fr.numerator), str(fr.denominator)])
            return stats0(f00, p, q, gt_counts, n)

        def best(real_roots, *a, **k):
            for x in real_roots:
                x = float(x)
                fr = Fraction(x) if x == x and abs(x) != float("inf") else Fraction(10**9)
                allroots.append([str(fr.numerator), str(fr.denominator)])
            return best0(real_roots, *a, **k)

        cl._CalcLDStats, cl._CalcBestRoot = stats, best
        try:
            _, r2 = cl.ComputeLD(np.array(inp["cand"], dtype=np.uint8).reshape(-1, 2),
                                 np.array(inp["idx"], dtype=np.uint8).reshape(-1, 2), inp["ld"],
                                 getLogger("hv17", "CRITICAL"))
        except Exception as e:  # noqa
            return {"err": err_kind(e), "cls": type(e).__name__, "msg": str(e)[:160]}
        finally:
            cl._CalcLDStats, cl._CalcBestRoot = stats0, best0
        r2 = float(r2)
        if r2 != r2:
            return {"ok": None, "roots": roots, "allroots": allroots}
        fr = Fraction(r2)
        return {"ok": [str(fr.numerator), str(fr.denominator)], "float": r2, "roots": roots, "allroots": allroots}

    def encode(self, inp, obs):
        pr = lambda c: f"({L.z(c[0])}, {L.z(c[1])})"
        if not isinstance(obs, dict) or ("ok" not in obs and "err" not in obs):
            obs = {"err": (obs or {}).get("kind", 99)}
        qm = lambda x: f"(Qmake {L.z(int(x[0]))} {int(x[1])}%positive)"
        o = L.res(obs, lambda v: L.opt(v, qm))
        return (f"(mkd {L.lst(inp['cand'], pr)} {L.lst(inp['idx'], pr)} {L.b(inp['ld'] == 'Exact')} {o} "
                f"{L.lst(obs.get('roots') or [], qm)} {L.lst(obs.get('allroots') or [], qm)})")

    def _valid(self, inp):
        return [(a[0] + a[1], b[0] + b[1]) for a, b in zip(inp["cand"], inp["idx"]) if max(a) < 254 and max(b) < 254]

    def nontrivial(self, inp, obs):
        v = self._valid(inp)
        return len(v) >= 3 and len({x[0] for x in v}) > 1 and len({x[1] for x in v}) > 1

    def classes(self, inp, obs):
        v = self._valid(inp)
        out = ["ld=" + inp["ld"]]
        if not v:
            out.append("no-valid-sample")
        elif len({x[0] for x in v}) == 1 or len({x[1] for x in v}) == 1:
            out.append("constant")
        elif inp["ld"] == "Exact":
            out.append("no-double-het" if not any(x == (1, 1) for x in v) else "double-het")
        if len(v) < len(inp["cand"]):
            out.append("missing-calls")
        if _wide(inp):
            out.append("dosage-sum>255(uint8-width)")
        if isinstance(obs, dict) and "err" in obs:
            out.append(f"err:{obs.get('cls')}")
        if isinstance(obs, dict) and obs.get("float") in (0.0, 1.0):
            out.append(f"r2={obs['float']}")
        if isinstance(obs, dict) and inp["ld"] == "Exact" and "ok" in obs and obs["ok"] is not None:
            out.append(f"roots-in-range={len(obs.get('roots') or [])}")
            out.append(f"real-roots={len(obs.get('allroots') or [])}")
        return out

    def shrink(self, inp):
        for i in range(len(inp["cand"])):
            yield dict(inp, cand=inp["cand"][:i] + inp["cand"][i + 1:], idx=inp["idx"][:i] + inp["idx"][i + 1:])

    def mutate(self, inp, rng):
        for i in range(len(inp["cand"])):
            for key in ("cand", "idx"):
                c = [list(x) for x in inp[key]]
                c[i] = [1 - c[i][0] if c[i][0] < 2 else c[i][0], c[i][1]]
                yield dict(inp, **{key: c})

    def signature(self, inp, obs):
        if isinstance(obs, dict) and "err" in obs:
            return f"ComputeLD({inp['ld']}) raises {obs.get('cls')}"
        v = self._valid(inp)
        tag = "no-double-het" if not any(x == (1, 1) for x in v) else "double-het"
        return f"ComputeLD({inp['ld']}) r2 wrong or out of [0,1] ({tag})"


class TVClump(Clump):
    """The same generated clumpstr runs, with the clumping loop evaluated from the MiniPy syntax regenerated from the
    current source (GetNextIndexVariant, QueryWindow, RemoveClump and the `while indexvar is not None` loop of clumpstr;
    LoadVariant / ComputeLD = the model's genotype lookup and r2 oracle, int / int in float64 arithmetic): validates the
    translator and the interpreter against the real code.  holds is checked by the clump relation."""
    name = "tv_clump"
    coq_lib = "HVG"
    coq_module = "TVM_C17"
    coq_check = "check_tv_clump"
    coq_case_type = "C17_Check.ccase"
    coq_model = "tv_model_clump"
    coq_imports = ["PearsonQ", "C17_Model", "C17_Check"]
    budget = {"quick": 160, "thorough": 3000}

    def exhaustive(self, tier):
        return super().exhaustive(tier)[::7]

    def signature(self, cfg, obs):
        return "tv_" + super().signature(cfg, obs)


OV_POOL = ["S0", "S1", "S2", "S10", "S9", "NA12878", "NA1", "NA12", "HG00096", "HG00097", "a", "B", "b", "Z", "_x", "",
           "s 1", "\u00fc", "\u00dc", "10", "9", "1e3"]


class TVOverlap(Relation):
    """GetOverlappingSamples (haptools/clump.py) called directly on two objects that carry a `samples` tuple, and
    _SortSamples on each tuple; the function's body is evaluated from the MiniPy syntax regenerated from the current
    source with the model's sort_samples in place of _SortSamples.  agree = the interpreted function, the hand model
    `overlapping` and the real function return the same two index lists, and the real _SortSamples is sort_samples (the
    contract under which TV_overlap_walk_refines is stated).  Sample names are interned order-preservingly (rank in
    Python's string order).  holds is not judged here."""
    name = "tv_overlap"
    coq_lib = "HVG"
    coq_module = "TVM_C17O"
    coq_check = "check_tv_overlap"
    coq_case_type = "ovcase"
    coq_model = "tv_model_overlap"
    coq_imports = ["C17_Model"]
    budget = {"quick": 150, "thorough": 3000}
    max_cases_per_shard = 150
    anchors = [("haptools/clump.py", "GetOverlappingSamples"), ("haptools/clump.py", "_SortSamples")]

    def generate(self, rng, n, tier):
        out = []
        for k in range(n):
            r = rng.random()
            if k == 0:
                # width boundary: more than 256 samples per file, half of them shared
                a = [f"W{j:04d}" for j in rng.permutation(300)]
                b = [f"W{j:04d}" for j in rng.permutation(np.arange(150, 450))]
                out.append({"snp": [str(x) for x in a], "str": [str(x) for x in b]})
                continue
            pool = OV_POOL if r < 0.7 else [f"N{j}" for j in range(40)]
            na, nb = int(rng.integers(0, 9)), int(rng.integers(0, 9))
            if r < 0.85:
                a = [str(x) for x in rng.choice(pool, size=min(na, len(pool)), replace=False)]
                b = [str(x) for x in rng.choice(pool, size=min(nb, len(pool)), replace=False)]
            else:
                # repeated names inside one file (the completeness theorem assumes none; agreement must still hold)
                a = [str(x) for x in rng.choice(pool, size=na, replace=True)]
                b = [str(x) for x in rng.choice(pool, size=nb, replace=True)]
            out.append({"snp": a, "str": b})
        return out

    def exhaustive(self, tier):
        names = ["a", "b", "c"]
        out = []
        for la in range(0, 4):
            for a in itertools.permutations(names, la):
                for lb in range(0, 4):
                    for b in itertools.permutations(names, lb):
                        out.append({"snp": list(a), "str": list(b)})
        out.append({"snp": ["a", "a", "b"], "str": ["b", "a", "a"]})
        return out

    def run_impl(self, inp):
        import types

        from haptools import clump

        try:
            so = [[str(s), int(i)] for s, i in zip(*clump._SortSamples(tuple(inp["snp"])))]
            st = [[str(s), int(i)] for s, i in zip(*clump._SortSamples(tuple(inp["str"])))]
            a, b = clump.GetOverlappingSamples(types.SimpleNamespace(samples=tuple(inp["snp"])),
                                               types.SimpleNamespace(samples=tuple(inp["str"])))
            return {"ok": [[int(x) for x in a], [int(x) for x in b]], "sort_snp": so, "sort_str": st}
        except Exception as e:  # noqa
            return {"err": err_kind(e), "cls": type(e).__name__, "msg": str(e)[:200]}

    def encode(self, inp, obs):
        rank = {s: k for k, s in enumerate(sorted(set(inp["snp"]) | set(inp["str"])))}
        pairs = lambda l: L.lst(l, lambda p: f"({L.z(rank[p[0]])}, {L.z(p[1])})")
        if "ok" in obs:
            ot = f"(Ok ({L.zl(obs['ok'][0])}, {L.zl(obs['ok'][1])}))"
            so, st = pairs(obs["sort_snp"]), pairs(obs["sort_str"])
        else:
            ot, so, st = f"(Err {L.z(obs.get('err', obs.get('kind', 99)))})", "[]", "[]"
        return (f"(mkov {L.zl([rank[s] for s in inp['snp']])} {L.zl([rank[s] for s in inp['str']])} {so} {st} {ot})")

    def nontrivial(self, inp, obs):
        return bool(set(inp["snp"]) & set(inp["str"]))

    def classes(self, inp, obs):
        out = [f"shared:{min(len(set(inp['snp']) & set(inp['str'])), 3)}"]
        if len(set(inp["snp"])) < len(inp["snp"]) or len(set(inp["str"])) < len(inp["str"]):
            out.append("repeated-name")
        if max(len(inp["snp"]), len(inp["str"])) > 256:
            out.append("more-than-256-samples")
        return out

    def shrink(self, inp):
        for k in ("snp", "str"):
            for j in range(len(inp[k])):
                yield dict(inp, **{k: inp[k][:j] + inp[k][j + 1:]})

    def mutate(self, inp, rng):
        for k in ("snp", "str"):
            if inp[k]:
                yield dict(inp, **{k: inp[k][::-1]})
                yield dict(inp, **{k: inp[k] + [inp[k][0]]})

    def signature(self, inp, obs):
        if isinstance(obs, dict) and "ok" not in obs:
            return f"tv_overlap GetOverlappingSamples raised {obs.get('cls', obs.get('__exc__', '?'))}"
        return "tv_overlap: the translated GetOverlappingSamples, the model and the real function disagree"


RELATIONS = [Clump(), ComputeLDRel(), TVClump(), TVOverlap()]

LEVEL_TEXT = (
    "Coq theorems over all summary-statistic tables, thresholds, window predicates and r^2 oracles for a Gallina model of "
    "clump.py's main loop (termination with fuel = number of variants, greedy characterisation of every clump on rows "
    "- two rows with one ID are two variants -, disjointness by row and by ID, soundness of the row-level checker of "
    ".clump files modulo (ID, CHROM, POS)), composed into a theorem about the model of clumpstr as a whole with the Pearson "
    "oracle (tables loaded with p <= p2, genotype lookup, r^2 test, greedy clumping of the loaded statistics), "
    "over all dosage vectors for Pearson r^2 (in [0,1], Cauchy-Schwarz over Q) and over all 3x3 genotype tables for the "
    "exact-LD formulas (the no-double-heterozygote frequency is a root of the cubic and gives the haplotype r^2; "
    "r^2(f00) in [0,1] on the admissible interval; the cubic changes sign on it); the model is tied to /repo on every run "
    "by evaluating inside Coq model-vs-implementation agreement (window test in the code's float64 arithmetic, all six "
    "columns of every .clump row) and the property's finite checker (window as the rational test |dpos|/1000 < kb) on "
    "generated clumpstr runs and ComputeLD calls. The pure-Python kernel of clumping (GetNextIndexVariant, QueryWindow, "
    "RemoveClump and the while loop of clumpstr) is regenerated from the current source on every run and proved equal to "
    "the hand-written model for all tables, thresholds, roundings of abs(dpos)/1000 and LoadVariant / ComputeLD functions "
    "(coq/translated/TV_C17.v); the greedy theorem is restated about the translated loop."
)
LEVEL_NOTE = (
    "Partial: (1) the theorems hold for every window predicate; that the code's float64 test abs(dpos)/1000 < kb "
    "(win_float, the instance the correspondence uses) implies the rational test and differs from it only where the "
    "float64 quotient rounds to kb itself is NOT proved for all inputs (it needs the IEEE-754 specification of "
    "PrimFloat.div, i.e. Coq's FloatAxioms) - it is evaluated on every pair of loaded variants of every case "
    "(window_link, part of agree). holds demands membership where the variant is strictly within the window under both "
    "readings of the user's kb (the decimal typed and the float64 it parses to) and non-membership where it is within "
    "under neither; where they differ (distance equal to the decimal typed while the float64 lies above it, e.g. "
    "--clump-kb 0.1 and 100 bp, which the code excludes) it demands nothing. "
    "In the translation validation floats are exact rationals with exact comparison (nan/inf p-values are not generated) "
    "and the float64 quotient abs(dpos)/1000 is an arbitrary function fdiv (nothing is assumed about its rounding); "
    "Variant identity is the row index carried as an extra component (rows told apart by their keys). "
    "(2) C17_clumpstr_is_greedy composes loading, genotype lookup and the Pearson test with the greedy theorem; header "
    "lookup by name and the Exact-mode oracle (recorded values) are outside it. "
    "(3) ComputeExactLD's floating-point cubic solver and its choice among several admissible roots are not "
    "verified; the roots it found are recorded and checked in Coq (every root it reports has residual <= 1e-9*n in the "
    "model's cubic; the one used lies in the admissible interval and the returned r^2 = the model's formula at that root to "
    "6 decimals), the result must lie in [0,1] and be "
    "within 1e-6 of the exact haplotype r^2 when no sample is doubly heterozygous; in Exact mode the clump relation uses "
    "the r^2 values recorded from ComputeLD. Although an admissible root always exists (C17_exact_cubic_sign_change), the "
    "solver can lose it when the cubic has a double root and rounding makes yN^2 marginally exceed h^2 (one real root "
    "reported, the simple one, outside the interval): r^2 = 0 is then returned and accepted here, since the property "
    "demands only [0,1] in the presence of double heterozygotes (e.g. dosage pairs (0,1),(0,2),(0,2),(1,1),(1,2),(1,2),(1,2)). "
    "numpy.corrcoef is compared within 1e-9 of the exact rational r^2. "
    "STR genotypes given as PGEN need the un-indexed-read fix (fixes/C07_unindexed_read.patch) to be read at all. "
    "The double-root branch of ComputeExactLD needs fixes/C17_exact_double_root.patch (witnesses corpus/C17/exact_double_root_*)."
)
TECHNIQUE = "Coq proofs (fuel-based loop invariants, Cauchy-Schwarz over Z/Q, field identities) + translation validation of the clumping kernel (source -> MiniPy -> proved equal to the model) + vm_compute-evaluated correspondence"
