"""C18 - the karyogram draws exactly the sample's blocks from the breakpoints file.

Relations (haptools/karyogram.py)
  blocks : GetHaplotypeBlocks(bp, sample, chromosome-ends file | None), result compared block by block
           (label, numeric chromosome, start and end as binary64 bit patterns)
  plot   : PlotKaryogram on the Agg backend; the PathCollections found on the axes afterwards
           (vertices, and the label the legend gives to their face colour)
"""
import os
import shutil
import tempfile

import numpy as np

from . import coqlit as L
from .core import Relation, err_kind

PROP = "C18"
CLAIMED = True
COQ_MODULES = ["C18_Check", "C18_Proofs", "C18_ProofsCheck"]
PROPERTY_MODULE = "C18_Property"
# Coq's primitive binary64 type and operations are printed by Print Assumptions under "Axioms:" for the two
# checker-soundness theorems (the checker compares floats); they are kernel primitives, not axioms of this development
ALLOWED_AXIOMS = ["PrimFloat.float", "PrimFloat.leb", "PrimFloat.eqb", "PrimFloat.add", "PrimFloat.abs",
                  "PrimFloat.is_nan", "PrimFloat.is_infinity", "PrimFloat.ltb", "PrimFloat.sub", "PrimFloat.mul",
                  "PrimFloat.of_uint63", "Uint63.int", "PrimInt63.int"]
RULE = (
    "generated .bp files: 1-4 samples, the drawn sample first / in the middle / last / absent, names with "
    "underscores, 1-5 chromosomes incl. X, Y and chr-prefixed names, 1-5 blocks per chromosome, the last chromosome "
    "with one or several blocks, tab or blank separated, with and without a chromosome-ends file (complete, with "
    "repeated lines, lacking a chromosome); malformed stream: blank lines, bad headers, unparsable chromosome or cM "
    "tokens, a sample with one strand, a strand without blocks, a repeated sample. Non-trivial = the sample is present "
    "and one of its strands has >= 2 blocks on its last chromosome or >= 2 chromosomes. Distinct = distinct canonical JSON."
)
TRUSTED = [
    "Python float()/int() on tokens are codec tables recorded per case (theorems: Section variables)",
    "binary64 addition of 0.0001 is Coq's PrimFloat.add (bit-exact); in the theorems plus_eps is an abstract function",
    "str.strip().split() is done by the harness (lines are handed to the model as token lists)",
    "matplotlib keeps the vertices and face colours it is given (read back from ax.collections and the legend)",
]
ASSUMPTIONS = [
    "holds is demanded for files whose one-token lines pair up as <name>_1, <name>_2 with distinct names and whose other "
    "lines have >= 2 tokens with parsable chromosome and cM end; with an ends file: every chromosome of the sample listed, "
    "both strands non-empty",
    "contiguity tolerance in holds: a block starts within [previous file end, previous file end + 0.001] (the code adds 0.0001)",
]

POPS = ["YRI", "CEU", "ASW", "AMR", "p_1"]
NAMES = ["Sample_1", "Sample_2", "HG00096", "a_b_c", "x", "NA_2_1", "s", "Sample_10"]
CHROM_SETS = [["1", "2", "3", "X"], ["chr1", "chr2", "chr10", "chrX"], ["1", "chr2", "22", "X", "Y"], ["2", "5", "21"],
              ["chr01", "7", "chrY"]]
COLORS = {"YRI": "red", "CEU": "blue", "ASW": "green", "AMR": "orange", "p_1": "purple"}


def hexf(x):
    return L.hexfloat(x)


def pyfloat(tok):
    try:
        return {"ok": float(tok)}
    except ValueError:
        return {"err": 1}


def pyint(tok):
    try:
        return {"ok": int(tok)}
    except ValueError:
        return {"err": 1}


def ftab_term(lines, cen):
    toks = []

    def add(t):
        if t not in toks:
            toks.append(t)

    for ln in lines:
        if len(ln) >= 2:
            add(ln[1])
            add(ln[1][3:])
            add(ln[-1])
    for ln in cen or []:
        if ln:
            add(ln[0])
            add(ln[0][3:])
            add(ln[-1])
    return L.lst(toks, lambda t: f"({L.chars(t)}, ({L.res(pyfloat(t), hexf)}, {L.res(pyint(t), L.z)}))")


def lines_term(lines):
    return L.lst(lines, lambda ln: L.lst(ln, L.chars))


def fmt_cm(x):
    return f"{x:.6f}".rstrip("0").rstrip(".") if x != int(x) else str(float(x))


def gen_strand(rng, chroms, small=False):
    out = []
    for c in chroms:
        k = int(rng.integers(1, 3 if small else 6))
        cm = 0.0
        for _ in range(k):
            cm = round(cm + float(rng.choice([0.25, 1.5, 20.003442, 87.107755, 0.000101])), 6)
            out.append([str(rng.choice(POPS)), c, str(int(rng.integers(1, 9999))), fmt_cm(cm)])
    return out


def gen_file(rng, malformed=False):
    """(lines, sample name, cen lines | None, kind)"""
    n = int(rng.integers(1, 5))
    names = [NAMES[i] for i in rng.choice(len(NAMES), size=n, replace=False)]
    cset = CHROM_SETS[int(rng.integers(0, len(CHROM_SETS)))]
    r = rng.random()
    if r < 0.3:
        name = names[0]
    elif r < 0.6:
        name = names[-1]
    elif r < 0.9:
        name = names[len(names) // 2]
    else:
        name = str(rng.choice(["absent", "Sample", "Sample_1_1", "_"]))
    lines = []
    for nm in names:
        small = nm != name and rng.random() < 0.8   # the other samples are kept short (literal size)
        k = int(rng.integers(1, (2 if small else len(cset)) + 1))
        chroms = cset[:k] if rng.random() < 0.7 else sorted(rng.choice(cset, size=k, replace=False).tolist(), key=cset.index)
        for t in (1, 2):
            lines.append([f"{nm}_{t}"])
            st = gen_strand(rng, chroms, small=small)
            if rng.random() < 0.25:  # last chromosome with exactly one block
                last = st[-1][1]
                first = next(i for i, b in enumerate(st) if b[1] == last)
                st = st[:first + 1]
            lines += st
    cen = None
    if rng.random() < 0.55:
        allc = ["1", "2", "3", "5", "7", "10", "21", "22", "X", "Y"]
        if rng.random() < 0.3:
            allc = ["chr" + c for c in allc]
        cen = []
        for c in allc:
            e = round(float(rng.choice([150.5, 293.379657656, 274.876631475, 62.5])) + int(rng.integers(0, 50)), 6)
            cen.append([c, "0.469", repr(e / 2), repr(e)] if rng.random() < 0.8 else [c, "0.1", repr(e)])
        if rng.random() < 0.15:
            cen.append([allc[0], "0.1", "5.5", "999.25"])  # repeated chromosome: the last line wins
    kind = "wellformed"
    if malformed:
        r = rng.random()
        j = int(rng.integers(0, len(lines) + 1))
        if r < 0.15:
            lines.insert(j, [])
            kind = "blank-line"
        elif r < 0.3:
            lines.insert(j, [str(rng.choice(["#comment", "Sample_3", "x", "_", "a_1_"]))])
            kind = "bad-header"
        elif r < 0.42:
            k = [i for i, ln in enumerate(lines) if len(ln) >= 2]
            i = int(rng.choice(k))
            lines[i] = [lines[i][0], str(rng.choice(["chrM", "chr", "c1", "1.0", "MT"]))] + lines[i][2:]
            kind = "bad-chrom"
        elif r < 0.54:
            k = [i for i, ln in enumerate(lines) if len(ln) >= 2]
            i = int(rng.choice(k))
            lines[i] = lines[i][:-1] + [str(rng.choice(["x", "", "1,5", "nan", "inf", "1e400", "1_0.5"])) or "x"]
            kind = "bad-cm"
        elif r < 0.64 and cen:
            cen = [ln for ln in cen if ln[0] not in ("1", "chr1", "X", "chrX")]
            kind = "ends-lack-chrom"
        elif r < 0.7 and cen:
            cen.insert(int(rng.integers(0, len(cen) + 1)), [])
            kind = "ends-blank-line"
        elif r < 0.8:
            # the sample has one strand only (its _2 header and lines removed)
            h = [i for i, ln in enumerate(lines) if ln == [f"{name}_2"]]
            if h:
                i = h[0]
                jn = i + 1
                while jn < len(lines) and len(lines[jn]) != 1:
                    jn += 1
                lines = lines[:i] + lines[jn:]
            kind = "one-strand"
        elif r < 0.88:
            # a strand of the sample without blocks
            h = [i for i, ln in enumerate(lines) if ln == [f"{name}_{int(rng.integers(1, 3))}"]]
            if h:
                i = h[0]
                jn = i + 1
                while jn < len(lines) and len(lines[jn]) != 1:
                    jn += 1
                lines = lines[:i + 1] + lines[jn:]
            kind = "empty-strand"
        elif r < 0.94:
            lines += [ln for ln in lines[: max(2, len(lines) // 2)]]
            kind = "repeated-sample"
        else:
            k = [i for i, ln in enumerate(lines) if len(ln) >= 2]
            i = int(rng.choice(k))
            lines[i] = lines[i][:2] if rng.random() < 0.5 else lines[i] + ["extra", lines[i][-1]]
            kind = "field-count"
    return {"lines": lines, "name": name, "cen": cen, "kind": kind, "sep": "\t" if rng.random() < 0.8 else " "}


def write_files(inp, d):
    bp = os.path.join(d, "in.bp")
    with open(bp, "w") as f:
        for ln in inp["lines"]:
            f.write(inp.get("sep", "\t").join(ln) + "\n")
    cen = None
    if inp["cen"] is not None:
        cen = os.path.join(d, "cen.txt")
        with open(cen, "w") as f:
            for ln in inp["cen"]:
                f.write("\t".join(ln) + "\n")
    return bp, cen


def sample_sections(inp):
    """the sample's strands as the file states them (lists of block lines), by header"""
    out = {}
    cur = None
    for ln in inp["lines"]:
        if len(ln) == 1:
            cur = ln[0]
            out.setdefault(cur, [])
        elif cur is not None and len(ln) >= 2:
            out[cur].append(ln)
    return out.get(inp["name"] + "_1"), out.get(inp["name"] + "_2")


def common_classes(inp):
    out = [inp["kind"], "ends-file" if inp["cen"] is not None else "no-ends-file"]
    hdr = [ln[0] for ln in inp["lines"] if len(ln) == 1]
    names = []
    for h in hdr:
        if h[:-2] not in names:
            names.append(h[:-2])
    nm = inp["name"]
    if nm not in names:
        out.append("sample:absent")
    elif len(names) == 1:
        out.append("sample:only")
    elif names[0] == nm:
        out.append("sample:first")
    elif names[-1] == nm:
        out.append("sample:last")
    else:
        out.append("sample:middle")
    if "_" in nm:
        out.append("sample:underscore-name")
    s1, s2 = sample_sections(inp)
    for s in (s1, s2):
        if s:
            last = s[-1][1]
            k = 0
            for b in reversed(s):
                if b[1] != last:
                    break
                k += 1
            out.append("last-chrom:one-block" if k == 1 else "last-chrom:several-blocks")
            out.append(f"chroms={len({b[1] for b in s})}")
            if any("X" in b[1] for b in s):
                out.append("chrom:X")
            if any(b[1].startswith("chr") for b in s):
                out.append("chrom:chr-prefix")
    return sorted(set(out))


def is_nontrivial(inp):
    s1, s2 = sample_sections(inp)
    for s in (s1, s2):
        if s and (len({b[1] for b in s}) >= 2 or len(s) >= 2):
            return True
    return False


def shrink_file(inp):
    ls = inp["lines"]
    # drop whole samples other than the drawn one
    hdr = [i for i, ln in enumerate(ls) if len(ln) == 1]
    for a in range(0, len(hdr), 2):
        i = hdr[a]
        j = hdr[a + 2] if a + 2 < len(hdr) else len(ls)
        if ls[i][0][:-2] != inp["name"]:
            yield dict(inp, lines=ls[:i] + ls[j:])
    for j in range(len(ls)):
        if len(ls[j]) != 1:
            yield dict(inp, lines=ls[:j] + ls[j + 1:])
    if inp["cen"] is not None:
        for j in range(len(inp["cen"])):
            yield dict(inp, cen=inp["cen"][:j] + inp["cen"][j + 1:])
    if inp.get("sep") != "\t":
        yield dict(inp, sep="\t")


class Blocks(Relation):
    name = "blocks"
    coq_module = "C18_Check"
    coq_check = "check_blocks"
    coq_case_type = "bcase"
    coq_model = "model_blocks"
    coq_imports = ["BpText", "C18_Model"]
    budget = {"quick": 700, "thorough": 8000}
    max_cases_per_shard = 50
    anchors = [("haptools/karyogram.py", "GetHaplotypeBlocks"), ("haptools/karyogram.py", "GetChrom")]

    def preamble(self):
        return "From Coq Require Import PrimFloat."

    def generate(self, rng, n, tier):
        return [gen_file(rng, malformed=rng.random() < 0.3) for _ in range(n)]

    def exhaustive(self, tier):
        # every chromosome layout of a strand of <= 4 blocks over 3 chromosomes (runs may repeat), x with/without ends
        import itertools

        out = []
        cen = [["1", "0", "100.5"], ["2", "0", "200.5"], ["3", "0", "300.5"]]
        for k in range(1, 5):
            for cs in itertools.product(["1", "2", "3"], repeat=k):
                st = [["YRI" if i % 2 else "CEU", c, "5", repr(1.5 * (i + 1))] for i, c in enumerate(cs)]
                lines = [["o_1"], ["CEU", "1", "5", "9.5"], ["o_2"], ["CEU", "1", "5", "9.5"], ["s_1"]] + st + [["s_2"]] + st[:1]
                for c in (cen, None):
                    out.append({"lines": lines, "name": "s", "cen": c, "kind": "exhaustive", "sep": "\t"})
        return out

    def run_impl(self, inp):
        from haptools.karyogram import GetHaplotypeBlocks

        d = tempfile.mkdtemp(prefix="hv_c18_")
        try:
            bp, cen = write_files(inp, d)
            try:
                sb = GetHaplotypeBlocks(bp, inp["name"], cen)
                return {"ok": [[[str(b["pop"]), int(b["chrom"]), float(b["start"]).hex(), float(b["end"]).hex()] for b in s]
                               for s in sb]}
            except BaseException as e:  # noqa  (SystemExit included)
                return {"err": err_kind(e), "cls": type(e).__name__, "msg": str(e)[:120]}
        finally:
            shutil.rmtree(d, ignore_errors=True)

    def _obs_term(self, obs):
        if "ok" not in obs and "err" not in obs:
            obs = {"err": obs.get("kind", 99)}
        blk = lambda b: f"(mkhb {L.chars(b[0])} {L.z(b[1])} {hexf(float.fromhex(b[2]))} {hexf(float.fromhex(b[3]))})"
        return L.res(obs, lambda sb: L.lst(sb, lambda s: L.lst(s, blk)))

    def encode(self, inp, obs):
        cen = L.opt(inp["cen"], lines_term)
        return (f"(mkb {L.chars(inp['name'])} {lines_term(inp['lines'])} {cen} {ftab_term(inp['lines'], inp['cen'])} "
                f"{self._obs_term(obs)})")

    def nontrivial(self, inp, obs):
        return is_nontrivial(inp)

    def classes(self, inp, obs):
        out = common_classes(inp)
        if isinstance(obs, dict) and ("err" in obs or "kind" in obs):
            out.append(f"err{obs.get('err', obs.get('kind'))}")
        return out

    def shrink(self, inp):
        return shrink_file(inp)

    def mutate(self, inp, rng):
        if inp["cen"] is None:
            yield dict(inp, cen=[[c, "0", "500.25"] for c in ("1", "2", "3", "5", "7", "10", "21", "22", "X", "Y")])
        else:
            yield dict(inp, cen=None)

    def signature(self, inp, obs):
        s1, s2 = sample_sections(inp)
        if "err" in obs or "kind" in obs:
            return f"GetHaplotypeBlocks raises {obs.get('cls', obs.get('__exc__', '?'))} ends-file={inp['cen'] is not None}"
        if s1 is None and s2 is None:
            return "GetHaplotypeBlocks returns blocks for an absent sample"
        if inp["cen"] is not None:
            return "GetHaplotypeBlocks chromosome-end extension"
        return "GetHaplotypeBlocks blocks of the sample"


class Plot(Relation):
    name = "plot"
    coq_module = "C18_Check"
    coq_check = "check_plot"
    coq_case_type = "pcase"
    coq_model = "model_plot"
    coq_imports = ["BpText", "C18_Model"]
    budget = {"quick": 60, "thorough": 600}
    max_cases_per_shard = 20
    timeout_per_case = 180
    anchors = [("haptools/karyogram.py", "PlotKaryogram"), ("haptools/karyogram.py", "PlotHaplotypeBlock"),
               ("haptools/karyogram.py", "GetHaplotypeBlocks")]

    def preamble(self):
        return "From Coq Require Import PrimFloat."

    def generate(self, rng, n, tier):
        out = []
        while len(out) < n:
            inp = gen_file(rng, malformed=False)
            r = rng.random()
            if r < 0.1:
                # one strand only: PlotKaryogram runs into sample_blocks[1]
                h = [i for i, ln in enumerate(inp["lines"]) if ln == [inp["name"] + "_2"]]
                if h and h[0] + 1 < len(inp["lines"]):
                    jn = h[0] + 1
                    while jn < len(inp["lines"]) and len(inp["lines"][jn]) != 1:
                        jn += 1
                    inp["lines"] = inp["lines"][:h[0]] + inp["lines"][jn:]
                    inp["kind"] = "one-strand"
            inp["colors"] = "default" if rng.random() < 0.3 else "given"
            out.append(inp)
        return out

    def run_impl(self, inp):
        import logging

        import matplotlib

        matplotlib.use("Agg")
        import matplotlib.colors as mcolors
        import matplotlib.pyplot as plt
        from haptools.karyogram import PlotKaryogram

        d = tempfile.mkdtemp(prefix="hv_c18_")
        plt.close("all")
        try:
            bp, cen = write_files(inp, d)
            log = logging.getLogger("hv_c18")
            log.setLevel(logging.CRITICAL + 1)
            colors = None if inp.get("colors") == "default" else dict(COLORS)
            try:
                PlotKaryogram(bp, inp["name"], os.path.join(d, "out.png"), log, centromeres_file=cen, colors=colors)
            except BaseException as e:  # noqa  (SystemExit included)
                return {"err": err_kind(e), "cls": type(e).__name__, "msg": str(e)[:160]}
            figs = plt.get_fignums()
            if len(figs) != 1:
                return {"unobserved": f"{len(figs)} figures"}
            ax = plt.figure(figs[0]).axes[0]
            leg = ax.get_legend()
            key = {}
            if leg is not None:
                for patch, text in zip(leg.get_patches(), leg.get_texts()):
                    key[tuple(round(float(x), 6) for x in mcolors.to_rgba(patch.get_facecolor()))] = text.get_text()
            rects = []
            for col in ax.collections:
                paths = col.get_paths()
                fc = col.get_facecolor()
                if len(paths) != 1 or len(fc) != 1:
                    return {"unobserved": "collection with several paths"}
                lab = key.get(tuple(round(float(x), 6) for x in fc[0]), "?")
                rects.append([lab, [[float(x).hex(), float(y).hex()] for x, y in paths[0].vertices.tolist()]])
            return {"ok": rects, "patches": len(ax.patches)}
        finally:
            plt.close("all")
            shutil.rmtree(d, ignore_errors=True)

    def encode(self, inp, obs):
        if "unobserved" in obs:
            o = "(Err 97)"
        elif "ok" in obs:
            vt = lambda v: f"({hexf(float.fromhex(v[0]))}, {hexf(float.fromhex(v[1]))})"
            o = "(Ok " + L.lst(obs["ok"], lambda r: f"({L.chars(r[0])}, {L.lst(r[1], vt)})") + ")"
        else:
            o = f"(Err {L.z(obs.get('err', obs.get('kind', 99)))})"
        cen = L.opt(inp["cen"], lines_term)
        return (f"(mkp {L.chars(inp['name'])} {lines_term(inp['lines'])} {cen} {ftab_term(inp['lines'], inp['cen'])} {o})")

    def nontrivial(self, inp, obs):
        return is_nontrivial(inp)

    def classes(self, inp, obs):
        out = common_classes(inp) + [f"colors:{inp.get('colors')}"]
        if isinstance(obs, dict) and ("err" in obs or "kind" in obs):
            out.append(f"err{obs.get('err', obs.get('kind'))}")
        return out

    def shrink(self, inp):
        return shrink_file(inp)

    def mutate(self, inp, rng):
        yield dict(inp, colors="given" if inp.get("colors") == "default" else "default")

    def signature(self, inp, obs):
        s1, s2 = sample_sections(inp)
        present = s1 is not None or s2 is not None
        if "err" in obs or "kind" in obs:
            return (f"PlotKaryogram raises {obs.get('cls', obs.get('__exc__', '?'))} sample-present={present} "
                    f"colors={inp.get('colors')}")
        if not present:
            return "PlotKaryogram draws an absent sample"
        if inp["cen"] is not None:
            return "PlotKaryogram rectangles with chromosome-end extension"
        return "PlotKaryogram rectangles of the sample"


RELATIONS = [Blocks(), Plot()]

LEVEL_TEXT = (
    "Coq theorems over all token files, sample names and chromosome-end tables (no size bound) about a Gallina model of "
    "GetChrom/GetHaplotypeBlocks (framing state machine, start rule, extension pass) and PlotHaplotypeBlock's rectangle; "
    "the model is tied to the code on every run by evaluating, inside Coq with bit-exact PrimFloat arithmetic, "
    "model-vs-implementation agreement and the property's finite checker on generated files, for GetHaplotypeBlocks' "
    "return value and for the PathCollections PlotKaryogram leaves on the matplotlib axes (Agg)."
)
LEVEL_NOTE = (
    "Partial: matplotlib (vertices/face colours kept as given), Python's float()/int() and str.split() are contracts, "
    "not theorems; GetCentromereClipMask, colours and the legend are not modelled (the harness reads the legend to name "
    "a rectangle's label). Theorems treat x + 0.0001 as an abstract function; the correspondence evaluates it with PrimFloat."
)
TECHNIQUE = "Coq proof by induction on line/block lists + vm_compute-evaluated correspondence (PrimFloat) against the implementation"
