"""C18 - the karyogram draws exactly the sample's blocks from the breakpoints file.

Relations (haptools/karyogram.py)
  blocks : GetHaplotypeBlocks(bp, sample, chromosome-ends file | None), result compared block by block
           (label, numeric chromosome, start and end as binary64 bit patterns)
  plot   : PlotKaryogram on the Agg backend; the PathCollections found on the axes afterwards
           (vertices, and the label the legend gives to their face colour)
  tv_blocks : the blocks cases again, with GetChrom / GetHaplotypeBlocks interpreted from the MiniPy syntax regenerated
           from the current source (translation validation: coq/translated/TVM_C18.v, TV_C18.v)
"""
import os
import shutil
import tempfile

import numpy as np

from . import coqlit as L
from .core import Relation, err_kind

PROP = "C18"
CLAIMED = True
COQ_MODULES = ["C18_Check", "C18_Proofs", "C18_ProofsOrder", "C18_ProofsCheck"]
PROPERTY_MODULE = "C18_Property"
# Coq's primitive binary64 type and operations are printed by Print Assumptions under "Axioms:" for the
# checker-soundness theorems (the checker compares floats); they are kernel primitives, not axioms of this development
ALLOWED_AXIOMS = ["PrimFloat.float", "PrimFloat.leb", "PrimFloat.eqb", "PrimFloat.add", "PrimFloat.abs",
                  "PrimFloat.is_nan", "PrimFloat.is_infinity", "PrimFloat.ltb", "PrimFloat.sub", "PrimFloat.mul",
                  "PrimFloat.of_uint63", "Uint63.int", "PrimInt63.int"]
# Translation validation: GetChrom and the whole of GetHaplotypeBlocks are regenerated from the current source on every
# run (harness/pytrans.py -> HVG.Gen_Karyogram) and proved equal to C18_Model (coq/translated/TV_C18.v).
TRANSLATION = {
    "spec": {
        "module": "Gen_Karyogram",
        # string literals by their code points (VText): ==, len, slices and `"X" in chrom` are interpreted
        "text": True,
        # methods of built-in values that are NOT interpreted: Section variables extm_* (any function of receiver and
        # arguments); their contracts are the hypotheses of the TV_* theorems (= the pieces of BpText the model uses)
        "ext_methods": ["strip", "split", "join", "endswith", "startswith"],
        # int(token) / float(token): extb_int / extb_float (the model's parse_int / parse_flt)
        "ext_builtins": ["int", "float"],
        # the file system: extc_os_path_exists, extc_open (what iterating over the open file yields)
        "ext_dotted": ["os.path.exists", "open"],
        "with_open": True,
        # x + 0.0001: binary64 addition is the Section variable fadd (the model's plus_eps)
        "float_add": True,
        "exit_calls": ["sys.exit"],               # SystemExit = Err 10
        "ignore_calls": ["sys.stderr.write"],     # the message before sys.exit(1)
        "allow_defaults": True,                   # centromeres_file=None
        "rhs_first_stores": True,                 # chrom_ends[GetChrom(..)] = float(..): float() is evaluated first
        "functions": [("haptools/karyogram.py", "GetChrom"), ("haptools/karyogram.py", "GetHaplotypeBlocks")],
    },
    "models": ["TVM_C18"],
    "proofs": ["TV_C18"],
}
RULE = (
    "generated .bp files: 1-4 samples, the drawn sample first / in the middle / last / absent (absent names are near "
    "misses of present ones: a prefix, a suffixed form, with an underscore more or less); sample IDs from lexical pools: "
    "alphanumeric with underscores, all digits, digit groups joined by underscores, IDs Python's float() accepts or nearly "
    "accepts (1e5, 1_000, nan, inf, -3, .5), IDs equal to population labels, families of IDs that are prefixes / suffixes / "
    "suffixed forms of one another; 1-5 chromosomes incl. X, Y and chr-prefixed names, 1-5 blocks per chromosome with cM "
    "steps down to 0.00005, the last chromosome with one or several blocks, tab or blank separated, with and without a "
    "chromosome-ends file (complete, with repeated lines, lacking a chromosome, listed ends below the last recorded end); "
    "shapes at the edge of the quantifier: <name>_2 before <name>_1, a chromosome recurring non-adjacently in a strand; "
    "malformed stream: blank lines, bad headers, unparsable chromosome or cM tokens, a sample with one strand, a strand "
    "without blocks, a repeated sample. Non-trivial = the sample is present and one of its strands has >= 2 blocks on its "
    "last chromosome or >= 2 chromosomes. Distinct = distinct canonical JSON."
)
TRUSTED = [
    "Python float()/int() on tokens are codec tables recorded per case (theorems: Section variables)",
    "binary64 addition of 0.0001 is Coq's PrimFloat.add (bit-exact); in the theorems plus_eps is an abstract function",
    "str.strip().split() is done by the harness (lines are handed to the model as token lists)",
    "matplotlib keeps the vertices and face colours it is given (read back from ax.collections and the legend)",
    "translation validation: harness/pytrans.py (the emitted MiniPy term is the function's syntax) and the interpreter "
    "coq/theories/MiniPy.v; the Python string methods strip/split/join/startswith/endswith, int(), float(), "
    "x + 0.0001, os.path.exists and open() are uninterpreted functions whose contracts are the hypotheses of the TV_* "
    "theorems (BpText.starts_with / ends_with, split_on / join_with, int() returns an int, float() returns a value to "
    "which 0.0001 can be added, open() yields the lines); tv_blocks evaluates the translated code with the BpText "
    "functions and the recorded codecs against the real function on every run",
]
ASSUMPTIONS = [
    "holds is demanded for files whose one-token lines pair up as <name>_1, <name>_2 (in either order) with distinct names "
    "and whose other lines have >= 2 tokens with parsable chromosome and finite cM end; with an ends file: every chromosome "
    "of the sample listed, both strands non-empty. For such a file and a sample whose two headers are in it the answer must "
    "be Ok with exactly two strands, each exactly the corresponding section (as many blocks as lines, same order, labels, "
    "chromosomes; start rule; ends); an exception or an empty answer is a violation. For a name no header carries the "
    "answer must be Ok [] (GetHaplotypeBlocks) / an error (PlotKaryogram).",
    "<name>_2 before <name>_1: the statement fixes 'file order', so strand 0 must be the section whose header comes first "
    "(that of <name>_2) and strand 1 the other; nothing is demanded about which strand is 'the first copy'.",
    "a chromosome recurring non-adjacently in a strand (1, 2, 1) is outside the statement's quantifier ('per chromosome "
    "contiguous' presupposes that the lines of a chromosome form one run; haptools writes them so). For that shape holds "
    "still demands number, order, labels, chromosomes, the start rule per run, and the recorded end of every block that is "
    "not the last of its run; the last block of a run whose chromosome comes back later may carry its recorded end or the "
    "listed end (the text's 'last block of every chromosome' is the last run's last block; the code extends every run), "
    "the last block of the chromosome's final run must carry the listed end. Disjointness is demanded within runs only.",
    "a listed chromosome end below the recorded end of the block it replaces: the text says the last block 'is extended to "
    "that chromosome's listed end', so holds demands end = listed end even then; start <= end and disjointness "
    "(nonoverlap_ok) are demanded only when within every run of the sample's section the recorded ends increase by at "
    "least the 0.0001 the code adds (first end >= 0.0001; x < x + 0.0001 <= next end, in binary64) and every listed end "
    "is >= the recorded end it replaces - otherwise no file-respecting answer can be non-overlapping.",
    "contiguity tolerance in holds: a block starts within [previous file end, previous file end + 0.001] (the code adds "
    "0.0001); non-overlap is non-strict in holds (a block may start exactly where the previous one ended), strict in the "
    "theorem about the model (x < plus_eps x).",
]

POPS = ["YRI", "CEU", "ASW", "AMR", "p_1"]
NAMES = ["Sample_1", "Sample_2", "HG00096", "a_b_c", "x", "NA_2_1", "s", "Sample_10"]
CHROM_SETS = [["1", "2", "3", "X"], ["chr1", "chr2", "chr10", "chrX"], ["1", "chr2", "22", "X", "Y"], ["2", "5", "21"],
              ["chr01", "7", "chrY"]]
COLORS = {"YRI": "red", "CEU": "blue", "ASW": "green", "AMR": "orange", "p_1": "purple"}


def hexf(x):
    return L.hexfloat(x)


def pyfloat(tok):
    try:
        return {"ok": float(tok)}
    except ValueError:
        return {"err": 1}


def pyint(tok):
    try:
        return {"ok": int(tok)}
    except ValueError:
        return {"err": 1}


def ftab_term(lines, cen):
    toks = []

    def add(t):
        if t not in toks:
            toks.append(t)

    for ln in lines:
        if len(ln) >= 2:
            add(ln[1])
            add(ln[1][3:])
            add(ln[-1])
    for ln in cen or []:
        if ln:
            add(ln[0])
            add(ln[0][3:])
            add(ln[-1])
    return L.lst(toks, lambda t: f"({L.chars(t)}, ({L.res(pyfloat(t), hexf)}, {L.res(pyint(t), L.z)}))")


def lines_term(lines):
    return L.lst(lines, lambda ln: L.lst(ln, L.chars))


def fmt_cm(x):
    return f"{x:.6f}".rstrip("0").rstrip(".") if x != int(x) else str(float(x))


# sample IDs whose strand headers Python's float() would accept or nearly accept (PEP 515 underscores between digits:
# float("12_7_1") == 1271.0, float("1e5_1") == 1e51), IDs that are float words, IDs equal to population labels, and
# families of IDs that are prefixes / suffixes / suffixed forms of one another
NUMERIC_NAMES = ["1000012", "12_7", "7", "007", "42", "3_14", "1e5", "1_000", "1.5", "-3", "+4", ".5", "5.", "1e-3", "0", "1_"]
WORD_NAMES = ["nan", "inf", "Infinity", "NaN", "0x1F", "e5", "1e"]
POP_NAMES = ["YRI", "CEU", "p", "AMR"]          # "p": its header p_1 is also a population label
FAMILIES = [["Sample", "Sample_1", "Sample_1_1", "ample_1", "Sample_10", "Sam"],
            ["12", "12_7", "2_7", "12_7_1", "112_7", "7"],
            ["x", "x_x", "_x", "x_", "_"],
            ["1", "1_1", "1_2", "2", "2_1"]]
ALL_NAMES = sorted(set(NAMES + NUMERIC_NAMES + WORD_NAMES + POP_NAMES + [n for f in FAMILIES for n in f]))


def gen_strand(rng, chroms, small=False):
    out = []
    for c in chroms:
        k = int(rng.integers(1, 3 if small else 6))
        cm = 0.0
        for _ in range(k):
            cm = round(cm + float(rng.choice([0.25, 1.5, 20.003442, 87.107755, 0.000101, 0.0001, 0.00005])), 6)
            out.append([str(rng.choice(POPS)), c, str(int(rng.integers(1, 9999))), fmt_cm(cm)])
    return out


def pick_names(rng, n):
    r = rng.random()
    if r < 0.3:
        pool = NAMES
    elif r < 0.5:
        pool = NUMERIC_NAMES
    elif r < 0.62:
        pool = NUMERIC_NAMES + NAMES          # numeric and non-numeric neighbours
    elif r < 0.72:
        pool = WORD_NAMES + NUMERIC_NAMES[:6] + NAMES[:3]
    elif r < 0.8:
        pool = POP_NAMES + NAMES[:3] + NUMERIC_NAMES[:3]
    elif r < 0.95:
        pool = FAMILIES[int(rng.integers(0, len(FAMILIES)))]
    else:
        pool = ALL_NAMES
    n = min(n, len(pool))
    return [pool[i] for i in rng.choice(len(pool), size=n, replace=False)]


def near_misses(names):
    out = ["absent"]
    for nm in names:
        out += [nm + "_1", nm + "_2", nm + "_", nm[:-1], nm[1:], "_".join(nm.split("_")[:-1]), nm + "0", "0" + nm, nm.replace("_", "")]
    return [x for x in out if x and x not in names]


def gen_file(rng, malformed=False):
    """(lines, sample name, cen lines | None, kind)"""
    n = int(rng.integers(1, 5))
    names = pick_names(rng, n)
    cset = CHROM_SETS[int(rng.integers(0, len(CHROM_SETS)))]
    r = rng.random()
    if r < 0.3:
        name = names[0]
    elif r < 0.6:
        name = names[-1]
    elif r < 0.9:
        name = names[len(names) // 2]
    else:
        nm = near_misses(names) + ["Sample", "Sample_1_1", "_"]
        name = str(nm[int(rng.integers(0, len(nm)))])
    shape = []
    lines = []
    for nm in names:
        small = nm != name and rng.random() < 0.8   # the other samples are kept short (literal size)
        k = int(rng.integers(1, (2 if small else len(cset)) + 1))
        chroms = cset[:k] if rng.random() < 0.7 else sorted(rng.choice(cset, size=k, replace=False).tolist(), key=cset.index)
        if not malformed and k >= 2 and rng.random() < (0.1 if nm == name else 0.03):
            # a chromosome recurring non-adjacently in the strand (outside the property's quantifier; see ASSUMPTIONS)
            chroms = chroms + [chroms[int(rng.integers(0, k - 1))]]
            shape.append("recurring-chrom")
        strands = []
        for t in (1, 2):
            st = gen_strand(rng, chroms, small=small)
            if rng.random() < 0.25:  # last chromosome with exactly one block
                last = len(st) - 1
                while last > 0 and st[last - 1][1] == st[-1][1]:
                    last -= 1
                st = st[:last + 1]
            strands.append((t, st))
        if not malformed and rng.random() < (0.1 if nm == name else 0.03):
            strands.reverse()   # <name>_2 before <name>_1
            shape.append("swapped-headers")
        for t, st in strands:
            lines.append([f"{nm}_{t}"])
            lines += st
    cen = None
    if rng.random() < 0.55:
        # the chromosomes of this file's set and two others (a full table only costs literal size)
        allc = [c[3:] if c.startswith("chr") else c for c in cset]
        allc += [str(x) for x in rng.choice(["1", "2", "3", "5", "7", "10", "21", "22", "X", "Y"], size=2, replace=False)]
        allc = list(dict.fromkeys(allc))
        if rng.random() < 0.3:
            allc = ["chr" + c for c in allc]
        low = rng.random() < 0.15   # listed ends below the recorded end of the chromosome's last block
        cen = []
        for c in allc:
            e = round(float(rng.choice([150.5, 293.379657656, 274.876631475, 62.5])) + int(rng.integers(0, 50)), 6)
            if low and rng.random() < 0.7:
                e = float(rng.choice([0.00005, 0.25, 1.5, 20.0]))
            if rng.random() < 0.15:
                e = 500.0 + int(rng.integers(0, 50))   # surely above every recorded end
            cen.append([c, "0.4", "9.5", repr(e)] if rng.random() < 0.8 else [c, "0.1", repr(e)])
        if rng.random() < 0.15:
            cen.append([allc[0], "0.1", "5.5", "999.25"])  # repeated chromosome: the last line wins
        if low:
            shape.append("ends-low")
    kind = "wellformed"
    if malformed:
        r = rng.random()
        j = int(rng.integers(0, len(lines) + 1))
        if r < 0.15:
            lines.insert(j, [])
            kind = "blank-line"
        elif r < 0.3:
            lines.insert(j, [str(rng.choice(["#comment", "Sample_3", "x", "_", "a_1_"]))])
            kind = "bad-header"
        elif r < 0.42:
            k = [i for i, ln in enumerate(lines) if len(ln) >= 2]
            i = int(rng.choice(k))
            lines[i] = [lines[i][0], str(rng.choice(["chrM", "chr", "c1", "1.0", "MT"]))] + lines[i][2:]
            kind = "bad-chrom"
        elif r < 0.54:
            k = [i for i, ln in enumerate(lines) if len(ln) >= 2]
            i = int(rng.choice(k))
            lines[i] = lines[i][:-1] + [str(rng.choice(["x", "", "1,5", "nan", "inf", "1e400", "1_0.5"])) or "x"]
            kind = "bad-cm"
        elif r < 0.64 and cen:
            gone = {c[3:] if c.startswith("chr") else c for c in (cset[0], "X")}
            cen = [ln for ln in cen if (ln[0][3:] if ln[0].startswith("chr") else ln[0]) not in gone]
            kind = "ends-lack-chrom"
        elif r < 0.7 and cen:
            cen.insert(int(rng.integers(0, len(cen) + 1)), [])
            kind = "ends-blank-line"
        elif r < 0.8:
            # the sample has one strand only (its _2 header and lines removed)
            h = [i for i, ln in enumerate(lines) if ln == [f"{name}_2"]]
            if h:
                i = h[0]
                jn = i + 1
                while jn < len(lines) and len(lines[jn]) != 1:
                    jn += 1
                lines = lines[:i] + lines[jn:]
            kind = "one-strand"
        elif r < 0.88:
            # a strand of the sample without blocks
            h = [i for i, ln in enumerate(lines) if ln == [f"{name}_{int(rng.integers(1, 3))}"]]
            if h:
                i = h[0]
                jn = i + 1
                while jn < len(lines) and len(lines[jn]) != 1:
                    jn += 1
                lines = lines[:i + 1] + lines[jn:]
            kind = "empty-strand"
        elif r < 0.94:
            lines += [ln for ln in lines[: max(2, len(lines) // 2)]]
            kind = "repeated-sample"
        else:
            k = [i for i, ln in enumerate(lines) if len(ln) >= 2]
            i = int(rng.choice(k))
            lines[i] = lines[i][:2] if rng.random() < 0.5 else lines[i] + ["extra", lines[i][-1]]
            kind = "field-count"
    return {"lines": lines, "name": name, "cen": cen, "kind": kind, "shape": sorted(set(shape)),
            "sep": "\t" if rng.random() < 0.8 else " "}


def rename_sample(inp, old, new):
    """the same file with sample [old] called [new] (headers only; the drawn name follows)"""
    hdrs = {old + "_1": new + "_1", old + "_2": new + "_2"}
    if any(ln == [new + "_1"] or ln == [new + "_2"] for ln in inp["lines"]):
        return None
    lines = [[hdrs.get(ln[0], ln[0])] if len(ln) == 1 else ln for ln in inp["lines"]]
    return dict(inp, lines=lines, name=new if inp["name"] == old else inp["name"])


def header_names(inp):
    names = []
    for ln in inp["lines"]:
        if len(ln) == 1 and (ln[0].endswith("_1") or ln[0].endswith("_2")) and ln[0][:-2] not in names:
            names.append(ln[0][:-2])
    return names


def name_variants(inp, rng):
    """boundary-directed variants of a file: the drawn sample, or one of its neighbours, renamed to IDs of the other
    lexical classes (digits, digit groups, float words, population labels, prefixes / suffixes of the other names)"""
    names = header_names(inp)
    names.sort(key=lambda o: o != inp["name"])   # the drawn sample's variants first
    for old in names:
        pool = NUMERIC_NAMES[:6] + WORD_NAMES[:2] + POP_NAMES[:2] + ["Sample_1"] if old == inp["name"] else ["7", "3_14", "x"]
        pool = pool + [o + "_1" for o in names if o != old][:2] + [o[:-1] for o in names if o != old and len(o) > 1][:1]
        for new in pool:
            v = rename_sample(inp, old, new)
            if v is not None and new != old:
                yield v


def write_files(inp, d):
    bp = os.path.join(d, "in.bp")
    with open(bp, "w") as f:
        for ln in inp["lines"]:
            f.write(inp.get("sep", "\t").join(ln) + "\n")
    cen = None
    if inp["cen"] is not None:
        cen = os.path.join(d, "cen.txt")
        with open(cen, "w") as f:
            for ln in inp["cen"]:
                f.write("\t".join(ln) + "\n")
    return bp, cen


def sample_sections(inp):
    """the sample's strands as the file states them (lists of block lines), by header"""
    out = {}
    cur = None
    for ln in inp["lines"]:
        if len(ln) == 1:
            cur = ln[0]
            out.setdefault(cur, [])
        elif cur is not None and len(ln) >= 2:
            out[cur].append(ln)
    return out.get(inp["name"] + "_1"), out.get(inp["name"] + "_2")


def name_classes(nm, names):
    out = []
    if nm.isdigit():
        out.append("name:all-digits")
    elif nm.replace("_", "").isdigit():
        out.append("name:digits-underscores")
    elif "ok" in pyfloat(nm):
        out.append("name:float()-accepts-it")
    if nm in POPS or nm + "_1" in POPS:
        out.append("name:population-label")
    others = [o for o in names if o != nm]
    if any(o.startswith(nm) for o in others):
        out.append("name:prefix-of-another")
    if any(o.endswith(nm) for o in others):
        out.append("name:suffix-of-another")
    if any(nm.startswith(o) or nm.endswith(o) for o in others):
        out.append("name:extends-another")
    return out


def common_classes(inp):
    out = [inp["kind"], "ends-file" if inp["cen"] is not None else "no-ends-file"]
    hdr = [ln[0] for ln in inp["lines"] if len(ln) == 1]
    names = []
    for h in hdr:
        if h[:-2] not in names:
            names.append(h[:-2])
    nm = inp["name"]
    if nm not in names:
        out.append("sample:absent")
    elif len(names) == 1:
        out.append("sample:only")
    elif names[0] == nm:
        out.append("sample:first")
    elif names[-1] == nm:
        out.append("sample:last")
    else:
        out.append("sample:middle")
    if "_" in nm:
        out.append("sample:underscore-name")
    out += name_classes(nm, names)
    if any("ok" in pyfloat(h) for h in hdr):
        out.append("header:float()-accepts-it")
    for sh in inp.get("shape", []):
        out.append("shape:" + sh)
    s1, s2 = sample_sections(inp)
    for s in (s1, s2):
        if s:
            last = s[-1][1]
            k = 0
            for b in reversed(s):
                if b[1] != last:
                    break
                k += 1
            out.append("last-chrom:one-block" if k == 1 else "last-chrom:several-blocks")
            out.append(f"chroms={len({b[1] for b in s})}")
            if any("X" in b[1] for b in s):
                out.append("chrom:X")
            if any(b[1].startswith("chr") for b in s):
                out.append("chrom:chr-prefix")
    return sorted(set(out))


def is_nontrivial(inp):
    s1, s2 = sample_sections(inp)
    for s in (s1, s2):
        if s and (len({b[1] for b in s}) >= 2 or len(s) >= 2):
            return True
    return False


def shrink_file(inp):
    ls = inp["lines"]
    # drop whole samples other than the drawn one
    hdr = [i for i, ln in enumerate(ls) if len(ln) == 1]
    for a in range(0, len(hdr), 2):
        i = hdr[a]
        j = hdr[a + 2] if a + 2 < len(hdr) else len(ls)
        if ls[i][0][:-2] != inp["name"]:
            yield dict(inp, lines=ls[:i] + ls[j:])
    for j in range(len(ls)):
        if len(ls[j]) != 1:
            yield dict(inp, lines=ls[:j] + ls[j + 1:])
    if inp["cen"] is not None:
        for j in range(len(inp["cen"])):
            yield dict(inp, cen=inp["cen"][:j] + inp["cen"][j + 1:])
    if inp.get("sep") != "\t":
        yield dict(inp, sep="\t")


def names_exhaustive():
    """every sample ID of the lexical pools x position in a three-sample file (first / middle / last) x the kind of its
    neighbours (alphabetic, all-digit) x header order; two one-block strands each"""
    out = []
    blk = lambda i: ["YRI" if i % 2 else "CEU", "1", "5", repr(1.5 + i)]
    for nm in ALL_NAMES:
        for others in (["o", "q"], ["77", "5_6"]):
            if nm in others:
                continue
            for pos in range(3):
                names = list(others)
                names.insert(pos, nm)
                lines = []
                for j, n in enumerate(names):
                    lines += [[n + "_1"], blk(j), [n + "_2"], blk(j + 1), blk(j + 2)]
                out.append({"lines": lines, "name": nm, "cen": None, "kind": "exhaustive-names", "sep": "\t"})
    return out


class Blocks(Relation):
    name = "blocks"
    coq_module = "C18_Check"
    coq_check = "check_blocks"
    coq_case_type = "bcase"
    coq_model = "model_blocks"
    coq_imports = ["BpText", "C18_Model"]
    budget = {"quick": 520, "thorough": 5000}
    max_cases_per_shard = 50
    anchors = [("haptools/karyogram.py", "GetHaplotypeBlocks"), ("haptools/karyogram.py", "GetChrom")]

    def preamble(self):
        return "From Coq Require Import PrimFloat."

    def generate(self, rng, n, tier):
        return [gen_file(rng, malformed=rng.random() < 0.3) for _ in range(n)]

    def exhaustive(self, tier):
        # every chromosome layout of a strand of <= 4 blocks over 3 chromosomes (runs may repeat), x with/without ends
        import itertools

        out = []
        cen = [["1", "0", "100.5"], ["2", "0", "200.5"], ["3", "0", "300.5"]]
        for k in range(1, 5):
            for cs in itertools.product(["1", "2", "3"], repeat=k):
                st = [["YRI" if i % 2 else "CEU", c, "5", repr(1.5 * (i + 1))] for i, c in enumerate(cs)]
                lines = [["o_1"], ["CEU", "1", "5", "9.5"], ["o_2"], ["CEU", "1", "5", "9.5"], ["s_1"]] + st + [["s_2"]] + st[:1]
                for c in (cen, None):
                    out.append({"lines": lines, "name": "s", "cen": c, "kind": "exhaustive", "sep": "\t"})
        out += names_exhaustive()
        return out

    def run_impl(self, inp):
        from haptools.karyogram import GetHaplotypeBlocks

        d = tempfile.mkdtemp(prefix="hv_c18_")
        try:
            bp, cen = write_files(inp, d)
            try:
                sb = GetHaplotypeBlocks(bp, inp["name"], cen)
                return {"ok": [[[str(b["pop"]), int(b["chrom"]), float(b["start"]).hex(), float(b["end"]).hex()] for b in s]
                               for s in sb]}
            except BaseException as e:  # noqa  (SystemExit included)
                return {"err": err_kind(e), "cls": type(e).__name__, "msg": str(e)[:120]}
        finally:
            shutil.rmtree(d, ignore_errors=True)

    def _obs_term(self, obs):
        if "ok" not in obs and "err" not in obs:
            obs = {"err": obs.get("kind", 99)}
        blk = lambda b: f"(mkhb {L.chars(b[0])} {L.z(b[1])} {hexf(float.fromhex(b[2]))} {hexf(float.fromhex(b[3]))})"
        return L.res(obs, lambda sb: L.lst(sb, lambda s: L.lst(s, blk)))

    def encode(self, inp, obs):
        cen = L.opt(inp["cen"], lines_term)
        return (f"(mkb {L.chars(inp['name'])} {lines_term(inp['lines'])} {cen} {ftab_term(inp['lines'], inp['cen'])} "
                f"{self._obs_term(obs)})")

    def nontrivial(self, inp, obs):
        return is_nontrivial(inp)

    def classes(self, inp, obs):
        out = common_classes(inp)
        if isinstance(obs, dict) and ("err" in obs or "kind" in obs):
            out.append(f"err{obs.get('err', obs.get('kind'))}")
        return out

    def shrink(self, inp):
        return shrink_file(inp)

    def mutate(self, inp, rng):
        if inp["cen"] is None:
            yield dict(inp, cen=[[c, "0", "500.25"] for c in ("1", "2", "3", "5", "7", "10", "21", "22", "X", "Y")])
        else:
            yield dict(inp, cen=None)
        yield from list(name_variants(inp, rng))[:14]

    def signature(self, inp, obs):
        s1, s2 = sample_sections(inp)
        if "err" in obs or "kind" in obs:
            return f"GetHaplotypeBlocks raises {obs.get('cls', obs.get('__exc__', '?'))} ends-file={inp['cen'] is not None}"
        if s1 is None and s2 is None:
            return "GetHaplotypeBlocks returns blocks for an absent sample"
        if s1 is not None and s2 is not None and len(obs.get("ok", [])) != 2:
            return f"GetHaplotypeBlocks returns {len(obs.get('ok', []))} strands for a sample whose two headers are in the file"
        if inp["cen"] is not None:
            return "GetHaplotypeBlocks chromosome-end extension"
        return "GetHaplotypeBlocks blocks of the sample"


class Plot(Relation):
    name = "plot"
    coq_module = "C18_Check"
    coq_check = "check_plot"
    coq_case_type = "pcase"
    coq_model = "model_plot"
    coq_imports = ["BpText", "C18_Model"]
    budget = {"quick": 40, "thorough": 300}
    max_cases_per_shard = 20
    timeout_per_case = 180
    anchors = [("haptools/karyogram.py", "PlotKaryogram"), ("haptools/karyogram.py", "PlotHaplotypeBlock"),
               ("haptools/karyogram.py", "GetHaplotypeBlocks")]

    def preamble(self):
        return "From Coq Require Import PrimFloat."

    def generate(self, rng, n, tier):
        out = []
        while len(out) < n:
            inp = gen_file(rng, malformed=False)
            r = rng.random()
            if r < 0.1:
                # one strand only: PlotKaryogram runs into sample_blocks[1]
                h = [i for i, ln in enumerate(inp["lines"]) if ln == [inp["name"] + "_2"]]
                if h and h[0] + 1 < len(inp["lines"]):
                    jn = h[0] + 1
                    while jn < len(inp["lines"]) and len(inp["lines"][jn]) != 1:
                        jn += 1
                    inp["lines"] = inp["lines"][:h[0]] + inp["lines"][jn:]
                    inp["kind"] = "one-strand"
            inp["colors"] = "default" if rng.random() < 0.3 else "given"
            out.append(inp)
        return out

    def run_impl(self, inp):
        import logging

        import matplotlib

        matplotlib.use("Agg")
        import matplotlib.colors as mcolors
        import matplotlib.pyplot as plt
        from haptools.karyogram import PlotKaryogram

        d = tempfile.mkdtemp(prefix="hv_c18_")
        plt.close("all")
        try:
            bp, cen = write_files(inp, d)
            log = logging.getLogger("hv_c18")
            log.setLevel(logging.CRITICAL + 1)
            colors = None if inp.get("colors") == "default" else dict(COLORS)
            try:
                PlotKaryogram(bp, inp["name"], os.path.join(d, "out.png"), log, centromeres_file=cen, colors=colors)
            except BaseException as e:  # noqa  (SystemExit included)
                return {"err": err_kind(e), "cls": type(e).__name__, "msg": str(e)[:160]}
            figs = plt.get_fignums()
            if len(figs) != 1:
                return {"unobserved": f"{len(figs)} figures"}
            ax = plt.figure(figs[0]).axes[0]
            leg = ax.get_legend()
            key = {}
            if leg is not None:
                for patch, text in zip(leg.get_patches(), leg.get_texts()):
                    key[tuple(round(float(x), 6) for x in mcolors.to_rgba(patch.get_facecolor()))] = text.get_text()
            rects = []
            for col in ax.collections:
                paths = col.get_paths()
                fc = col.get_facecolor()
                if len(paths) != 1 or len(fc) != 1:
                    return {"unobserved": "collection with several paths"}
                lab = key.get(tuple(round(float(x), 6) for x in fc[0]), "?")
                rects.append([lab, [[float(x).hex(), float(y).hex()] for x, y in paths[0].vertices.tolist()]])
            return {"ok": rects, "patches": len(ax.patches)}
        finally:
            plt.close("all")
            shutil.rmtree(d, ignore_errors=True)

    def encode(self, inp, obs):
        if "unobserved" in obs:
            o = "(Err 97)"
        elif "ok" in obs:
            vt = lambda v: f"({hexf(float.fromhex(v[0]))}, {hexf(float.fromhex(v[1]))})"
            o = "(Ok " + L.lst(obs["ok"], lambda r: f"({L.chars(r[0])}, {L.lst(r[1], vt)})") + ")"
        else:
            o = f"(Err {L.z(obs.get('err', obs.get('kind', 99)))})"
        cen = L.opt(inp["cen"], lines_term)
        return (f"(mkp {L.chars(inp['name'])} {lines_term(inp['lines'])} {cen} {ftab_term(inp['lines'], inp['cen'])} {o})")

    def nontrivial(self, inp, obs):
        return is_nontrivial(inp)

    def classes(self, inp, obs):
        out = common_classes(inp) + [f"colors:{inp.get('colors')}"]
        if isinstance(obs, dict) and ("err" in obs or "kind" in obs):
            out.append(f"err{obs.get('err', obs.get('kind'))}")
        return out

    def shrink(self, inp):
        return shrink_file(inp)

    def mutate(self, inp, rng):
        yield dict(inp, colors="given" if inp.get("colors") == "default" else "default")
        yield from list(name_variants(inp, rng))[:6]

    def signature(self, inp, obs):
        s1, s2 = sample_sections(inp)
        present = s1 is not None or s2 is not None
        if "err" in obs or "kind" in obs:
            return (f"PlotKaryogram raises {obs.get('cls', obs.get('__exc__', '?'))} sample-present={present} "
                    f"colors={inp.get('colors')}")
        if not present:
            return "PlotKaryogram draws an absent sample"
        if inp["cen"] is not None:
            return "PlotKaryogram rectangles with chromosome-end extension"
        return "PlotKaryogram rectangles of the sample"


class TVBlocks(Blocks):
    """The same generated GetHaplotypeBlocks calls, with GetChrom / GetHaplotypeBlocks evaluated from the MiniPy syntax
    regenerated from the current source (str.strip/split/join/startswith/endswith = the BpText functions, int()/float() =
    the recorded codec tables, x + 0.0001 = PrimFloat.add, the two files = the case's token lines): validates the
    translator and the interpreter against the real code.  holds is checked by the blocks relation."""
    name = "tv_blocks"
    coq_lib = "HVG"
    coq_module = "TVM_C18"
    coq_check = "check_tv_blocks"
    coq_case_type = "C18_Check.bcase"
    coq_model = "tv_model_blocks"
    coq_imports = ["BpText", "C18_Model", "C18_Check"]
    budget = {"quick": 160, "thorough": 2000}

    def exhaustive(self, tier):
        return super().exhaustive(tier)[::5]

    def signature(self, inp, obs):
        return "tv_" + super().signature(inp, obs)


RELATIONS = [Blocks(), Plot(), TVBlocks()]

LEVEL_TEXT = (
    "Coq theorems over all token files, sample names and chromosome-end tables (no size bound) about a Gallina model of "
    "GetChrom/GetHaplotypeBlocks (framing state machine, start rule, extension pass) and PlotHaplotypeBlock's rectangle; "
    "the model is tied to the code on every run by evaluating, inside Coq with bit-exact PrimFloat arithmetic, "
    "model-vs-implementation agreement and the property's finite checker on generated files, for GetHaplotypeBlocks' "
    "return value and for the PathCollections PlotKaryogram leaves on the matplotlib axes (Agg). GetChrom and the whole "
    "of GetHaplotypeBlocks are regenerated from the current source on every run and proved equal to the model for all "
    "files, tokenisers, sample names and chromosome-ends files (coq/translated/TV_C18.v: same blocks or same error "
    "kind; C18_blocks_are_samples_lines and C18_extension_only_last restated about the translated code)."
)
LEVEL_NOTE = (
    "Partial: matplotlib (vertices/face colours kept as given), Python's float()/int() and str.split() are contracts, "
    "not theorems; GetCentromereClipMask, colours and the legend are not modelled (the harness reads the legend to name "
    "a rectangle's label). Theorems treat x + 0.0001 as an abstract function; the correspondence evaluates it with PrimFloat. "
    "'Non-overlapping' is a theorem about the model for every order on the abstract float type with the transitivity laws, "
    "under the hypothesis that the file's cM ends increase within each run (x < plus_eps x <= next end); on the "
    "implementation's output it is evaluated by holds under the same precondition in binary64. "
    "Translation validation: PlotKaryogram / PlotHaplotypeBlock (matplotlib) are not translated; the string methods, "
    "int(), float(), the float addition and the file system are uninterpreted functions under stated contracts "
    "(not proved of CPython); iterating over a file is read as iterating over the list open() stands for."
)
TECHNIQUE = ("Coq proof by induction on line/block lists + translation validation of GetChrom / GetHaplotypeBlocks (source -> "
             "MiniPy -> proved equal to the model) + vm_compute-evaluated correspondence (PrimFloat) against the implementation")
